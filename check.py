#!/venv/bin/python
"""Entry point: /venv/bin/python check.py Cxx --tier quick|thorough

exit 0: every rule instance of the property holds on /repo's working tree
exit 1: VIOLATION property=<id> replay=<path>
exit 2: ANALYSIS-ERROR (anchor vanished / floor not met / checker raised)
"""
import argparse
import importlib
import os
import sys

sys.path.insert(0, os.path.dirname(os.path.abspath(__file__)))
sys.dont_write_bytecode = True


def main():
    ap = argparse.ArgumentParser()
    ap.add_argument("prop")
    ap.add_argument("--tier", default=os.environ.get("VERIF_TIER", "quick"), choices=["quick", "thorough"])
    ap.add_argument("--repo", default=None, help="analyse this tree instead of /repo (self-test only)")
    ap.add_argument("--no-selftest", action="store_true")
    a = ap.parse_args()
    if a.repo:
        os.environ["PDV_REPO"] = a.repo
    from pdv import report, model
    if a.repo:
        model.REPO = a.repo
    seed = int(os.environ.get("VERIF_SEED", "0") or 0)
    try:
        mod = importlib.import_module("pdv.props." + a.prop.lower())
    except ImportError as e:
        print(f"ANALYSIS-ERROR property={a.prop}: no check module ({e})")
        return 2
    rc = report.run_check(a.prop, a.tier, lambda ctx: report.full_check(mod, ctx), seed)
    if rc == 0 and a.tier == "thorough" and not a.no_selftest and not a.repo:
        from pdv import selftest
        rc = selftest.run(a.prop, seed)
    return rc


if __name__ == "__main__":
    sys.exit(main())
