#!/venv/bin/python
"""Confirm a seeded change delivered by a sub-agent, in a scratch worktree of
/repo (outside /repo and /verif, removed afterwards):

  1. demo on the clean tree must pass (rc 0)
  2. patch must apply; demo with the patch must fail (rc != 0)
  3. the pinned suite with the patch must still pass every BASELINE stable_pass test

usage: confirm_seed.py <seed dir containing patch.diff, demo.py|test_demo.py, meta.json> [--no-suite]
Writes the outcome into <seed dir>/meta.json under "confirmed"."""
import json, os, subprocess, sys, tempfile, shutil, xml.etree.ElementTree as ET

def sh(cmd, cwd=None, timeout=1800):
    env = dict(os.environ)
    if cwd:
        env["PYTHONPATH"] = cwd  # the scratch tree, not the editable install of /repo
    p = subprocess.run(cmd, shell=True, cwd=cwd, env=env, stdout=subprocess.PIPE, stderr=subprocess.STDOUT, text=True, timeout=timeout)
    return p.returncode, p.stdout

def run_suite(cmd, cwd, xml, timeout=3000, grace=90):
    """Run the suite; pytest sometimes hangs at interpreter exit on a non-daemon thread after the junit file is written:
    once the xml exists and is `grace` seconds old, kill the process group."""
    import signal, time
    env = dict(os.environ, PYTHONPATH=cwd)
    p = subprocess.Popen(cmd, shell=True, cwd=cwd, env=env, stdout=subprocess.DEVNULL, stderr=subprocess.DEVNULL, start_new_session=True)
    t0 = time.time()
    while p.poll() is None:
        time.sleep(5)
        done = os.path.exists(xml) and os.path.getsize(xml) > 0 and time.time() - os.path.getmtime(xml) > grace
        if done or time.time() - t0 > timeout:
            try:
                os.killpg(p.pid, signal.SIGKILL)
            except ProcessLookupError:
                pass
            subprocess.run("pkill -KILL -f %s" % xml, shell=True)
            break
    try:
        p.wait(30)
    except Exception:
        pass


def main():
    seed = os.path.abspath(sys.argv[1])
    suite = "--no-suite" not in sys.argv
    name = os.path.basename(seed.rstrip("/"))
    wt = tempfile.mkdtemp(prefix=f"confirm_{name}_", dir="/tmp")
    os.rmdir(wt)
    rc, out = sh(f"git -C /repo worktree add --detach {wt} HEAD -q")
    if rc:
        print(out); sys.exit(2)
    res = {}
    try:
        demo = "demo.py" if os.path.exists(os.path.join(seed, "demo.py")) else "test_demo.py"
        os.makedirs(os.path.join(wt, "_seed", name))
        for f in os.listdir(seed):
            if os.path.isfile(os.path.join(seed, f)):
                shutil.copy(os.path.join(seed, f), os.path.join(wt, "_seed", name, f))
        run_demo = f"/venv/bin/python _seed/{name}/{demo}" if demo == "demo.py" else f"/venv/bin/python -m pytest -q -p no:cacheprovider _seed/{name}/{demo}"
        rc0, o0 = sh(run_demo, cwd=wt, timeout=300)
        res["demo_clean_rc"] = rc0
        rca, oa = sh(f"git apply _seed/{name}/patch.diff", cwd=wt)
        res["patch_applies"] = rca == 0
        if rca:
            res["apply_output"] = oa[-500:]
        rc1, o1 = sh(run_demo, cwd=wt, timeout=300)
        res["demo_patched_rc"] = rc1
        res["demo_patched_tail"] = o1[-400:]
        if suite and rca == 0:
            base = json.load(open("/root/.vp/BASELINE.json"))
            xml = os.path.join(wt, "_run.xml")
            # private network namespace: the suite opens fixed TCP ports and other runs share this machine
            run_suite(f"unshare -rn sh -c 'ip link set lo up; /venv/bin/python -m pytest -ra -q -p no:cacheprovider --timeout=900 --continue-on-collection-errors --junitxml={xml}'", wt, xml)
            passed = set()
            for tc in ET.parse(xml).iter("testcase"):
                if not any(ch.tag in ("failure", "error", "skipped") for ch in tc):
                    passed.add(tc.get("classname") + "::" + tc.get("name"))
            missing = sorted(set(base["stable_pass"]) - passed)
            # re-run the missing ones alone (port collisions / flaky subprocess tests)
            still = []
            for m in missing:
                cls, tname = m.split("::")
                parts = cls.split(".")
                # find file
                for i in range(len(parts), 0, -1):
                    f = os.path.join(wt, *parts[:i]) + ".py"
                    if os.path.exists(f):
                        node = os.path.relpath(f, wt) + "::" + "::".join(parts[i:] + [tname])
                        r, _ = sh(f"unshare -rn sh -c \"ip link set lo up; /venv/bin/python -m pytest -q -p no:cacheprovider --timeout=900 '{node}'\"", cwd=wt, timeout=900)
                        if r != 0:
                            still.append(m)
                        break
                else:
                    still.append(m)
            res["stable_pass_missing_first_run"] = missing
            res["stable_pass_missing"] = still
        ok = res["demo_clean_rc"] == 0 and res["patch_applies"] and res["demo_patched_rc"] != 0 and not res.get("stable_pass_missing")
        res["ok"] = bool(ok)
    finally:
        sh(f"git -C /repo worktree remove --force {wt}")
        shutil.rmtree(wt, ignore_errors=True)
    mp = os.path.join(seed, "meta.json")
    meta = json.load(open(mp)) if os.path.exists(mp) else {}
    meta["confirmed"] = res
    meta["confirmed_against_repo_head"] = subprocess.run("git -C /repo rev-parse --short HEAD", shell=True, stdout=subprocess.PIPE, text=True).stdout.strip()
    json.dump(meta, open(mp, "w"), indent=1)
    print(name, json.dumps({k: v for k, v in res.items() if k != "demo_patched_tail"}))
    sys.exit(0 if res.get("ok") else 1)

main()
