#!/venv/bin/python
"""Replay helper: print a violations report written by check.py."""
import json, sys
d = json.load(open(sys.argv[1]))
for v in d["violations"]:
    print(f"{v['where']} [{v['rule']}] {v['function']}\n    instance: {v['instance']}\n    statement: {v['statement']}\n    {v['message']}\n    rule: {d['rules'].get(v['rule'],'')}")
