#!/bin/bash
# collect_neutral.sh <prop>: copy /tmp/wt/<prop>/_seed/<prop>_n* into /verif/neutral, drop the worktree, run every check on them
p=$1
ids=""
for d in /tmp/wt/$p/_seed/${p}_n*; do b=$(basename $d); mkdir -p /verif/neutral/$b; cp $d/* /verif/neutral/$b/ 2>/dev/null; ids="$ids $b"; done
git -C /repo worktree remove --force /tmp/wt/$p
cd /verif; /venv/bin/python tools/try_neutral.py $ids 2>&1 | grep -v Warn | cut -c1-280
