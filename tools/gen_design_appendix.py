#!/venv/bin/python
"""Regenerate the generated appendix of DESIGN.md (between the BEGIN/END GENERATED
markers) from what is actually on disk:

  A. per property: the check module's own description (docstring), the rules it
     arms with the instance counts of the last clean run (evidence/<id>.json) and
     the size of its self-test corpus;
  B. the seeded changes (seeded/<id>/meta.json, seeded/RESULTS.json): what each
     breaks, what it needs, which checks catch it;
  C. findings: known (kept) and fixed (with the /repo commit).
"""
import ast
import importlib
import json
import os
import sys

HERE = os.path.dirname(os.path.dirname(os.path.abspath(__file__)))
sys.path.insert(0, HERE)
sys.dont_write_bytecode = True


def main():
    props = [json.loads(l) for l in open(os.path.join(HERE, "properties.jsonl"))]
    out = []
    out.append("## Appendix A. What each check decides (generated from the check modules and the last clean run)\n")
    for p in props:
        pid = p["id"]
        path = os.path.join(HERE, "pdv", "props", pid.lower() + ".py")
        if not os.path.exists(path):
            out.append(f"### {pid} {p['title']}\n\nnot claimed.\n")
            continue
        tree = ast.parse(open(path).read())
        doc = ast.get_docstring(tree) or ""
        ev = {}
        evp = os.path.join(HERE, "evidence", pid + ".json")
        if os.path.exists(evp):
            ev = json.load(open(evp))
        mod = importlib.import_module("pdv.props." + pid.lower())
        variants = getattr(mod, "VARIANTS", [])
        nb = sum(1 for v in variants if v[4] == "break")
        nn = sum(1 for v in variants if v[4] == "neutral")
        out.append(f"### {pid} {p['title']}\n")
        out.append("```\n" + doc.strip() + "\n```\n")
        rules = ev.get("coverage", {}).get("rules", {})
        if rules:
            out.append("| rule | instances on the clean tree | rule text |\n|---|---|---|")
            for r, d in sorted(rules.items()):
                out.append(f"| {r} | {d['ok']}/{d['instances']} | {d['text']} |")
            out.append("")
        out.append(f"Self-test corpus (thorough tier): {nb} breaking variants, {nn} behaviour-preserving variants.\n")
    # ---- seeds
    out.append("## Appendix B. Seeded changes and which checks catch them (generated)\n")
    res = {}
    rp = os.path.join(HERE, "seeded", "RESULTS.json")
    if os.path.exists(rp):
        res = json.load(open(rp))
    out.append("| seed | property | file / function | what it needs to manifest | caught by |\n|---|---|---|---|---|")
    sd = os.path.join(HERE, "seeded")
    for d in sorted(os.listdir(sd)):
        mp = os.path.join(sd, d, "meta.json")
        if not os.path.exists(mp):
            continue
        m = json.load(open(mp))
        r = res.get(d, {})
        caught = ", ".join(sorted(r.get("caught_by", {}))) or ("(not run)" if d not in res else "**missed**")
        needs = (m.get("needs", "") or "").replace("|", "/").replace("\n", " ")
        if len(needs) > 260:
            needs = needs[:257] + "..."
        fn = f"{m.get('file', '?')} / {m.get('function', '?')}".replace("|", "/")
        conf = m.get("confirmed", {})
        out.append(f"| {d} | {m.get('property', d[:3])} | {fn} | {needs} | {caught} |")
    out.append("")
    out.append("Every seed listed was confirmed in a scratch worktree (`tools/confirm_seed.py`): the demonstration passes on the clean tree, "
               "fails with the patch, and the pinned suite still passes all 649 stable tests with the patch.\n")
    # ---- findings
    k = json.load(open(os.path.join(HERE, "known_findings.json")))
    out.append("## Appendix C. Findings (generated from known_findings.json)\n")
    out.append("### Kept as known findings (the check prints KNOWN-FINDING and exits 0)\n")
    for e in k.get("known", []):
        out.append(f"* **{e['property']} {e.get('id', '')}** — {e['what']}")
    out.append("\n### Repaired in /repo (one `fix:` commit each; a fixed entry suppresses nothing)\n")
    for e in k.get("fixed", []):
        out.append(f"* {e[len('fixed: '):]}")
    out.append("")
    text = "\n".join(out)
    dp = os.path.join(HERE, "DESIGN.md")
    s = open(dp).read()
    b, e = "<!-- BEGIN GENERATED -->", "<!-- END GENERATED -->"
    if b in s and e in s:
        s = s[:s.index(b) + len(b)] + "\n\n" + text + "\n" + s[s.index(e):]
    else:
        s = s.rstrip() + "\n\n" + b + "\n\n" + text + "\n" + e + "\n"
    open(dp, "w").write(s)
    print(f"appendix written: {len(text)} chars")


main()
