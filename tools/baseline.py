#!/venv/bin/python
"""Run the pinned test-suite of /repo (command from /root/.vp/BASELINE.json) and
compare the set of passing tests with BASELINE.stable_pass.  Exit 0 iff every
stable_pass test still passes.  Not a property check: used after hook/fix commits."""
import json, subprocess, sys, tempfile, os, xml.etree.ElementTree as ET

def main():
    base = json.load(open('/root/.vp/BASELINE.json'))
    out = tempfile.mktemp(suffix='.junit.xml', dir=os.environ.get('TMPDIR', '/tmp'))
    cmd = base['cmd'].replace('<file>', out)
    env = dict(os.environ)
    env.pop('PYDCOP_VERIF', None)
    subprocess.run(cmd, shell=True, env=env, stdout=subprocess.DEVNULL, stderr=subprocess.DEVNULL)
    passed = set()
    tree = ET.parse(out)
    os.unlink(out)
    for tc in tree.iter('testcase'):
        bad = any(ch.tag in ('failure', 'error', 'skipped') for ch in tc)
        if not bad:
            passed.add(tc.get('classname') + '::' + tc.get('name'))
    want = set(base['stable_pass'])
    missing = sorted(want - passed)
    print(f'stable_pass={len(want)} passed_now={len(passed)} missing={len(missing)} new={len(passed-want)}')
    for m in missing[:50]:
        print('  MISSING', m)
    for m in sorted(passed - want)[:80]:
        print('  NEW', m)
    sys.exit(1 if missing else 0)
main()
