#!/venv/bin/python
"""Freeze the shape inventory (local names, ==/!= comparison texts, if/else test
texts) of every function of the confirmed tree into pdv/refshape.json; see
pdv/normalise.py.  Run after every change to /repo that is meant to stay
(fix: commits), from a clean working tree.

usage: gen_refshape.py [source root, default /repo]"""
import ast, json, os, sys, warnings
sys.path.insert(0, os.path.dirname(os.path.dirname(os.path.abspath(__file__))))
sys.dont_write_bytecode = True
from pdv import normalise

root = sys.argv[1] if len(sys.argv) > 1 else "/repo"
mods = {}
for dp, dn, fn in os.walk(os.path.join(root, "pydcop")):
    dn[:] = sorted(d for d in dn if d != "__pycache__")
    for f in sorted(fn):
        if f.endswith(".py"):
            p = os.path.join(dp, f)
            rel = os.path.relpath(p, root)[:-3].replace(os.sep, ".")
            if rel.endswith(".__init__"):
                rel = rel[:-9]
            with warnings.catch_warnings():
                warnings.simplefilter("ignore")
                mods[rel] = ast.parse(open(p, encoding="utf-8").read())
ref = normalise.build_reference(mods)
json.dump(ref, open(normalise.REF_FILE, "w"), indent=0, sort_keys=True)
print(f"refshape: {len(ref)} modules, {sum(len(v) for v in ref.values())} functions -> {normalise.REF_FILE}")
