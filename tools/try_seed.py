#!/venv/bin/python
"""Run checks against a seeded change without touching /repo: the patch is applied to a
scratch copy of a clean worktree (default /tmp/clean, created with `git -C /repo worktree add`).
usage: try_seed.py [--all] <seed id>..."""
import json, os, shutil, subprocess, sys, tempfile
V = "/verif"
CLEAN = os.environ.get("CLEAN_TREE", "/tmp/clean")
allc = "--all" in sys.argv
seeds = [a for a in sys.argv[1:] if not a.startswith("--")]
man = json.load(open(f"{V}/MANIFEST.json"))
for s in seeds:
    tmp = tempfile.mkdtemp(prefix="tryseed_")
    try:
        shutil.copytree(os.path.join(CLEAN, "pydcop"), os.path.join(tmp, "pydcop"), ignore=shutil.ignore_patterns("__pycache__"))
        r = subprocess.run(["patch", "-p1", "-s", "-i", f"{V}/seeded/{s}/patch.diff"], cwd=tmp, stdout=subprocess.PIPE, stderr=subprocess.STDOUT, text=True)
        if r.returncode:
            print(s, "PATCH FAILED", r.stdout[-300:]); continue
        prop = json.load(open(f"{V}/seeded/{s}/meta.json")).get("property", s.split("_")[0])
        pids = [c["property_id"] for c in man["checks"]] if allc else [prop]
        caught = []
        for pid in pids:
            p = subprocess.run(["/venv/bin/python", "check.py", pid, "--tier", "quick", "--repo", tmp], cwd=V, env=dict(os.environ, PDV_EVIDENCE_DIR=os.path.join(tmp if "tmp" in dir() else tree, "evidence")), stdout=subprocess.PIPE, stderr=subprocess.STDOUT, text=True)
            if p.returncode:
                lines = [l.strip() for l in p.stdout.splitlines() if l.startswith("  pydcop") or l.startswith("ANALYSIS")]
                caught.append((pid, p.returncode, lines[:2]))
        own = [c for c in caught if c[0] == prop]
        print(f"{s}: own check {'CATCHES' if own and own[0][1] == 1 else ('exit 2' if own else 'MISSES')}; flagged by {[c[0] for c in caught]}")
        for pid, rc, lines in caught:
            for l in lines[:2]:
                print(f"     [{pid} rc={rc}] {l[:260]}")
    finally:
        shutil.rmtree(tmp, ignore_errors=True)
