#!/bin/bash
# collect_seeds.sh <prop> <i> <j>: copy /tmp/wt/<prop>/_seed/<prop>_<i|j> into /verif/seeded, drop the worktree, try the seeds
p=$1; shift
for i in "$@"; do mkdir -p /verif/seeded/${p}_$i; cp /tmp/wt/$p/_seed/${p}_$i/* /verif/seeded/${p}_$i/; done
git -C /repo worktree remove --force /tmp/wt/$p
cd /verif; args=""; for i in "$@"; do args="$args ${p}_$i"; done
/venv/bin/python tools/try_seed.py --all $args 2>&1 | grep -v Warn | cut -c1-260
