#!/venv/bin/python
"""Print the prompt given to an independent sub-agent for property <id> and
worktree <dir>.  The prompt contains only the property's text (from
properties.jsonl) and the working conventions - nothing about /verif's checks."""
import json, sys
pid, wt = sys.argv[1], sys.argv[2]
n = sys.argv[3] if len(sys.argv) > 3 else "2"
start = int(sys.argv[4]) if len(sys.argv) > 4 else 1
import os, glob
taken = []
for d in sorted(glob.glob(f'/verif/seeded/{pid}_*')):
    mp = os.path.join(d, 'meta.json')
    if os.path.exists(mp) and start > 1:
        m = json.load(open(mp))
        taken.append(f"  - {m.get('file', '?')} / {m.get('function', '?')}: {m.get('summary', '')[:300]}")
taken_txt = ("\n\nOther people have ALREADY delivered the following changes for this property; yours must be DIFFERENT (another mechanism, another function or another clause of the property - not a variation of these):\n" + "\n".join(taken)) if taken else ""
idx = ", ".join(str(i) for i in range(start, start + int(n)))
style = sys.argv[5] if len(sys.argv) > 5 else ""
style_txt = ""
if style == "refactor":
    style_txt = ("\n  (e) For THIS round, each change must LOOK LIKE A CLEAN-UP: write it as a plausible refactoring of moderate size (roughly 8-40 changed lines) - merging two duplicated branches or tails into one parameterised block, "
                 "extracting or inlining a helper, introducing a named constant / NamedTuple / dict dispatch, turning a loop into a comprehension / next() / any() or the reverse, replacing indexing by unpacking, restructuring "
                 "if/elif chains into guard clauses, hoisting or reordering statements, merging or splitting loops - in the course of which the behaviour change of (a) slips in (a statement ends up on the wrong side of a call, a condition "
                 "loses a case when two branches are merged, a hoisted value goes stale, the merged code serves one of the two original cases wrongly, a default changes, an order of effects changes ...). A reviewer skimming the diff should "
                 "take it for a behaviour-preserving refactoring.")
prop = next(json.loads(l) for l in open('/verif/properties.jsonl') if json.loads(l)['id'] == pid)
print(f"""You are helping to evaluate a verification effort for the Python library pyDCOP (distributed constraint optimisation: algorithms such as DPOP/MGM/MaxSum on a threaded message-passing agent runtime).

You have your OWN scratch git worktree of the repository at {wt} (detached HEAD). Work ONLY inside {wt}. Never touch /repo or /verif and never read anything under /verif. Python to use: /venv/bin/python with PYTHONPATH={wt} (an editable install of another copy exists: always run `cd {wt} && PYTHONPATH={wt} /venv/bin/python ...` and verify once that `import pydcop; print(pydcop.__file__)` points into {wt}). The sandbox has no network.

Here is a semantic property that the library is supposed to satisfy (JSON record: statement, quantifier, code anchors):

{json.dumps(prop, indent=1)}

YOUR TASK: produce {n} DIFFERENT, independent source changes ("seeded defects") to the library code under {wt}/pydcop, each of which
  (a) BREAKS this property (the behaviour the statement describes no longer holds for some input / schedule / history),
  (b) still compiles/imports and still passes the repository's existing test-suite. On the clean tree the suite gives roughly "62 failed, 793 passed, 25 skipped, 1 error" in ~60 s (the failures are pre-existing: missing solver binary, known broken tests, a few flaky subprocess tests under tests/dcop_cli). What matters: every test that passes on the clean tree must still pass with your change. Measure it, do not guess:
        cd {wt} && unshare -rn sh -c 'ip link set lo up; PYTHONPATH={wt} /venv/bin/python -m pytest -q -p no:cacheprovider --timeout=900 --continue-on-collection-errors --junitxml=/tmp/wt/{pid}_run.xml' 2>&1 | tail -3
      once on the clean tree and once per change, and compare the sets of passed test ids (parse the junit xml with a few lines of python). Other people run the same suite concurrently on this machine and a few tests (tests/unit/test_infra_communication.py HTTP tests, tests/dcop_cli/*) use real TCP ports / subprocesses and can flake: if one of those differs, re-run that test alone before concluding,
  (c) is REALISTIC - the kind of slip a maintainer could make in a refactoring or "small improvement" (an off-by-one, a dropped or weakened guard, a swapped argument, a wrong comparison, a missing copy, a reordered pair of statements, a forgotten field, a changed default, two sites that each look fine alone but disagree...), small (a few lines), not a blatant sabotage, and
  (d) needs SOMETHING SPECIFIC to manifest: a particular interleaving or delivery order, a crash/fault at a particular point, a multi-step sequence of operations, an unusual input (ties, infinities, empty sets, repeated names, max-mode, ...), or two cooperating sites. NOT something ordinary use would expose immediately.
{style_txt}
Prefer changes located in the mechanisms the anchors name, but any file of the package is allowed. The {n} changes should touch different mechanisms / clauses of the property.{taken_txt}

For EACH change i (i in {idx}) deliver, in the directory {wt}/_seed/{pid}_<i>/ :
  - patch.diff : `git diff` of ONLY that change against the clean HEAD (apply with `git apply`), touching only files under pydcop/.
  - demo.py (or test_demo.py) : a small self-contained program run as `cd <tree> && PYTHONPATH=<tree> /venv/bin/python _seed/{pid}_<i>/demo.py` that exits 0 / prints PASS on the clean tree and exits non-zero / prints FAIL with the change applied. It must exercise the real library code (no mocks of the changed function), be deterministic (fix seeds) and finish in < 60 s. Avoid real sockets/HTTP; threads are fine if the outcome is deterministic.
  - meta.json : {{"property": "{pid}", "summary": "<one sentence: what was changed>", "file": "<path>", "function": "<qualified function>", "needs": "<what specific input/schedule/history is needed to manifest>", "why_tests_pass": "<why the existing tests do not notice>"}}
Procedure for each: start from a clean tree (`git -C {wt} checkout -- pydcop`), make the change, run the full test-suite and confirm that every test passing on the clean tree still passes, run the demo WITH the change (must fail), save patch.diff, revert the change (`git -C {wt} checkout -- pydcop`), run the demo on the clean tree (must pass). Leave the worktree clean (only the untracked _seed/ directory remains).

Finish with a short report: for each change, the summary, the file/function, and the exact observed outputs of the demo with and without the change, and of the test-suite with the change. If you could not produce a change satisfying all of (a)-(d), say so plainly rather than delivering a weaker one.""")
