#!/venv/bin/python
"""Neutral-edit campaign: apply behaviour-preserving source transformations to a
scratch copy of /repo/pydcop and run every quick check against it.  A check
that reports a violation (exit 1) on such a tree has a false alarm; exit 2 means
the checker lost sight of its subject (also undesirable, but not an alarm).

Transformations (whole package, AST-level, comments are lost - irrelevant):
  reformat   ast.unparse round trip (layout, quotes, parentheses, line numbers)
  rename     every function-local variable x (not a parameter / global / nonlocal,
             not used in a nested scope) is renamed x__n
  flipif     `if c: A else: B` (no elif, both non-empty) becomes `if not c: B else: A`
  swapeq     `a == b` / `a != b` become `b == a` / `b != a` (single comparison)

usage: neutral_campaign.py [kinds...] [--props C01,C02]   (scratch dirs under $TMPDIR, removed afterwards)
"""
import ast
import json
import os
import shutil
import subprocess
import sys
import tempfile
from concurrent.futures import ThreadPoolExecutor

V = "/verif"
REPO = os.environ.get("NEUTRAL_SRC", "/repo")


sys.path.insert(0, V)
from pdv.neutral import KINDS, transform  # noqa: E402


def run_checks(tree, props):
    man = json.load(open(f"{V}/MANIFEST.json"))
    res = {}

    def one(c):
        pid = c["property_id"]
        if props and pid not in props:
            return pid, None
        p = subprocess.run(["/venv/bin/python", "check.py", pid, "--tier", "quick", "--repo", tree], cwd=V, env=dict(os.environ, PDV_EVIDENCE_DIR=os.path.join(tmp if "tmp" in dir() else tree, "evidence")), stdout=subprocess.PIPE, stderr=subprocess.STDOUT, text=True)
        lines = [l for l in p.stdout.splitlines() if l.startswith("  pydcop") or l.startswith("ANALYSIS-ERROR")]
        return pid, (p.returncode, lines[:6])
    with ThreadPoolExecutor(max_workers=12) as ex:
        for pid, r in ex.map(one, man["checks"]):
            if r is not None:
                res[pid] = r
    return res


def main():
    args = [a for a in sys.argv[1:] if not a.startswith("--")]
    props = None
    for a in sys.argv[1:]:
        if a.startswith("--props"):
            props = set(a.split("=", 1)[1].split(","))
    kinds = args or list(KINDS)
    summary = {}
    for kind in kinds:
        tmp = tempfile.mkdtemp(prefix=f"neutral_{kind}_")
        try:
            shutil.copytree(os.path.join(REPO, "pydcop"), os.path.join(tmp, "pydcop"), ignore=shutil.ignore_patterns("__pycache__"))
            n = 0
            for dp, dn, fn in os.walk(os.path.join(tmp, "pydcop")):
                for f in fn:
                    if f.endswith(".py"):
                        p = os.path.join(dp, f)
                        src = open(p, encoding="utf-8").read()
                        try:
                            new = transform(src, kind)
                            compile(new, p, "exec")
                        except Exception as e:  # keep the original if the transformation fails
                            print(f"  [{kind}] skipped {p}: {e}")
                            continue
                        open(p, "w", encoding="utf-8").write(new)
                        n += 1
            res = run_checks(tmp, props)
            bad = {k: v for k, v in res.items() if v[0] != 0}
            summary[kind] = bad
            print(f"== {kind}: {n} files transformed, {len(res)} checks run, {sum(1 for v in bad.values() if v[0] == 1)} false alarms, {sum(1 for v in bad.values() if v[0] == 2)} analysis errors")
            for k, (rc, lines) in sorted(bad.items()):
                print(f"   {k} exit {rc}")
                for l in lines:
                    print("      " + l[:230])
        finally:
            shutil.rmtree(tmp, ignore_errors=True)
    # evidence files were rewritten against scratch trees: the caller re-runs the checks on /repo
    return 0


main()
