#!/venv/bin/python
"""Regenerate /verif/MANIFEST.json from the table below + the set of check
modules present in pdv/props.  Properties without a check module are listed
under not_applicable with their reason."""
import json
import os

HERE = os.path.dirname(os.path.dirname(os.path.abspath(__file__)))

# id -> (technique, level text, level note, design ref)
T = {
 "C01": ("ast rules: R-API, R-MODE, must-pass-through (finished/UTIL/VALUE), R-PROTO, link-type writer/reader, R-PROV",
         "Necessary structural conditions of DPOP's correctness decided on every path of DpopAlgo and the relation helpers; optimality itself is not decided.",
         "ast parser; rule tables confirmed by reading dpop.py/relations.py/pseudotree.py", "4/C01"),
 "C02": ("ast rules: R-MODE on bound updates, termination chain must-pass-through, R-PROTO arity, chain-link pairing, R-PROV",
         "Structural necessary conditions of SyncBB termination/optimality on all paths of SyncBBComputation; pruning arithmetic not decided.",
         "ast parser; tables from syncbb.py/ordered_graph.py", "4/C02"),
 "C03": ("ast rules: guarded-effect (exclusive mover), cost-model term agreement, mode polarity",
         "Every value change in MGM/MGM2 is dominated by the strict-best / tie-break licence and gains use the full local cost model; monotonicity itself not decided.",
         "ast parser; tables from mgm.py/mgm2.py", "4/C03"),
 "C04": ("ast rules: R-MODE polarity of gains through messages into arbitration",
         "Sign convention and comparator coherence of gain arbitration for both objectives on all paths; 1-optimality not decided.",
         "ast parser", "4/C04"),
 "C05": ("ast rules: R-MODE, R-PROTO, mixin conformance, stability cut-off guarded effects",
         "Structural necessary conditions of Max-Sum exactness; convergence not decided.", "ast parser", "4/C05"),
 "C06": ("ast rules: comparator coherence, accumulator identity, tie handling, probe/usage agreement, unpack-slot agreement",
         "Structure of the best-response helpers decided on all paths (strict/equal branches, sentinels, own-cost term, slot order at call sites); numeric equality not decided.",
         "ast parser", "4/C06"),
 "C07": ("ast rules: must-pass-through finished(), exactly-once new_cycle, R-PROTO exhaustiveness, postponed-buffer pairing",
         "Termination-path structure of MGM/MGM2/DSA decided on all paths; liveness under schedules not decided.", "ast parser", "4/C07"),
 "C08": ("ast effect-order specification of SynchronousComputationMixin + conformance of user classes",
         "The mixin's round bookkeeping (classification, hand-over, stamp, sync to silent neighbours) decided on all paths and for every user class; interleavings not decided.",
         "ast parser", "4/C08"),
 "C09": ("ast guarded-effect table on DbaComputation", "finished()/counter/consistency effects occur only under their licences on all paths; the distance argument is not decided.", "ast parser", "4/C09"),
 "C10": ("ast provenance analysis (domain provenance of every value_selection argument)",
         "Every value_selection/random_value_selection call site in all algorithm modules gets its argument from the variable's domain (or None) on all paths; message-borne values via a small contract table.",
         "ast parser; provenance summaries of relation helpers", "4/C10"),
 "C11": ("ast rules: hash-order taint, copy-state forwarding, dispatch agreement, immutability",
         "Relations' argument mapping is hash-order independent, derived copies forward all state, relations never mutate themselves; value equality not decided.", "ast parser", "4/C11"),
 "C12": ("ast rules: R-API, alias analysis (copy before write), list/dict sibling agreement, join/projection pairing",
         "Structure of set_value_for_assignment/join/projection decided on all paths; table equality not decided.", "ast parser + stdlib/numpy attribute existence", "4/C12"),
 "C13": ("ast rules: guard domination of ValueError, hard/soft dichotomy sibling agreement, return-slot agreement",
         "Structure of solution_cost/assignment_cost decided on all paths and at their call sites; arithmetic not decided.", "ast parser", "4/C13"),
 "C14": ("ast rules: R-API importability, str-before-iterable, dump/load key agreement",
         "yamldcop uses only existing library names, filename normalisation tests str first, and every YAML key the dumper writes is read by the loader; object equivalence not decided.",
         "ast parser + stdlib attribute existence", "4/C14"),
 "C15": ("ast rules: R-REPR field contract over all SimpleRepr classes, custom repr pairs, getstate/setstate, message constructor arity, HTTP header keys",
         "Every constructor parameter of every wire class is reconstructible, custom pairs agree, AgentDef pickling covers all fields, every message constructor call passes all fields.",
         "ast parser", "4/C15"),
 "C16": ("ast rules: exactly-once node creation, link role pairing, neighbour derivation, builder sibling agreement",
         "Structure of the three graph builders decided on all paths; isomorphism not decided.", "ast parser", "4/C16"),
 "C17": ("ast call-graph SCC analysis (R-RECURSION) + link-kind table agreement",
         "No input-proportional recursion in the pseudo-tree builder and link kinds agree between writer/whitelist/reader; DFS validity not decided.", "ast parser", "4/C17"),
 "C18": ("ast rules: priority-key writer/reader agreement, retry buffer FIFO, shutdown domination",
         "Queue tuple shape, counter increment, constants order, retry-on-registration order and clean-shutdown structure decided on all paths; thread interleavings not decided.",
         "ast parser", "4/C18"),
 "C19": ("ast R-FIFO typestate of the two hold-back buffers (tail insert, head removal, exactly-once re-injection, who-may-touch)",
         "Queue discipline of the hold-back buffers decided on every path of start/pause/on_message/post_msg and for every accessor in the package.",
         "ast parser; agent queue order is C18's subject", "4/C19"),
 "C20": ("ast rules: R-PROTO over discovery messages, kind agreement subscribe/unsubscribe, no mutation while iterating",
         "Discovery protocol tables agree and callback loops never mutate what they iterate; convergence under all orders not decided.", "ast parser", "4/C20"),
 "C21": ("ast call-graph reachability (thread confinement) from foreign-thread roots to confined operations",
         "No call path from a foreign thread root reaches a computation lifecycle/handler operation except through the queue hand-off.", "ast parser; call resolution by class tables", "4/C21"),
 "C22": ("ast rules: R-PROTO chain of end-of-computation, guarded stop, status literal, metric slots",
         "Structure of the termination-detection chain and result reporting decided on all paths; optimality and scheduling not decided.", "ast parser", "4/C22"),
 "C23": ("ast rules: sibling signature agreement, all-paths-return, possibly-undefined locals, who-may-raise",
         "Each distribute function returns a Distribution or raises an allowed exception on every path; validity of the mapping not decided.", "ast parser", "4/C23"),
 "C24": ("ast rules: twin-block agreement and objective registration in the ILP builders",
         "Every linearisation variable reaches the objective on every path and both orientations agree; solver optimality not decided.", "ast parser", "4/C24"),
 "C25": ("ast rules: guarded accept, memo soundness (R-CACHE), replication_done on all exits, message arity",
         "Structure of the replica acceptance test and completion reporting decided on all paths; UCS termination not decided.", "ast parser", "4/C25"),
 "C26": ("ast rules: candidate filtering by departed agents, fixed-neighbour host provenance",
         "Every candidate list in removal.py is filtered by the departed set on all paths; constraint scoring not decided.", "ast parser", "4/C26"),
 "C27": ("ast rules: guarded status literal, replica provenance of the deployed computation, state-literal table, R-PROTO repair chain",
         "Structural necessary conditions of the repair outcome report and activation; the repair DCOP's run-time solution is not decided.", "ast parser", "4/C27"),
 "C21": ("thread-confinement who-may-call analysis over a typed call graph (ast): foreign-thread roots must not reach computation callbacks except through the message queue",
         "Start/handlers/pause/stop/periodic actions are reachable only from Agent._run; every foreign entry point (orchestrator API and timers, commands, comm-layer receive paths) reaches them only by posting messages. Discovery callbacks fired during wiring and data races on shared objects are not decided.", "ast parser + call graph", "4/C21"),
 "C22": ("ast protocol-chain rules: must-pass-through on every path (finished -> end_of_computation -> all-finished guard -> stop -> all-agents-stopped), who-may-write the run status, field/slot agreement of the value-collection chain",
         "Every link of the termination and value-reporting chains is present on all paths with agreeing message types, fields and guards; status TIMEOUT/STOPPED written only by the timeout/interruption handlers; DPOP finish points. Optimality and schedule-independence are not decided.", "ast parser", "4/C22"),
 "C29": ("ast rules: positional alignment of names and value lists through the expansion, recursion on nested dicts, exactly-once key retention and option rendering",
         "Narrow: the structural clauses of the batch parameter expansion (alignment, nested recursion, every key kept and listified, one rendered option per chosen value); the cartesian product itself is delegated to itertools.product and not decided.",
         "ast parser", "4/C29"),
 "C28": ("ast rules: store-the-checked-value obligation, unknown-parameter raise, declaration/use agreement",
         "prepare_algo_params/check_param_value structure decided on all paths and every param_value use names a declared parameter.", "ast parser", "4/C28"),
 "C30": ("ast rules: R-API (set passed to random.sample), exactly-once constraint per edge",
         "Generators use only valid library calls and store one constraint per edge iteration; instance well-formedness not decided.", "ast parser", "4/C30"),
 "C31": ("ast rules: R-KWBIND keyword binding, lookup/fallback structure, sibling branches of create_agents",
         "Every explicit keyword in create_agents binds a declared AgentDef parameter; route/hosting_cost fallback structure decided on all paths.", "ast parser", "4/C31"),
}

NA = {
}


def main():
    props = [json.loads(l)["id"] for l in open(os.path.join(HERE, "properties.jsonl"))]
    built = {f[:-3].upper() for f in os.listdir(os.path.join(HERE, "pdv", "props")) if f.startswith("c") and f.endswith(".py")}
    checks, na = [], []
    for p in props:
        if p in built and p in T:
            tech, text, note, ref = T[p]
            checks.append({
                "property_id": p,
                "quick_cmd": f"/venv/bin/python check.py {p} --tier quick",
                "thorough_cmd": f"/venv/bin/python check.py {p} --tier thorough",
                "evidence_file": f"/verif/evidence/{p}.json",
                "replay_cmd_template": f"/venv/bin/python tools/show.py {{path}}",
                "engine": "pdv",
                "level_claimed": {"category": "other", "text": "Static analysis (all paths / all sites). " + text, "design_ref": "DESIGN.md section " + ref},
                "level_note": note + "; rules are necessary conditions of the property, not the behaviour itself",
                "technique": "static analysis: " + tech,
            })
        elif p in NA:
            na.append({"property_id": p, "reason": NA[p]})
        else:
            na.append({"property_id": p, "reason": "static check designed (DESIGN.md section 4) but not built in this revision; not claimed until its check runs clean"})
    man = {
        "version": 1,
        "setup_cmd": "/venv/bin/python -m pdv.selfcheck",
        "hooks": {"guard": "PYDCOP_VERIF", "enable": "none needed: static analysis reads the working tree; no hook in /repo",
                  "baseline_off_cmd": "/venv/bin/python tools/baseline.py", "source_commits": [], "add_only": True},
        "engines": [{"name": "pdv", "path": "/verif/pdv", "serves_properties": [c["property_id"] for c in checks],
                     "kind_free_text": "repository-specific static analyser on the stdlib ast: source model, class/MRO tables, guard/effect extraction, path-count analysis, provenance, call graph"}],
        "checks": checks,
        "not_applicable": na,
        "notes": "All checks are static: they parse /repo's working tree on every run and never import or execute pyDcop. exit 2 + ANALYSIS-ERROR means an anchor vanished.",
    }
    with open(os.path.join(HERE, "MANIFEST.json"), "w") as f:
        json.dump(man, f, indent=1)
    print(f"checks={len(checks)} not_applicable={len(na)}")


main()
