#!/venv/bin/python
"""Run every registered quick check against every seeded change under /verif/seeded/<id>/patch.diff.

The patch is applied to a scratch copy of /repo's committed tree (git archive of HEAD into $TMPDIR, removed
afterwards); /repo itself is never touched, so this can run while other work goes on.  Prints which checks catch
which change and writes /verif/seeded/RESULTS.json.  (The manual equivalent, as described in the brief:
`git -C /repo apply <patch>; <quick_cmd>; git -C /repo checkout -- .`.)

usage: run_seeded.py [seed ids...]   (default: all)"""
import json, os, shutil, subprocess, sys, tempfile
from concurrent.futures import ThreadPoolExecutor

V = "/verif"


def sh(cmd, cwd=None):
    p = subprocess.run(cmd, shell=True, cwd=cwd, stdout=subprocess.PIPE, stderr=subprocess.STDOUT, text=True)
    return p.returncode, p.stdout


def main():
    man = json.load(open(f"{V}/MANIFEST.json"))
    checks = [c["property_id"] for c in man["checks"]]
    seeds = [a for a in sys.argv[1:]] or sorted(d for d in os.listdir(f"{V}/seeded") if os.path.exists(f"{V}/seeded/{d}/patch.diff"))
    rp = f"{V}/seeded/RESULTS.json"
    results = json.load(open(rp)) if os.path.exists(rp) and sys.argv[1:] else {}
    base = tempfile.mkdtemp(prefix="seedbase_")
    rc, out = sh(f"git -C /repo archive HEAD pydcop | tar -x -C {base}")
    if rc:
        print(out)
        sys.exit(2)
    head = sh("git -C /repo rev-parse --short HEAD")[1].strip()

    def one(s):
        meta = json.load(open(f"{V}/seeded/{s}/meta.json")) if os.path.exists(f"{V}/seeded/{s}/meta.json") else {}
        prop = meta.get("property", s.split("_")[0])
        tmp = tempfile.mkdtemp(prefix=f"seed_{s}_")
        try:
            shutil.copytree(os.path.join(base, "pydcop"), os.path.join(tmp, "pydcop"))
            rc, out = sh(f"patch -p1 -s -i {V}/seeded/{s}/patch.diff", cwd=tmp)
            if rc:
                return s, {"property": prop, "error": "patch does not apply: " + out[-200:]}
            caught = {}
            for pid in checks:
                env = dict(os.environ, PDV_EVIDENCE_DIR=os.path.join(tmp, "evidence"))
                p = subprocess.run(["/venv/bin/python", "check.py", pid, "--tier", "quick", "--repo", tmp], cwd=V, env=env,
                                   stdout=subprocess.PIPE, stderr=subprocess.STDOUT, text=True)
                if p.returncode == 1:
                    caught[pid] = [l.strip() for l in p.stdout.splitlines() if l.startswith("  pydcop")][:3]
                elif p.returncode != 0:
                    caught[pid] = ["exit %d: " % p.returncode + (p.stdout.strip().splitlines() or [""])[-1][:200]]
            own = prop in caught and not caught[prop][0].startswith("exit 2")
            return s, {"property": prop, "own_check_built": prop in checks, "caught_by_own_check": own, "caught_by": caught,
                       "summary": meta.get("summary", "")[:200], "repo_head": head}
        finally:
            shutil.rmtree(tmp, ignore_errors=True)
    try:
        with ThreadPoolExecutor(max_workers=12) as ex:
            for s, r in ex.map(one, seeds):
                results[s] = r
                if "error" in r:
                    print(s, "PATCH DOES NOT APPLY")
                    continue
                print(f"{s}: own check {'CATCHES' if r['caught_by_own_check'] else 'misses'}; caught by {sorted(r['caught_by'])}")
                for pid, ls in r["caught_by"].items():
                    for l in ls[:1]:
                        print(f"      [{pid}] {l[:200]}")
    finally:
        shutil.rmtree(base, ignore_errors=True)
    json.dump(results, open(rp, "w"), indent=1, sort_keys=True)
    missed = sorted(s for s, r in results.items() if not r.get("caught_by_own_check"))
    print(f"{len(results)} seeds, own check misses: {missed}")


main()
