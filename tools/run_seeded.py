#!/venv/bin/python
"""Run the registered quick checks against every seeded change under
/verif/seeded/<id>/patch.diff: apply the patch to /repo, run, undo straight
afterwards.  Prints which checks catch which change and writes
/verif/seeded/RESULTS.json.

usage: run_seeded.py [seed ids...]   (default: all)"""
import json, os, subprocess, sys

V = "/verif"


def sh(cmd, cwd=None):
    p = subprocess.run(cmd, shell=True, cwd=cwd, stdout=subprocess.PIPE, stderr=subprocess.STDOUT, text=True)
    return p.returncode, p.stdout


def main():
    rc, out = sh("git -C /repo status --porcelain --untracked-files=no")
    if out.strip():
        print("/repo has uncommitted changes, refusing to run"); sys.exit(2)
    man = json.load(open(f"{V}/MANIFEST.json"))
    checks = {c["property_id"]: c["quick_cmd"] for c in man["checks"]}
    seeds = sys.argv[1:] or sorted(d for d in os.listdir(f"{V}/seeded") if os.path.exists(f"{V}/seeded/{d}/patch.diff"))
    results = {}
    rp = f"{V}/seeded/RESULTS.json"
    if os.path.exists(rp) and sys.argv[1:]:
        results = json.load(open(rp))
    for s in seeds:
        patch = f"{V}/seeded/{s}/patch.diff"
        meta = json.load(open(f"{V}/seeded/{s}/meta.json")) if os.path.exists(f"{V}/seeded/{s}/meta.json") else {}
        prop = meta.get("property", s.split("_")[0])
        rc, out = sh(f"git -C /repo apply {patch}")
        if rc:
            results[s] = {"property": prop, "error": "patch does not apply: " + out[-200:]}
            print(s, "PATCH DOES NOT APPLY")
            continue
        caught = {}
        try:
            for pid, cmd in checks.items():
                rc, out = sh(cmd, cwd=V)
                if rc == 1:
                    lines = [l.strip() for l in out.splitlines() if l.startswith("  pydcop")]
                    caught[pid] = lines[:3]
                elif rc != 0:
                    caught[pid] = ["exit %d: " % rc + out.strip().splitlines()[-1][:200]]
        finally:
            sh("git -C /repo checkout -- .")
        own = prop in caught
        results[s] = {"property": prop, "own_check_built": prop in checks, "caught_by_own_check": own, "caught_by": caught,
                      "summary": meta.get("summary", "")[:200]}
        print(f"{s}: own check {'CATCHES' if own else ('misses' if prop in checks else 'not built')}; caught by {sorted(caught)}")
        for pid, ls in caught.items():
            for l in ls[:1]:
                print(f"      [{pid}] {l[:200]}")
    json.dump(results, open(rp, "w"), indent=1)
    # restore evidence of the clean tree
    for pid, cmd in checks.items():
        sh(cmd, cwd=V)


main()
