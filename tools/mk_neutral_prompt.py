#!/venv/bin/python
"""Print the prompt given to an independent sub-agent that writes BEHAVIOUR-PRESERVING refactorings of the code a
property is anchored in (used to measure false alarms of the checks).  Only the property text and the conventions."""
import json, sys
pid, wt = sys.argv[1], sys.argv[2]
n = sys.argv[3] if len(sys.argv) > 3 else "3"
start = int(sys.argv[4]) if len(sys.argv) > 4 else 1
import os, glob
taken = []
for d in sorted(glob.glob(f'/verif/neutral/{pid}_n*')):
    mp = os.path.join(d, 'meta.json')
    if os.path.exists(mp) and start > 1:
        m = json.load(open(mp))
        taken.append(f"  - {m.get('file', '?')} / {m.get('function', '?')}: {m.get('summary', '')[:220]}")
taken_txt = ("\n\nOther people have ALREADY delivered the following refactorings for this property; yours must be DIFFERENT (other functions when possible, and other KINDS of refactoring - be inventive: e.g. introduce a small dataclass/namedtuple for a tuple, replace index arithmetic by zip/enumerate, convert a while loop to a for loop or the reverse, merge or split loops that are independent, replace a flag variable by for/else or early exit, move a nested function to module level, use dict.setdefault/defaultdict/collections helpers, any()/all()/sum()/next() instead of explicit loops, chained comparison, De Morgan rewrites, walrus operator, tuple unpacking vs indexing, try/except vs explicit test when equivalent, str.join vs concatenation, sorted(key=) variants, reorder independent branches of an if/elif chain, etc.):\n" + "\n".join(taken)) if taken else ""
prop = next(json.loads(l) for l in open('/verif/properties.jsonl') if json.loads(l)['id'] == pid)
print(f"""You are helping to evaluate a verification effort for the Python library pyDCOP (distributed constraint optimisation: algorithms such as DPOP/MGM/MaxSum on a threaded message-passing agent runtime).

You have your OWN scratch git worktree of the repository at {wt} (detached HEAD). Work ONLY inside {wt}. Never touch /repo or /verif and never read anything under /verif. Python to use: /venv/bin/python with PYTHONPATH={wt} (an editable install of another copy exists: always run `cd {wt} && PYTHONPATH={wt} /venv/bin/python ...` and verify once that `import pydcop; print(pydcop.__file__)` points into {wt}). The sandbox has no network.

Here is a semantic property that the library satisfies (JSON record: statement, quantifier, code anchors):

{json.dumps(prop, indent=1)}

YOUR TASK: produce {n} DIFFERENT, independent, BEHAVIOUR-PRESERVING source changes ("neutral refactorings") to the library code under {wt}/pydcop, located IN THE FUNCTIONS / MECHANISMS THE ANCHORS NAME (the code that implements this property). Each change must
  (a) keep the property TRUE and keep the observable behaviour of the touched functions exactly the same for every input, schedule and history (same results, same messages in the same order, same exceptions) - a genuine refactoring, not a bug fix and not a behaviour change,
  (b) still compile/import and keep every test that passes on the clean tree passing. On the clean tree the suite gives roughly "73 failed, 793 passed, 25 skipped" in ~70 s (the failures are pre-existing). Measure it:
        cd {wt} && unshare -rn sh -c 'ip link set lo up; PYTHONPATH={wt} /venv/bin/python -m pytest -q -p no:cacheprovider --timeout=900 --continue-on-collection-errors --junitxml=/tmp/wt/{pid}_run.xml' 2>&1 | tail -3
      once on the clean tree and once per change, compare the sets of passed test ids from the junit xml. pytest sometimes hangs at interpreter exit after the xml is fully written: if a run does not return within ~3 minutes after the xml stopped growing, kill it and use the xml. A few timing/TCP tests can flake: re-run a differing test alone before concluding.
  (c) be REALISTIC maintenance work of moderate size (roughly 5-40 changed lines), the kind a maintainer does while cleaning up: e.g. rename local variables / loop variables / private helper parameters; extract a sub-expression into a well-named local, or inline a local; extract a few statements into a private helper function/method (or inline a tiny helper); turn a loop into an equivalent comprehension or the reverse; replace an if/else by an early return (guard clause) or the reverse; reorder statements that are independent of each other; replace `len(x) == 0` / `x == []` by `not x` when x is provably a list; `d[k] if k in d else v` by `d.get(k, v)` when equivalent; `.format` by f-string; split a long condition into named booleans; add or remove log/debug lines, comments, docstrings, type hints; replace a chain of `elif` on constants by a dict dispatch when equivalent; use `enumerate`/`zip` instead of index arithmetic; hoist a loop-invariant computation out of a loop when that is provably safe; etc. Use a DIFFERENT kind of refactoring for each of the {n} changes, and touch different functions when possible. Do NOT just reformat whitespace.{taken_txt}
Be careful: things like changing set/dict iteration order, the order of sent messages, evaluation order with side effects, float summation order, default-argument semantics, or sharing a mutable object that was copied before are NOT behaviour-preserving - avoid them, or keep them exactly as they are.

For EACH change i (i in {start}..{start + int(n) - 1}) deliver, in the directory {wt}/_seed/{pid}_n<i>/ :
  - patch.diff : `git diff` of ONLY that change against the clean HEAD (apply with `git apply`), touching only files under pydcop/.
  - meta.json : {{"property": "{pid}", "kind": "neutral", "summary": "<one sentence: what was refactored and how>", "file": "<path>", "function": "<qualified function(s)>", "why_equivalent": "<short argument why behaviour is unchanged>"}}
  - optionally check.py : a small differential script (run as `cd <tree> && PYTHONPATH=<tree> /venv/bin/python _seed/{pid}_n<i>/check.py`) that exercises the touched function(s) on a few inputs and prints a digest of the results, so that the clean and the patched tree can be compared; it must print the same digest on both trees.
Procedure for each: start from a clean tree (`git -C {wt} checkout -- pydcop`), make the change, run the full test-suite and confirm that every test passing on the clean tree still passes, save patch.diff, revert (`git -C {wt} checkout -- pydcop`). Leave the worktree clean (only the untracked _seed/ directory remains).

Finish with a short report: for each change the summary, file/function, the kind of refactoring, and the observed suite result. If you are not sure a change is strictly behaviour-preserving, do not deliver it - deliver fewer changes rather than a doubtful one.""")
