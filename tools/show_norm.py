#!/venv/bin/python
"""show_norm.py <neutral|seeded id> <module> <qualname>: print a function of the patched tree after the normalising front end"""
import ast, os, shutil, subprocess, sys, tempfile
sys.path.insert(0, "/verif")
from pdv import normalise
sid, mod, q = sys.argv[1:4]
d = "/verif/neutral/" + sid if os.path.exists("/verif/neutral/" + sid) else "/verif/seeded/" + sid
tmp = tempfile.mkdtemp()
shutil.copytree("/tmp/clean/pydcop", tmp + "/pydcop")
subprocess.run(["patch", "-p1", "-s", "-i", d + "/patch.diff"], cwd=tmp, check=True)
p = tmp + "/" + mod.replace(".", "/") + ".py"
if not os.path.exists(p):
    p = tmp + "/" + mod.replace(".", "/") + "/__init__.py"
t = ast.parse(open(p).read())
normalise.normalise_module(t, mod)
for qq, fn in normalise.functions_of(t):
    if qq == q:
        body = [s for s in fn.body if not (isinstance(s, ast.Expr) and isinstance(s.value, ast.Constant))]
        fn.body = body
        print(ast.unparse(fn))
shutil.rmtree(tmp)
