#!/venv/bin/python
"""Run EVERY quick check against behaviour-preserving refactorings kept under /verif/neutral/<id>/patch.diff (written by
independent sub-agents that saw only the property text).  The patch is applied to a scratch copy of a clean worktree
(default /tmp/clean); /repo is never touched.  Any check that exits non-zero on such a tree has a false alarm (exit 1) or
lost sight of its subject (exit 2).  Writes /verif/neutral/RESULTS.json.
usage: try_neutral.py [ids...]   (default: all)"""
import json, os, shutil, subprocess, sys, tempfile
from concurrent.futures import ThreadPoolExecutor
V = "/verif"
CLEAN = os.environ.get("CLEAN_TREE", "/tmp/clean")
ids = [a for a in sys.argv[1:] if not a.startswith("--")] or sorted(d for d in os.listdir(f"{V}/neutral") if os.path.exists(f"{V}/neutral/{d}/patch.diff"))
man = json.load(open(f"{V}/MANIFEST.json"))
rp = f"{V}/neutral/RESULTS.json"
results = json.load(open(rp)) if os.path.exists(rp) else {}


def one(s):
    tmp = tempfile.mkdtemp(prefix="tryneutral_")
    try:
        shutil.copytree(os.path.join(CLEAN, "pydcop"), os.path.join(tmp, "pydcop"), ignore=shutil.ignore_patterns("__pycache__"))
        r = subprocess.run(["patch", "-p1", "-s", "-i", f"{V}/neutral/{s}/patch.diff"], cwd=tmp, stdout=subprocess.PIPE, stderr=subprocess.STDOUT, text=True)
        if r.returncode:
            return s, {"error": "patch failed: " + r.stdout[-200:]}
        flagged = {}
        for c in man["checks"]:
            pid = c["property_id"]
            p = subprocess.run(["/venv/bin/python", "check.py", pid, "--tier", "quick", "--repo", tmp], cwd=V, env=dict(os.environ, PDV_EVIDENCE_DIR=os.path.join(tmp, "evidence")),
                               stdout=subprocess.PIPE, stderr=subprocess.STDOUT, text=True)
            if p.returncode:
                flagged[pid] = {"rc": p.returncode, "lines": [l.strip()[:300] for l in p.stdout.splitlines() if l.startswith("  pydcop") or l.startswith("ANALYSIS")][:3]}
        return s, {"flagged": flagged}
    finally:
        shutil.rmtree(tmp, ignore_errors=True)


with ThreadPoolExecutor(max_workers=8) as ex:
    for s, r in ex.map(one, ids):
        results[s] = r
        if "error" in r:
            print(s, r["error"])
            continue
        print(f"{s}: {'silent' if not r['flagged'] else 'FLAGGED by ' + str(sorted(r['flagged']))}")
        for pid, d in r["flagged"].items():
            for l in d["lines"][:2]:
                print(f"     [{pid} rc={d['rc']}] {l[:260]}")
json.dump(results, open(rp, "w"), indent=1, sort_keys=True)
bad = sorted(s for s, r in results.items() if r.get("flagged"))
print(f"{len(results)} refactorings, flagged: {bad}")
