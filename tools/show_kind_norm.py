#!/venv/bin/python
"""show_kind_norm.py <neutral kind> <module> <qualname>: a function of /repo after the in-memory neutral transformation <kind> and the normalising front end"""
import ast, sys
sys.path.insert(0, "/verif")
from pdv import normalise
from pdv.neutral import transform
kind, mod, q = sys.argv[1:4]
p = "/repo/" + mod.replace(".", "/") + ".py"
src = open(p).read()
t = ast.parse(transform(src, kind))
if "--raw" not in sys.argv:
    normalise.normalise_module(t, mod)
for qq, fn in normalise.functions_of(t):
    if qq == q:
        fn.body = [s for s in fn.body if not (isinstance(s, ast.Expr) and isinstance(s.value, ast.Constant))]
        print(ast.unparse(fn))
