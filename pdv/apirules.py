"""R-API - the code only uses library entry points that exist in the pinned
environment.  Only *external* modules (stdlib, numpy, yaml, ...) are imported
by the checker to look names up; pyDcop itself is never imported."""
import ast
import importlib
import importlib.util
from typing import Dict, List, Optional, Set

from .model import walk_no_nested, norm, call_name, ModuleInfo, FuncInfo, Repo

_MODCACHE: Dict[str, object] = {}


def _ext(name: str):
    if name in _MODCACHE:
        return _MODCACHE[name]
    try:
        m = importlib.import_module(name)
    except Exception:
        m = None
    _MODCACHE[name] = m
    return m


def check_imports(ctx, m: ModuleInfo, rule: str) -> int:
    """every `from X import Y` / `import X` of a non-pydcop module resolves."""
    n = 0
    for node in ast.walk(m.tree):
        if isinstance(node, ast.ImportFrom) and node.module and node.level == 0 and not node.module.startswith("pydcop"):
            # imports guarded by try/except ImportError are optional
            ext = _ext(node.module)
            for a in node.names:
                if a.name == "*":
                    continue
                n += 1
                ok = ext is not None and (hasattr(ext, a.name) or importlib.util.find_spec(node.module + "." + a.name) is not None)
                ctx.check(ok, rule, f"{m.name}: from {node.module} import {a.name}", m, node,
                          f"'{a.name}' cannot be imported from '{node.module}' in this environment: the module fails at import time")
        elif isinstance(node, ast.Import):
            for a in node.names:
                if a.name.startswith("pydcop"):
                    continue
                n += 1
                ctx.check(_ext(a.name) is not None, rule, f"{m.name}: import {a.name}", m, node, f"module '{a.name}' cannot be imported")
    return n


def check_module_attrs(ctx, m: ModuleInfo, rule: str, funcs: List[FuncInfo] = None) -> int:
    """`alias.attr[.attr]` where alias is an imported external module: the
    attribute chain must exist."""
    ext_alias = {}
    for node in ast.walk(m.tree):
        if isinstance(node, ast.Import):
            for a in node.names:
                if not a.name.startswith("pydcop"):
                    ext_alias[a.asname or a.name.split(".")[0]] = a.name if a.asname else a.name.split(".")[0]
        elif isinstance(node, ast.ImportFrom) and node.module and not node.module.startswith("pydcop") and node.level == 0:
            for a in node.names:
                ext = _ext(node.module)
                if ext is not None and hasattr(ext, a.name):
                    import types
                    obj = getattr(ext, a.name)
                    if isinstance(obj, types.ModuleType):
                        ext_alias[a.asname or a.name] = obj.__name__
    n = 0
    seen = set()
    roots = [f.node for f in funcs] if funcs else [m.tree]
    for root in roots:
        for node in ast.walk(root):
            if isinstance(node, ast.Attribute):
                chain = []
                cur = node
                while isinstance(cur, ast.Attribute):
                    chain.append(cur.attr)
                    cur = cur.value
                if isinstance(cur, ast.Name) and cur.id in ext_alias:
                    # only the outermost attribute node of a chain
                    chain.reverse()
                    obj = _ext(ext_alias[cur.id])
                    txt = cur.id
                    ok = obj is not None
                    for a in chain:
                        txt += "." + a
                        if not ok:
                            break
                        if hasattr(obj, a):
                            obj = getattr(obj, a)
                        else:
                            sub = _ext(getattr(obj, "__name__", "") + "." + a) if hasattr(obj, "__path__") else None
                            if sub is not None:
                                obj = sub
                            else:
                                ok = False
                                break
                    key = (txt, node.lineno)
                    if key in seen:
                        continue
                    seen.add(key)
                    if _is_inner(node, root):
                        continue
                    n += 1
                    ctx.check(ok, rule, f"{m.name}: {txt}", m, node, f"'{txt}' does not exist in the installed library: AttributeError at run time")
    return n


def _is_inner(node, root) -> bool:
    """True if node is the .value of a larger Attribute chain (checked there)."""
    for p in ast.walk(root):
        if isinstance(p, ast.Attribute) and p.value is node:
            return True
    return False


NDARRAY_MAKERS = {"np.copy", "np.zeros", "np.array", "np.ones", "np.asarray", "np.full", "np.empty", "numpy.copy", "numpy.zeros", "numpy.array",
                  "np.add", "np.asanyarray", "deepcopy"}


def ndarray_names(f: FuncInfo, extra_fields=("_m",)) -> Set[str]:
    """local names bound to numpy arrays (kind inference)."""
    out = set()
    for n in walk_no_nested(f.node):
        if isinstance(n, ast.Assign) and len(n.targets) == 1 and isinstance(n.targets[0], ast.Name):
            v = n.value
            if isinstance(v, ast.Call) and norm(v.func) in NDARRAY_MAKERS:
                out.add(n.targets[0].id)
            elif isinstance(v, ast.Attribute) and v.attr in extra_fields:
                out.add(n.targets[0].id)
            elif isinstance(v, ast.Call) and isinstance(v.func, ast.Attribute) and v.func.attr in ("copy", "astype", "reshape") \
                    and isinstance(v.func.value, ast.Attribute) and v.func.value.attr in extra_fields:
                out.add(n.targets[0].id)
    return out


def check_ndarray_methods(ctx, f: FuncInfo, rule: str, extra_fields=("_m",)) -> int:
    np = _ext("numpy")
    if np is None:
        return 0
    names = ndarray_names(f, extra_fields)
    n = 0
    for c in walk_no_nested(f.node):
        if isinstance(c, ast.Attribute):
            recv = c.value
            is_arr = (isinstance(recv, ast.Name) and recv.id in names) or (isinstance(recv, ast.Attribute) and recv.attr in extra_fields) or \
                     (isinstance(recv, ast.Subscript) and isinstance(recv.value, ast.Attribute) and recv.value.attr in extra_fields)
            if is_arr:
                n += 1
                ctx.check(hasattr(np.ndarray, c.attr), rule, f"{f.qualname}: ndarray.{c.attr}", f, c,
                          f"numpy.ndarray has no attribute '{c.attr}' in the installed numpy {np.__version__}")
    return n


def set_valued_names(f: FuncInfo) -> Set[str]:
    out = set()
    for n in walk_no_nested(f.node):
        if isinstance(n, ast.Assign) and len(n.targets) == 1 and isinstance(n.targets[0], ast.Name):
            v = n.value
            if isinstance(v, (ast.Set, ast.SetComp)) or (isinstance(v, ast.Call) and call_name(v) in ("set", "frozenset")):
                out.add(n.targets[0].id)
            elif isinstance(v, ast.Name) and v.id in out:
                out.add(n.targets[0].id)
    # a later re-binding to a list clears it (keep conservative: only if every binding is a set)
    for n in walk_no_nested(f.node):
        if isinstance(n, ast.Assign) and len(n.targets) == 1 and isinstance(n.targets[0], ast.Name) and n.targets[0].id in out:
            v = n.value
            if not (isinstance(v, (ast.Set, ast.SetComp)) or (isinstance(v, ast.Call) and call_name(v) in ("set", "frozenset")) or (isinstance(v, ast.Name) and v.id in out)):
                out.discard(n.targets[0].id)
    return out


def check_sequence_apis(ctx, f: FuncInfo, rule: str) -> int:
    """random.sample / random.choice need a sequence: a set argument raises
    TypeError on Python >= 3.11."""
    sets = set_valued_names(f)
    n = 0
    for c in walk_no_nested(f.node):
        if isinstance(c, ast.Call) and norm(c.func) in ("random.sample", "random.choice", "sample", "choice", "random.shuffle", "shuffle") and c.args:
            a = c.args[0]
            n += 1
            is_set = (isinstance(a, ast.Name) and a.id in sets) or isinstance(a, (ast.Set, ast.SetComp)) or \
                     (isinstance(a, ast.Call) and call_name(a) in ("set", "frozenset"))
            ctx.check(not is_set, rule, f"{f.qualname}: {norm(c.func)}({norm(a)})", f, c,
                      f"{norm(c.func)} requires a sequence; '{norm(a)}' is a set (TypeError on Python >= 3.11, and the order would be hash dependent)")
    return n
