"""Thorough tier: run the property's rules against AST-level seeded variants
of the anchored code in a scratch copy (see pdv/mutants.py)."""
import importlib


def run(prop: str, seed: int) -> int:
    try:
        mut = importlib.import_module("pdv.mutants")
    except ImportError:
        print(f"[{prop}] self-test corpus not available")
        return 0
    return mut.selftest(prop, seed)
