"""Third stage of the normalising front end (added after the second refactoring campaign): more inverse edits for
behaviour-preserving refactorings that *merge* or *re-express* code.  As in stage 2 every step is semantics-preserving for
the analysis and is triggered only by constructs the frozen reference inventory does not know (locals, module constants,
helper classes that a refactoring introduced).

* tuple assignments   `a, b = x, y` that binds a local the reference does not know is split into `a = x; b = y`
                      (when y does not read a);
* merged tails        `if c: A else: B` in which both branches bind a new local, followed by statements that read it (the
                      refactoring merged two duplicated tails and parameterised them): the statements up to the last
                      reader are copied back into both branches, where stage 2 then substitutes the local;
* merged branches     `if a or b: BODY` where BODY holds conditional expressions on `a` (two duplicated branches merged by a
                      flag): `if a: BODY[a:=True] elif b: BODY[a:=False]`;
* next()              `return next((E for v in S if c), D)` is the search loop `for v in S: if c: return E` + `return D`;
* module constants    a module-level name bound once to a str / number / tuple of constants, which the reference module
                      does not have (or the reference function does not read), is replaced by its value;
* dict dispatch       `h = {K1: f1, ...}.get(k); if h is not None: h(args)` is the if / elif chain on k;
* dict merge          `x = dict(A) | A.copy(); x.update(B)` is `x = {**A, **B}`;
* tuple records       a NamedTuple / namedtuple class the reference module does not have is a plain tuple: constructor calls
                      become tuple displays and field reads become constant subscripts; a new local that is only read through
                      constant subscripts covering 0..n-1 is unpacked (`a, b, c = E`); a loop / assignment target tuple of new
                      locals where the reference indexes a single name is re-packed;
* unrolled loops      `for x in (e1, e2): BODY` over a short display, x a new local, is BODY[x:=e1]; BODY[x:=e2];
* joined lists        `L = []; for ..: L.append(E); s = SEP.join(L)` with SEP == '' is the accumulator `s = ''; for ..: s += E`;
                      `SEP.join([a, b, c])` is `a + SEP + b + SEP + c`.
"""
import ast
import copy
from typing import Dict, List, Optional

from .normalise import _unparse, _negate, _params, local_names, functions_of
from .normalise2 import _blocks, _Subst, _pure, _has, _strip_doc


def _new_locals(fnode, ref: dict):
    refl = set(ref.get("locals", [])) | set(ref.get("params", []))
    return {x for x in local_names(fnode) if x not in refl and x != "_"}


def _loads(node, names):
    return [n for n in ast.walk(node) if isinstance(n, ast.Name) and isinstance(n.ctx, ast.Load) and n.id in names]


def _stores(node, names):
    return [n for n in ast.walk(node) if isinstance(n, ast.Name) and isinstance(n.ctx, (ast.Store, ast.Del)) and n.id in names]


def _falls_through(stmts) -> bool:
    if not stmts:
        return True
    last = stmts[-1]
    if isinstance(last, (ast.Return, ast.Raise, ast.Continue, ast.Break)):
        return False
    if isinstance(last, ast.If) and last.orelse:
        return _falls_through(last.body) or _falls_through(last.orelse)
    return True


# --------------------------------------------------------------------------------------------------- tuple assignments
def split_new_tuple_assigns(fnode, ref: dict) -> int:
    new = _new_locals(fnode, ref)
    if not new:
        return 0
    n = 0
    for owner, fld, blk in _blocks(fnode):
        i = 0
        while i < len(blk):
            st = blk[i]
            if isinstance(st, ast.Assign) and len(st.targets) == 1 and isinstance(st.targets[0], ast.Tuple) and isinstance(st.value, ast.Tuple) \
                    and len(st.targets[0].elts) == len(st.value.elts) and all(isinstance(t, ast.Name) for t in st.targets[0].elts) \
                    and any(t.id in new for t in st.targets[0].elts) and not any(isinstance(v, ast.Starred) for v in st.value.elts):
                names = [t.id for t in st.targets[0].elts]
                ok = True
                for j, v in enumerate(st.value.elts):
                    if _loads(v, set(names[:j])):
                        ok = False
                if ok:
                    outs = []
                    for t, v in zip(st.targets[0].elts, st.value.elts):
                        outs.append(ast.copy_location(ast.Assign(targets=[t], value=v), st))
                    blk[i:i + 1] = outs
                    n += 1
                    i += len(outs)
                    continue
            i += 1
    if n:
        ast.fix_missing_locations(fnode)
    return n


# --------------------------------------------------------------------------------------------------- merged tails
def dup_tails(fnode, ref: dict) -> int:
    """undo 'consolidate duplicated conditional tails'"""
    new = _new_locals(fnode, ref)
    if not new:
        return 0
    n = 0
    for _round in range(4):
        changed = False
        for owner, fld, blk in _blocks(fnode):
            for i, st in enumerate(blk):
                if not (isinstance(st, ast.If) and st.orelse and i + 1 < len(blk)):
                    continue
                chain = _chain_branches(st)
                if chain is None:
                    continue
                # new locals bound (by plain assignment, at the top level) in every branch that falls through
                live = [b for b in chain if _falls_through(b)]
                if len(live) < 2:
                    continue
                bound = None
                for b in live:
                    names = {s.targets[0].id for s in b if isinstance(s, ast.Assign) and len(s.targets) == 1 and isinstance(s.targets[0], ast.Name) and s.targets[0].id in new}
                    bound = names if bound is None else bound & names
                if not bound:
                    continue
                tail = blk[i + 1:]
                last = max((k for k, s2 in enumerate(tail) if _loads(s2, bound)), default=-1)
                if last < 0 or last > 7:
                    continue
                piece = tail[:last + 1]
                # the locals must not be read after the piece (they would still be needed), nor rebound inside it
                if any(_loads(s2, bound) for s2 in tail[last + 1:]) or any(_stores(s2, bound) for s2 in piece):
                    continue
                if any(isinstance(x, (ast.FunctionDef, ast.ClassDef)) for s2 in piece for x in ast.walk(s2)):
                    continue
                for b in live:
                    b.extend(copy.deepcopy(piece))
                del blk[i + 1:i + 1 + len(piece)]
                n += 1
                changed = True
                break
            if changed:
                break
        if not changed:
            break
    if n:
        ast.fix_missing_locations(fnode)
    return n


def _chain_branches(st):
    """the branch bodies of an if / elif / else chain that ends with an else; None when there is no final else"""
    out = [st.body]
    cur = st
    while len(cur.orelse) == 1 and isinstance(cur.orelse[0], ast.If):
        cur = cur.orelse[0]
        out.append(cur.body)
    if not cur.orelse:
        return None
    out.append(cur.orelse)
    return out


# --------------------------------------------------------------------------------------------------- merged branches
class _FixIfExp(ast.NodeTransformer):
    def __init__(self, text, value):
        self.text, self.value, self.n = text, value, 0

    def visit_IfExp(self, node):
        self.generic_visit(node)
        t = _unparse(node.test)
        if t == self.text:
            self.n += 1
            return node.body if self.value else node.orelse
        if t == _unparse(_negate(ast.parse(self.text, mode="eval").body)):
            self.n += 1
            return node.orelse if self.value else node.body
        return node


def split_flagged_branches(fnode, ref: dict) -> int:
    """`if a or b: BODY` with conditional expressions on a inside BODY -> `if a: BODY[a] elif b: BODY[not a]`"""
    known = set(ref.get("ifs", [])) | set(ref.get("ifs_noelse", []))
    n = 0
    for owner, fld, blk in _blocks(fnode):
        for i, st in enumerate(blk):
            if not (isinstance(st, ast.If) and isinstance(st.test, ast.BoolOp) and isinstance(st.test.op, ast.Or) and len(st.test.values) == 2):
                continue
            if _unparse(st.test) in known:
                continue
            a, b = st.test.values
            if not _pure(a):
                continue
            at = _unparse(a)
            tests = [_unparse(x.test) for s2 in st.body for x in ast.walk(s2) if isinstance(x, ast.IfExp)]
            neg = _unparse(_negate(copy.deepcopy(a)))
            if not any(t in (at, neg) for t in tests):
                continue
            # a must keep its value through BODY: its free names are not rebound there
            free = {x.id for x in ast.walk(a) if isinstance(x, ast.Name)}
            if any(_stores(s2, free) for s2 in st.body):
                continue
            body_t = [_FixIfExp(at, True).visit(copy.deepcopy(s2)) for s2 in st.body]
            body_f = [_FixIfExp(at, False).visit(copy.deepcopy(s2)) for s2 in st.body]
            inner = ast.copy_location(ast.If(test=b, body=body_f, orelse=st.orelse), st)
            blk[i] = ast.copy_location(ast.If(test=a, body=body_t, orelse=[inner]), st)
            n += 1
    if n:
        ast.fix_missing_locations(fnode)
    return n


# --------------------------------------------------------------------------------------------------- next()
def expand_next(fnode, ref: dict) -> int:
    """`return next((E for v in S if c), D)` -> `for v in S: if c: return E` ; `return D`"""
    n = 0
    for owner, fld, blk in _blocks(fnode):
        i = 0
        while i < len(blk):
            st = blk[i]
            call = st.value if isinstance(st, ast.Return) else None
            if isinstance(call, ast.Call) and isinstance(call.func, ast.Name) and call.func.id == "next" and len(call.args) == 2 and not call.keywords \
                    and isinstance(call.args[0], ast.GeneratorExp) and len(call.args[0].generators) == 1 and not call.args[0].generators[0].is_async:
                g = call.args[0].generators[0]
                inner: List[ast.stmt] = [ast.Return(value=call.args[0].elt)]
                for c in reversed(g.ifs):
                    inner = [ast.If(test=c, body=inner, orelse=[])]
                loop = ast.For(target=g.target, iter=g.iter, body=inner, orelse=[])
                new = [ast.copy_location(loop, st), ast.copy_location(ast.Return(value=call.args[1]), st)]
                blk[i:i + 1] = new
                for x in new:
                    ast.fix_missing_locations(x)
                n += 1
                i += 2
                continue
            i += 1
    return n


# --------------------------------------------------------------------------------------------------- dict merge
def merge_dict_updates(tree) -> int:
    """`x = dict(A)` / `x = A.copy()` directly followed by `x.update(B)` -> `x = {**A, **B}` (unconditional)"""
    n = 0
    for node in ast.walk(tree):
        for fld in ("body", "orelse", "finalbody"):
            blk = getattr(node, fld, None)
            if not (isinstance(blk, list) and blk and isinstance(blk[0], ast.stmt)):
                continue
            i = 0
            while i + 1 < len(blk):
                a, b = blk[i], blk[i + 1]
                src = None
                if isinstance(a, ast.Assign) and len(a.targets) == 1 and isinstance(a.targets[0], ast.Name) and isinstance(a.value, ast.Call) and not a.value.keywords:
                    c = a.value
                    if isinstance(c.func, ast.Name) and c.func.id == "dict" and len(c.args) == 1 and not isinstance(c.args[0], ast.Starred):
                        src = c.args[0]
                    elif isinstance(c.func, ast.Attribute) and c.func.attr == "copy" and not c.args:
                        src = c.func.value
                elif isinstance(a, ast.Assign) and len(a.targets) == 1 and isinstance(a.targets[0], ast.Name) and isinstance(a.value, ast.Dict) and all(k is None for k in a.value.keys) and a.value.keys:
                    src = a.value
                if src is not None and isinstance(b, ast.Expr) and isinstance(b.value, ast.Call) and isinstance(b.value.func, ast.Attribute) and b.value.func.attr == "update" \
                        and isinstance(b.value.func.value, ast.Name) and b.value.func.value.id == a.targets[0].id and len(b.value.args) == 1 and not b.value.keywords \
                        and not _loads(b.value.args[0], {a.targets[0].id}):
                    if isinstance(src, ast.Dict):
                        keys, vals = list(src.keys) + [None], list(src.values) + [b.value.args[0]]
                    else:
                        keys, vals = [None, None], [src, b.value.args[0]]
                    a.value = ast.copy_location(ast.Dict(keys=keys, values=vals), a.value)
                    ast.fix_missing_locations(a)
                    del blk[i + 1]
                    n += 1
                    continue
                i += 1
    return n


# --------------------------------------------------------------------------------------------------- module constants
def _immutable_literal(v) -> bool:
    if isinstance(v, ast.Constant):
        return isinstance(v.value, (str, int, float, bool, bytes)) or v.value is None
    if isinstance(v, ast.UnaryOp) and isinstance(v.op, ast.USub) and isinstance(v.operand, ast.Constant) and isinstance(v.operand.value, (int, float)):
        return True
    if isinstance(v, ast.Tuple):
        return all(_immutable_literal(e) for e in v.elts)
    return False


def module_globals(tree) -> List[str]:
    out = set()
    for st in tree.body:
        for n in ast.walk(st) if not isinstance(st, (ast.FunctionDef, ast.AsyncFunctionDef, ast.ClassDef)) else [st]:
            if isinstance(n, (ast.FunctionDef, ast.AsyncFunctionDef, ast.ClassDef)):
                out.add(n.name)
            elif isinstance(n, ast.Name) and isinstance(n.ctx, ast.Store):
                out.add(n.id)
            elif isinstance(n, ast.alias):
                out.add((n.asname or n.name).split(".")[0])
    return sorted(out)


def module_constants(tree) -> Dict[str, ast.AST]:
    """NAME -> literal, for the module-level names bound exactly once (in the whole module) to an immutable literal"""
    cand = {}
    for st in tree.body:
        if isinstance(st, ast.Assign) and len(st.targets) == 1 and isinstance(st.targets[0], ast.Name) and _immutable_literal(st.value):
            cand.setdefault(st.targets[0].id, []).append(st.value)
        elif isinstance(st, ast.AnnAssign) and isinstance(st.target, ast.Name) and st.value is not None and _immutable_literal(st.value):
            cand.setdefault(st.target.id, []).append(st.value)
    out = {k: v[0] for k, v in cand.items() if len(v) == 1}
    if not out:
        return out
    stores = {}
    for n in ast.walk(tree):
        if isinstance(n, ast.Name) and isinstance(n.ctx, (ast.Store, ast.Del)) and n.id in out:
            stores[n.id] = stores.get(n.id, 0) + 1
        elif isinstance(n, (ast.Global, ast.Nonlocal)):
            for nm in n.names:
                stores[nm] = 99
        elif isinstance(n, (ast.arg,)) and n.arg in out:
            stores[n.arg] = 99   # shadowed somewhere: leave it alone
        elif isinstance(n, ast.alias) and (n.asname or n.name) in out:
            stores[n.asname or n.name] = 99
    return {k: v for k, v in out.items() if stores.get(k, 0) == 1}


def global_loads(fnode) -> List[str]:
    """names a function reads that it does not bind itself"""
    own = set(local_names(fnode)) | set(_params(fnode))
    return sorted({n.id for n in ast.walk(fnode) if isinstance(n, ast.Name) and isinstance(n.ctx, ast.Load) and n.id not in own})


def inline_module_constants(tree, ref_mod: dict) -> int:
    consts = module_constants(tree)
    if not consts:
        return 0
    refglob = set(ref_mod.get("<module>", {}).get("globals", []))
    if not refglob:
        return 0
    n = 0
    new = {k: v for k, v in consts.items() if k not in refglob}
    if new:
        sub = _Subst(new)
        for i, st in enumerate(tree.body):
            if isinstance(st, ast.Assign) and len(st.targets) == 1 and isinstance(st.targets[0], ast.Name) and st.targets[0].id in new:
                continue
            before = ast.dump(st)
            tree.body[i] = sub.visit(st)
            if ast.dump(tree.body[i]) != before:
                n += 1
    old = {k: v for k, v in consts.items() if k in refglob}
    if old:
        for q, fn in functions_of(tree):
            r = ref_mod.get(q)
            if not r or "gloads" not in r:
                continue
            extra = {k: v for k, v in old.items() if k not in r["gloads"] and any(isinstance(x, ast.Name) and x.id == k and isinstance(x.ctx, ast.Load) for x in ast.walk(fn))}
            extra = {k: v for k, v in extra.items() if k not in set(local_names(fn)) | set(_params(fn))}
            if extra:
                _Subst(extra).visit(fn)
                n += 1
    if n:
        ast.fix_missing_locations(tree)
    return n


# --------------------------------------------------------------------------------------------------- items() / unpacking
def all_names(fnode) -> List[str]:
    return sorted({n.id for n in ast.walk(fnode) if isinstance(n, ast.Name)} | {a.arg for a in ast.walk(fnode) if isinstance(a, ast.arg)})


def for_targets(fnode) -> List[List[str]]:
    return sorted([_unparse(l.iter), _unparse(l.target)] for l in ast.walk(fnode) if isinstance(l, (ast.For, ast.comprehension)))


def _mutates(stmts, text: str) -> bool:
    for s2 in stmts:
        for n in ast.walk(s2):
            if isinstance(n, (ast.Subscript, ast.Attribute, ast.Name)) and isinstance(getattr(n, "ctx", None), (ast.Store, ast.Del)):
                if _unparse(n) == text or (isinstance(n, ast.Subscript) and _unparse(n.value) == text):
                    return True
            if isinstance(n, ast.Call) and isinstance(n.func, ast.Attribute) and _unparse(n.func.value) == text and n.func.attr in ("pop", "update", "clear", "setdefault", "popitem", "append", "remove"):
                return True
    return False


def items_to_keys(fnode, ref: dict) -> int:
    """`for K, V in D.items()` with V a name the reference function does not have -> `for K in D` and V := D[K]"""
    known = set(ref.get("names", []))
    if not known:
        return 0
    n = 0
    ref_iters = {it for it, _tg in ref.get("fors", [])}

    def candidate(target, it):
        # only where the reference iterates the mapping itself (its keys) and never its items()
        if _unparse(it) in ref_iters or not (isinstance(it, ast.Call) and isinstance(it.func, ast.Attribute) and _unparse(it.func.value) in ref_iters):
            return None
        if not (isinstance(target, ast.Tuple) and len(target.elts) == 2 and isinstance(target.elts[1], ast.Name) and target.elts[1].id not in known):
            return None
        if not (isinstance(it, ast.Call) and isinstance(it.func, ast.Attribute) and it.func.attr == "items" and not it.args and not it.keywords):
            return None
        d = it.func.value
        if not isinstance(d, (ast.Name, ast.Attribute)):
            return None
        k = target.elts[0]
        if not (isinstance(k, ast.Name) or (isinstance(k, ast.Tuple) and all(isinstance(e, ast.Name) for e in k.elts))):
            return None
        return d, k, target.elts[1].id

    def key_expr(k):
        e = copy.deepcopy(k)
        for x in ast.walk(e):
            if hasattr(x, "ctx"):
                x.ctx = ast.Load()
        return e
    for node in ast.walk(fnode):
        if isinstance(node, ast.For):
            c = candidate(node.target, node.iter)
            if c is None:
                continue
            d, k, v = c
            knames = {x.id for x in ast.walk(k) if isinstance(x, ast.Name)}
            if _mutates(node.body, _unparse(d)) or _stores(ast.Module(body=node.body, type_ignores=[]), knames | {v}):
                continue
            sub = _Subst({v: ast.Subscript(value=copy.deepcopy(d), slice=key_expr(k), ctx=ast.Load())})
            node.body = [sub.visit(s2) for s2 in node.body]
            node.target, node.iter = k, d
            n += 1
        elif isinstance(node, (ast.ListComp, ast.SetComp, ast.DictComp, ast.GeneratorExp)):
            for gi, g in enumerate(node.generators):
                c = candidate(g.target, g.iter)
                if c is None:
                    continue
                d, k, v = c
                sub = _Subst({v: ast.Subscript(value=copy.deepcopy(d), slice=key_expr(k), ctx=ast.Load())})
                g.ifs = [sub.visit(x) for x in g.ifs]
                for g2 in node.generators[gi + 1:]:
                    g2.iter = sub.visit(g2.iter)
                    g2.ifs = [sub.visit(x) for x in g2.ifs]
                for fld in ("elt", "key", "value"):
                    if hasattr(node, fld):
                        setattr(node, fld, sub.visit(getattr(node, fld)))
                g.target, g.iter = k, d
                n += 1
    if n:
        ast.fix_missing_locations(fnode)
    return n


def unpack_to_index(fnode, ref: dict) -> int:
    """`a, b = p` (p a plain name, a / b names the reference does not have) -> a := p[0], b := p[1];
    `for a, b in S` where the reference loops `for m in S` -> `for m in S` with a := m[0], b := m[1]"""
    known = set(ref.get("names", []))
    if not known:
        return 0
    n = 0
    for owner, fld, blk in _blocks(fnode):
        i = 0
        while i < len(blk):
            st = blk[i]
            if isinstance(st, ast.Assign) and len(st.targets) == 1 and isinstance(st.targets[0], ast.Tuple) and isinstance(st.value, ast.Name) \
                    and all(isinstance(t, ast.Name) and t.id not in known for t in st.targets[0].elts) and len(st.targets[0].elts) >= 2:
                names = [t.id for t in st.targets[0].elts]
                rest = blk[i + 1:]
                total_stores = [x for x in ast.walk(fnode) if isinstance(x, ast.Name) and isinstance(x.ctx, ast.Store) and x.id in names]
                all_loads = _loads(fnode, set(names))
                rest_loads = [x for s2 in rest for x in _loads(s2, set(names))]
                if len(total_stores) == len(names) and len(all_loads) == len(rest_loads) and not any(_stores(s2, {st.value.id}) for s2 in rest):
                    m = {nm: ast.Subscript(value=ast.Name(id=st.value.id, ctx=ast.Load()), slice=ast.Constant(value=j), ctx=ast.Load()) for j, nm in enumerate(names)}
                    sub = _Subst(m)
                    for k in range(i + 1, len(blk)):
                        blk[k] = sub.visit(blk[k])
                    del blk[i]
                    if not blk:
                        blk.append(ast.copy_location(ast.Pass(), st))
                    n += 1
                    continue
            i += 1
    ref_for = {}
    for it, tg in ref.get("fors", []):
        ref_for.setdefault(it, []).append(tg)
    for l in [x for x in ast.walk(fnode) if isinstance(x, ast.For)]:
        if isinstance(l.target, ast.Tuple) and all(isinstance(t, ast.Name) and t.id not in known for t in l.target.elts):
            tg = ref_for.get(_unparse(l.iter), [])
            if len(tg) == 1 and tg[0].isidentifier() and not any(isinstance(x, ast.Name) and x.id == tg[0] for x in ast.walk(fnode)):
                names = [t.id for t in l.target.elts]
                if _stores(ast.Module(body=l.body + l.orelse, type_ignores=[]), set(names)):
                    continue
                m = {nm: ast.Subscript(value=ast.Name(id=tg[0], ctx=ast.Load()), slice=ast.Constant(value=j), ctx=ast.Load()) for j, nm in enumerate(names)}
                sub = _Subst(m)
                l.body = [sub.visit(s2) for s2 in l.body]
                l.target = ast.copy_location(ast.Name(id=tg[0], ctx=ast.Store()), l.target)
                n += 1
    if n:
        ast.fix_missing_locations(fnode)
    return n


# --------------------------------------------------------------------------------------------------- tuple records
def _record_classes(tree, refglob) -> Dict[str, List[str]]:
    out = {}
    for st in tree.body:
        if isinstance(st, ast.ClassDef) and st.name not in refglob and any(_unparse(b) in ("NamedTuple", "typing.NamedTuple") for b in st.bases):
            fields = [s.target.id for s in st.body if isinstance(s, ast.AnnAssign) and isinstance(s.target, ast.Name)]
            extra = [s for s in st.body if not isinstance(s, ast.AnnAssign) and not (isinstance(s, ast.Expr) and isinstance(s.value, ast.Constant))]
            if fields and not extra:
                out[st.name] = fields
        elif isinstance(st, ast.Assign) and len(st.targets) == 1 and isinstance(st.targets[0], ast.Name) and st.targets[0].id not in refglob and isinstance(st.value, ast.Call) \
                and _unparse(st.value.func) in ("namedtuple", "collections.namedtuple") and len(st.value.args) == 2 and not st.value.keywords:
            f = st.value.args[1]
            fields = None
            if isinstance(f, (ast.List, ast.Tuple)) and all(isinstance(e, ast.Constant) and isinstance(e.value, str) for e in f.elts):
                fields = [e.value for e in f.elts]
            elif isinstance(f, ast.Constant) and isinstance(f.value, str):
                fields = f.value.replace(",", " ").split()
            if fields:
                out[st.targets[0].id] = fields
    return out


def untuple_records(tree, ref_mod: dict) -> int:
    refglob = set(ref_mod.get("<module>", {}).get("globals", []))
    if not refglob:
        return 0
    recs = _record_classes(tree, refglob)
    if not recs:
        return 0
    n = 0

    class Ctor(ast.NodeTransformer):
        def visit_Call(self, node):
            nonlocal n
            self.generic_visit(node)
            if isinstance(node.func, ast.Name) and node.func.id in recs and not any(isinstance(a, ast.Starred) for a in node.args) and all(k.arg for k in node.keywords):
                fields = recs[node.func.id]
                vals = list(node.args)
                kw = {k.arg: k.value for k in node.keywords}
                for f in fields[len(vals):]:
                    if f not in kw:
                        return node
                    vals.append(kw[f])
                if len(vals) == len(fields):
                    n += 1
                    return ast.copy_location(ast.Tuple(elts=vals, ctx=ast.Load()), node)
            return node
    Ctor().visit(tree)
    all_fields = {}
    for cname, fields in recs.items():
        for j, f in enumerate(fields):
            all_fields.setdefault(f, set()).add((cname, j))
    for q, fn in functions_of(tree):
        loc = set(local_names(fn))
        taken0 = {y.id for y in ast.walk(fn) if isinstance(y, ast.Name)} | set(_params(fn))
        # regions: (name, binding statement or loop, the statements in which the binding is read)
        regions = []
        for owner, fld, blk in _blocks(fn):
            for i2, st in enumerate(blk):
                if isinstance(st, ast.Assign) and len(st.targets) == 1 and isinstance(st.targets[0], ast.Name) and st.targets[0].id in loc:
                    nm = st.targets[0].id
                    rest = []
                    stopped = False
                    for s2 in blk[i2 + 1:]:
                        if isinstance(s2, ast.Assign) and len(s2.targets) == 1 and isinstance(s2.targets[0], ast.Name) and s2.targets[0].id == nm:
                            stopped = True
                            break
                        rest.append(s2)
                    # the body of a `try` whose handlers all leave: what follows the try is reached only through the body
                    if not stopped and isinstance(owner, ast.Try) and fld == "body" and not owner.orelse and not owner.finalbody and owner.handlers \
                            and all(not _falls_through(h.body) for h in owner.handlers):
                        for o2, f2, b2 in _blocks(fn):
                            if owner in b2:
                                for s2 in b2[b2.index(owner) + 1:]:
                                    if isinstance(s2, ast.Assign) and len(s2.targets) == 1 and isinstance(s2.targets[0], ast.Name) and s2.targets[0].id == nm:
                                        break
                                    rest.append(s2)
                    regions.append((nm, st, rest))
                elif isinstance(st, ast.For) and isinstance(st.target, ast.Name) and st.target.id in loc:
                    regions.append((st.target.id, st, st.body))
        covered = {}
        for nm, st, rest in regions:
            for s2 in rest:
                for x in ast.walk(s2):
                    if isinstance(x, ast.Name) and x.id == nm:
                        covered[id(x)] = covered.get(id(x), 0) + 1
        for nm, st, rest in regions:
            attrs = [x for s2 in rest for x in ast.walk(s2) if isinstance(x, ast.Attribute) and isinstance(x.value, ast.Name) and x.value.id == nm]
            if not attrs or any(isinstance(a.ctx, (ast.Store, ast.Del)) for a in attrs):
                continue
            cands = None
            for a in attrs:
                cs = {c for c, _j in all_fields.get(a.attr, set())}
                cands = cs if cands is None else cands & cs
            if not cands:
                continue
            fields = recs[sorted(cands)[0]]
            names_in = [x for s2 in rest for x in ast.walk(s2) if isinstance(x, ast.Name) and x.id == nm]
            # every occurrence of the name in the region is a field read of this binding, and no other region sees them
            simple = all(covered.get(id(x), 0) == 1 for x in names_in) and all(isinstance(x.ctx, ast.Load) for x in names_in) and len(names_in) == len(attrs) \
                and not any(isinstance(x, ast.Name) and x.id == nm and isinstance(x.ctx, ast.Store) for s2 in rest for x in ast.walk(s2))
            used = {a.attr for a in attrs}
            fresh = [f if f in used else "_" for f in fields]
            if simple and not any(f in taken0 for f in fresh if f != "_"):
                tgt = ast.Tuple(elts=[ast.Name(id=f, ctx=ast.Store()) for f in fresh], ctx=ast.Store())
                if isinstance(st, ast.Assign):
                    st.targets = [ast.copy_location(tgt, st.targets[0])]
                else:
                    st.target = ast.copy_location(tgt, st.target)

                class Rd(ast.NodeTransformer):
                    def visit_Attribute(self, node):
                        self.generic_visit(node)
                        if isinstance(node.value, ast.Name) and node.value.id == nm and node.attr in fields:
                            return ast.copy_location(ast.Name(id=node.attr, ctx=ast.Load()), node)
                        return node
                for k2 in range(len(rest)):
                    rest[k2] = Rd().visit(rest[k2])
                # `rest` is a copy for assignments: write the statements back into their block
                # the statements of `rest` were transformed in place (NodeTransformer keeps statement identity)
            else:
                class Ix(ast.NodeTransformer):
                    def visit_Attribute(self, node):
                        self.generic_visit(node)
                        if isinstance(node.value, ast.Name) and node.value.id == nm and node.attr in fields:
                            return ast.copy_location(ast.Subscript(value=node.value, slice=ast.Constant(value=fields.index(node.attr)), ctx=ast.Load()), node)
                        return node
                for s2 in rest:
                    Ix().visit(s2)
            n += 1
    if n:
        ast.fix_missing_locations(tree)
    return n


# --------------------------------------------------------------------------------------------------- unrolled loops
def _bind_target(target, value) -> Optional[Dict[str, ast.AST]]:
    if isinstance(target, ast.Name):
        return {target.id: value}
    if isinstance(target, ast.Tuple) and isinstance(value, ast.Tuple) and len(target.elts) == len(value.elts) and not any(isinstance(e, ast.Starred) for e in target.elts + value.elts):
        out = {}
        for t, v in zip(target.elts, value.elts):
            m = _bind_target(t, v)
            if m is None:
                return None
            out.update(m)
        return out
    return None


def unroll_display_loops(fnode, ref: dict) -> int:
    """`for T in (e1, .., en): BODY` over a short literal display, T made of names the reference does not have -> BODY[T:=e1]; ..; BODY[T:=en]"""
    known = set(ref.get("names", []))
    if not known:
        return 0
    n = 0
    for owner, fld, blk in _blocks(fnode):
        i = 0
        while i < len(blk):
            st = blk[i]
            if isinstance(st, ast.For) and not st.orelse and isinstance(st.iter, (ast.Tuple, ast.List)) and 1 <= len(st.iter.elts) <= 6 and not any(isinstance(e, ast.Starred) for e in st.iter.elts):
                tn = {x.id for x in ast.walk(st.target) if isinstance(x, ast.Name)}
                body_mod = ast.Module(body=st.body, type_ignores=[])
                lvl = [x for s2 in st.body for x in ast.walk(s2) if isinstance(x, (ast.Break, ast.Continue))]
                inner_loops = [x for s2 in st.body for x in ast.walk(s2) if isinstance(x, (ast.For, ast.While))]
                own_lvl = [x for x in lvl if not any(any(y is x for y in ast.walk(l)) for l in inner_loops)]
                if len(st.iter.elts) == 1 and isinstance(st.target, ast.Name) and not own_lvl:
                    # `for x in [e]: BODY` binds x once: `x = e; BODY`
                    asg = ast.copy_location(ast.Assign(targets=[st.target], value=st.iter.elts[0]), st)
                    blk[i:i + 1] = [asg] + list(st.body)
                    ast.fix_missing_locations(asg)
                    n += 1
                    i += 1
                    continue
                if tn and not (tn & known) and not _stores(body_mod, tn) and not own_lvl and all(_pure(e) for e in st.iter.elts) and len(ast.dump(body_mod)) < 4000 \
                        and not any(_loads(s2, tn) for s2 in blk[i + 1:]):
                    maps = [_bind_target(st.target, e) for e in st.iter.elts]
                    if all(m is not None for m in maps):
                        out = []
                        for m in maps:
                            sub = _Subst(m)
                            out.extend(sub.visit(copy.deepcopy(s2)) for s2 in st.body)
                        blk[i:i + 1] = out
                        n += 1
                        i += len(out)
                        continue
            i += 1
    if n:
        ast.fix_missing_locations(fnode)
    return n


# --------------------------------------------------------------------------------------------------- next() as a search
def expand_next_search(fnode, ref: dict) -> int:
    """`X = next((E for v in S if c), None)` ; `if X is not None: BODY [else: E2]` with X a new local read nowhere else
    -> `for v in S: if c: BODY[X:=E]; break` [`else: E2`]"""
    new = _new_locals(fnode, ref)
    if not new:
        return 0
    n = 0
    for owner, fld, blk in _blocks(fnode):
        i = 0
        while i + 1 < len(blk):
            st, nx = blk[i], blk[i + 1]
            call = st.value if isinstance(st, ast.Assign) and len(st.targets) == 1 and isinstance(st.targets[0], ast.Name) and st.targets[0].id in new else None
            if isinstance(call, ast.Call) and isinstance(call.func, ast.Name) and call.func.id == "next" and len(call.args) == 2 and not call.keywords and _unparse(call.args[1]) == "None" \
                    and isinstance(call.args[0], ast.GeneratorExp) and len(call.args[0].generators) == 1 and not call.args[0].generators[0].is_async and isinstance(nx, ast.If):
                x = st.targets[0].id
                g = call.args[0].generators[0]
                elt = call.args[0].elt
                t = _unparse(nx.test)
                pos = t == f"{x} is not None"
                neg = t == f"{x} is None"
                vn = {y.id for y in ast.walk(g.target) if isinstance(y, ast.Name)}
                # the element cannot be None: the filter dereferences the loop variable, which is the element
                deref = isinstance(elt, ast.Name) and elt.id in vn and any(isinstance(y, ast.Attribute) and isinstance(y.value, ast.Name) and y.value.id == elt.id for c in g.ifs for y in ast.walk(c))
                stores = [y for y in ast.walk(fnode) if isinstance(y, ast.Name) and y.id == x and isinstance(y.ctx, ast.Store)]
                body, orelse = (nx.body, nx.orelse) if pos else (nx.orelse, nx.body)
                uses_else = _loads(ast.Module(body=orelse, type_ignores=[]), {x})
                uses_after = [y for s2 in blk[i + 2:] for y in _loads(s2, {x})]
                all_uses = _loads(fnode, {x})
                uses_body = _loads(ast.Module(body=body, type_ignores=[]), {x})
                names_clash = any(isinstance(y, ast.Name) and y.id in vn for s2 in body for y in ast.walk(s2))
                has_brk = any(isinstance(y, (ast.Break, ast.Continue)) for s2 in body for y in ast.walk(s2))
                if (pos or neg) and deref and len(stores) == 1 and not uses_else and not uses_after and len(all_uses) == len(uses_body) + 1 and body and not names_clash and not has_brk \
                        and _falls_through(body):
                    sub = _Subst({x: elt})
                    inner = [sub.visit(s2) for s2 in body] + [ast.Break()]
                    for c in reversed(g.ifs):
                        inner = [ast.If(test=c, body=inner, orelse=[])]
                    loop = ast.copy_location(ast.For(target=g.target, iter=g.iter, body=inner, orelse=list(orelse)), st)
                    ast.fix_missing_locations(loop)
                    blk[i:i + 2] = [loop]
                    n += 1
                    continue
            i += 1
    return n


# --------------------------------------------------------------------------------------------------- dict dispatch
def expand_dict_dispatch(fnode, ref: dict) -> int:
    """`h = {K1: f1, ..}.get(k)` ; `if h is not None: h(ARGS)` with h a new local -> `if k == K1: f1(ARGS) elif k == K2: f2(ARGS) ..`"""
    new = _new_locals(fnode, ref)
    if not new:
        return 0
    n = 0
    for owner, fld, blk in _blocks(fnode):
        i = 0
        while i + 1 < len(blk):
            st, nx = blk[i], blk[i + 1]
            ok = isinstance(st, ast.Assign) and len(st.targets) == 1 and isinstance(st.targets[0], ast.Name) and st.targets[0].id in new and isinstance(st.value, ast.Call) \
                and isinstance(st.value.func, ast.Attribute) and st.value.func.attr == "get" and isinstance(st.value.func.value, ast.Dict) and len(st.value.args) == 1 and not st.value.keywords
            if ok:
                h = st.targets[0].id
                d = st.value.func.value
                k = st.value.args[0]
                ok = all(isinstance(kk, ast.Constant) for kk in d.keys) and all(isinstance(v, (ast.Name, ast.Attribute)) for v in d.values) and _pure(k) and d.keys \
                    and isinstance(nx, ast.If) and _unparse(nx.test) == f"{h} is not None" and not nx.orelse and len(nx.body) == 1 \
                    and isinstance(nx.body[0], (ast.Expr, ast.Assign, ast.Return)) and isinstance(nx.body[0].value, ast.Call) and _unparse(nx.body[0].value.func) == h \
                    and len(_loads(fnode, {h})) == 2 and len(_stores(fnode, {h})) == 1
            if ok:
                chain = None
                for kk, v in reversed(list(zip(d.keys, d.values))):
                    s2 = copy.deepcopy(nx.body[0])
                    s2.value.func = copy.deepcopy(v)
                    test = ast.Compare(left=copy.deepcopy(k), ops=[ast.Eq()], comparators=[kk])
                    chain = ast.If(test=test, body=[s2], orelse=[chain] if chain is not None else [])
                ast.copy_location(chain, st)
                ast.fix_missing_locations(chain)
                blk[i:i + 2] = [chain]
                n += 1
                continue
            i += 1
    return n


# --------------------------------------------------------------------------------------------------- str.join
def expand_joins(fnode, ref: dict) -> int:
    """`SEP.join([a, b, c])` -> `a + SEP + b + SEP + c` ; `L = []` .. `L.append(E)` .. `s = ''.join(L)` with L a new local -> `s = ''` .. `s += E`"""
    new = _new_locals(fnode, ref)
    n = 0

    class J(ast.NodeTransformer):
        def visit_Call(self, node):
            nonlocal n
            self.generic_visit(node)
            if isinstance(node.func, ast.Attribute) and node.func.attr == "join" and isinstance(node.func.value, ast.Constant) and isinstance(node.func.value.value, str) \
                    and len(node.args) == 1 and not node.keywords and isinstance(node.args[0], (ast.List, ast.Tuple)) and node.args[0].elts \
                    and not any(isinstance(e, ast.Starred) for e in node.args[0].elts):
                sep = node.func.value
                out = node.args[0].elts[0]
                for e in node.args[0].elts[1:]:
                    if sep.value:
                        out = ast.BinOp(left=out, op=ast.Add(), right=copy.deepcopy(sep))
                    out = ast.BinOp(left=out, op=ast.Add(), right=e)
                n += 1
                return ast.copy_location(out, node)
            return node
    J().visit(fnode)
    # accumulator form
    for owner, fld, blk in _blocks(fnode):
        for i, st in enumerate(blk):
            if not (isinstance(st, ast.Assign) and len(st.targets) == 1 and isinstance(st.targets[0], ast.Name) and st.targets[0].id in new and isinstance(st.value, ast.List) and not st.value.elts):
                continue
            lname = st.targets[0].id
            joins = [(k, s2) for k, s2 in enumerate(blk[i + 1:], i + 1) if isinstance(s2, ast.Assign) and len(s2.targets) == 1 and isinstance(s2.targets[0], ast.Name)
                     and isinstance(s2.value, ast.Call) and isinstance(s2.value.func, ast.Attribute) and s2.value.func.attr == "join" and _unparse(s2.value.func.value) in ("''", '""')
                     and len(s2.value.args) == 1 and _unparse(s2.value.args[0]) == lname]
            if len(joins) != 1:
                continue
            k, js = joins[0]
            sname = js.targets[0].id
            loads = _loads(fnode, {lname})
            apps = [c for s2 in blk[i + 1:k] for c in ast.walk(s2) if isinstance(c, ast.Expr) and isinstance(c.value, ast.Call) and _unparse(c.value.func) == f"{lname}.append" and len(c.value.args) == 1]
            if len(loads) != len(apps) + 1 or len(_stores(fnode, {lname})) != 1 or any(_loads(s2, {sname}) or _stores(s2, {sname}) for s2 in blk[i:k]):
                continue
            for c in apps:
                # Expr(append) -> AugAssign, in place
                aug = ast.AugAssign(target=ast.Name(id=sname, ctx=ast.Store()), op=ast.Add(), value=c.value.args[0])
                for o2, f2, b2 in _blocks(fnode):
                    if c in b2:
                        b2[b2.index(c)] = ast.copy_location(aug, c)
            blk[i] = ast.copy_location(ast.Assign(targets=[ast.Name(id=sname, ctx=ast.Store())], value=ast.Constant(value="")), st)
            del blk[k]
            n += 1
            break
    if n:
        ast.fix_missing_locations(fnode)
    return n


# --------------------------------------------------------------------------------------------------- extend
def append_loops(tree) -> int:
    """`for v in X: L.append(v)` and `L.extend(X)` (L a plain name) are `L += X` (unconditional: the repository's form for accumulating lists)"""
    n = 0
    for node in ast.walk(tree):
        for fld in ("body", "orelse", "finalbody"):
            blk = getattr(node, fld, None)
            if not (isinstance(blk, list) and blk and isinstance(blk[0], ast.stmt)):
                continue
            for i, st in enumerate(blk):
                if isinstance(st, ast.For) and not st.orelse and isinstance(st.target, ast.Name) and len(st.body) == 1 and isinstance(st.body[0], ast.Expr) and isinstance(st.body[0].value, ast.Call):
                    c = st.body[0].value
                    if isinstance(c.func, ast.Attribute) and c.func.attr == "append" and isinstance(c.func.value, ast.Name) and len(c.args) == 1 and not c.keywords \
                            and isinstance(c.args[0], ast.Name) and c.args[0].id == st.target.id and c.func.value.id != st.target.id \
                            and not any(isinstance(x, ast.Name) and x.id == c.func.value.id for x in ast.walk(st.iter)):
                        blk[i] = ast.copy_location(ast.AugAssign(target=ast.Name(id=c.func.value.id, ctx=ast.Store()), op=ast.Add(), value=st.iter), st)
                        ast.fix_missing_locations(blk[i])
                        n += 1
                elif isinstance(st, ast.Expr) and isinstance(st.value, ast.Call) and isinstance(st.value.func, ast.Attribute) and st.value.func.attr == "extend" \
                        and isinstance(st.value.func.value, ast.Name) and len(st.value.args) == 1 and not st.value.keywords and not isinstance(st.value.args[0], ast.Starred):
                    blk[i] = ast.copy_location(ast.AugAssign(target=ast.Name(id=st.value.func.value.id, ctx=ast.Store()), op=ast.Add(), value=st.value.args[0]), st)
                    ast.fix_missing_locations(blk[i])
                    n += 1
    return n


# --------------------------------------------------------------------------------------------------- flattened chains
def factor_chain_conjunct(fnode, ref: dict) -> int:
    """`if X and A: .. elif X and B: .. elif X: ..` (every test of the chain starts with the same side-effect-free conjunct, no final else, tests
    the reference does not have) -> `if X: if A: .. elif B: .. else: ..`"""
    known = set(ref.get("ifs", [])) | set(ref.get("ifs_noelse", []))
    n = 0
    for owner, fld, blk in _blocks(fnode):
        for i, st in enumerate(blk):
            if not isinstance(st, ast.If) or _unparse(st.test) in known:
                continue
            links = [st]
            cur = st
            while len(cur.orelse) == 1 and isinstance(cur.orelse[0], ast.If):
                cur = cur.orelse[0]
                links.append(cur)
            if cur.orelse or len(links) < 2:
                continue

            def head(t):
                return t.values[0] if isinstance(t, ast.BoolOp) and isinstance(t.op, ast.And) else t
            x = head(links[0].test)
            xt = _unparse(x)
            if not _pure(x) or not all(_unparse(head(l.test)) == xt for l in links) or not isinstance(links[0].test, ast.BoolOp):
                continue

            def rest(t):
                if isinstance(t, ast.BoolOp) and isinstance(t.op, ast.And):
                    vs = t.values[1:]
                    return vs[0] if len(vs) == 1 else ast.BoolOp(op=ast.And(), values=vs)
                return None
            rests = [rest(l.test) for l in links]
            if any(r is None for r in rests[:-1]):
                continue
            # build the inner chain
            inner_else = links[-1].body if rests[-1] is None else [ast.If(test=rests[-1], body=links[-1].body, orelse=[])]
            chain = inner_else
            upto = links[:-1] if True else links
            for l, r in reversed(list(zip(links[:-1], rests[:-1]))):
                chain = [ast.If(test=r, body=l.body, orelse=chain)]
            new = ast.copy_location(ast.If(test=x, body=chain, orelse=[]), st)
            ast.fix_missing_locations(new)
            blk[i] = new
            n += 1
    return n


# --------------------------------------------------------------------------------------------------- generator helpers
def inline_generator_helpers(tree, ref_mod: dict) -> int:
    """a module-level generator function the reference does not have, called once as the argument of `S.join(..)` / `list(..)` / `tuple(..)` /
    `sorted(..)` in a simple statement: its body runs in the caller with `yield E` -> `<acc>.append(E)` and the call replaced by the accumulator
    (these consumers exhaust the generator before doing anything else, so the order of all effects is kept)"""
    from .normalise2 import _bind
    refglob = set(ref_mod.get("<module>", {}).get("globals", []))
    if not refglob:
        return 0
    n = 0
    gens = {}
    for st in tree.body:
        if isinstance(st, ast.FunctionDef) and st.name not in refglob and not st.decorator_list and not st.args.vararg and not st.args.kwarg and not st.args.kwonlyargs:
            ys = [x for x in ast.walk(st) if isinstance(x, (ast.Yield, ast.YieldFrom))]
            body = _strip_doc(st.body)
            stmt_yields = [s2 for s2 in ast.walk(st) if isinstance(s2, ast.Expr) and isinstance(s2.value, ast.Yield) and s2.value.value is not None]
            rets = [x for x in ast.walk(st) if isinstance(x, ast.Return)]
            if ys and len(ys) == len(stmt_yields) and not rets and not any(isinstance(x, (ast.FunctionDef, ast.Lambda, ast.ClassDef)) and x is not st for x in ast.walk(st)):
                gens[st.name] = st
    if not gens:
        return 0
    for name, g in gens.items():
        calls = [c for c in ast.walk(tree) if isinstance(c, ast.Call) and isinstance(c.func, ast.Name) and c.func.id == name]
        refs = [x for x in ast.walk(tree) if isinstance(x, ast.Name) and x.id == name]
        if len(calls) != 1 or len(refs) != 1:
            continue
        call = calls[0]
        done = False
        for q, fn in functions_of(tree):
            if fn is g or done:
                continue
            for owner, fld, blk in _blocks(fn):
                for i, st in enumerate(blk):
                    if not isinstance(st, (ast.Return, ast.Assign, ast.Expr)) or not any(x is call for x in ast.walk(st)):
                        continue
                    # the consumer: S.join(call) / list(call) / ...
                    cons = [c for c in ast.walk(st) if isinstance(c, ast.Call) and len(c.args) == 1 and c.args[0] is call and not c.keywords
                            and ((isinstance(c.func, ast.Attribute) and c.func.attr == "join") or (isinstance(c.func, ast.Name) and c.func.id in ("list", "tuple", "sorted", "set")))]
                    m = _bind(call, g, False)
                    if not cons or m is None:
                        continue
                    # nothing with an effect may be evaluated in the statement before the consumer call
                    first_call = next((c for c in ast.walk(st) if isinstance(c, ast.Call)), None)
                    if first_call is not cons[0]:
                        continue
                    glocals = set(local_names(g))
                    taken = {x.id for x in ast.walk(fn) if isinstance(x, ast.Name)} | set(_params(fn))
                    if glocals & taken:
                        continue
                    pre = []
                    sub = {}
                    for p_, a in m.items():
                        if isinstance(a, (ast.Name, ast.Constant)) or (isinstance(a, ast.Attribute) and isinstance(a.value, ast.Name)):
                            sub[p_] = a
                        else:
                            if p_ in taken:
                                sub = None
                                break
                            pre.append(ast.Assign(targets=[ast.Name(id=p_, ctx=ast.Store())], value=a))
                    if sub is None or _stores(g, set(sub)):
                        continue
                    acc = "_pdv_acc"
                    k = 0
                    while acc in taken | glocals:
                        k += 1
                        acc = f"_pdv_acc{k}"
                    body = copy.deepcopy(_strip_doc(g.body))

                    class Y(ast.NodeTransformer):
                        def visit_Expr(self, node):
                            if isinstance(node.value, ast.Yield):
                                return ast.copy_location(ast.Expr(value=ast.Call(func=ast.Attribute(value=ast.Name(id=acc, ctx=ast.Load()), attr="append", ctx=ast.Load()), args=[node.value.value], keywords=[])), node)
                            return node
                    body = [Y().visit(s2) for s2 in body]
                    if sub:
                        sb = _Subst(sub)
                        body = [sb.visit(s2) for s2 in body]
                    cons[0].args[0] = ast.Name(id=acc, ctx=ast.Load())
                    new = [ast.Assign(targets=[ast.Name(id=acc, ctx=ast.Store())], value=ast.List(elts=[], ctx=ast.Load()))] + pre + body
                    for s2 in new:
                        ast.copy_location(s2, st)
                        ast.fix_missing_locations(s2)
                    blk[i:i] = new
                    done = True
                    n += 1
                    break
                if done:
                    break
        if done:
            tree.body.remove(g)
    return n


# --------------------------------------------------------------------------------------------------- fused loops
def fuse_comp_loops(fnode, ref: dict) -> int:
    """`for y in [E for x in S if c]: BODY` (a comprehension the reference does not have, usually a hoisted filter) -> `for x in S: if c: y = E; BODY`:
    BODY does not touch what the comprehension reads, so interleaving the filter with the body keeps every effect and its order"""
    from .normalise import canon
    known = set(ref.get("scopes_all", [])) | set(ref.get("scopes", {}))
    n = 0
    for l in [x for x in ast.walk(fnode) if isinstance(x, ast.For)]:
        it = l.iter
        if not (isinstance(it, (ast.ListComp, ast.GeneratorExp)) and len(it.generators) == 1 and not it.generators[0].is_async) or canon(it) in known or l.orelse:
            continue
        g = it.generators[0]
        reads = {x.id for x in ast.walk(it) if isinstance(x, ast.Name) and isinstance(x.ctx, ast.Load)}
        gt = {x.id for x in ast.walk(g.target) if isinstance(x, ast.Name)}
        body_mod = ast.Module(body=l.body, type_ignores=[])
        if _stores(body_mod, (reads - gt) | gt) or any(_mutates(l.body, nm) for nm in reads - gt) or not _pure(it.elt) or not all(_pure(c) for c in g.ifs) or not _pure(g.iter):
            continue
        tn = {x.id for x in ast.walk(l.target) if isinstance(x, ast.Name)}
        if tn & gt or any(isinstance(x, ast.Name) and x.id in gt for s2 in l.body for x in ast.walk(s2)):
            continue
        inner = [ast.Assign(targets=[l.target], value=it.elt)] + list(l.body)
        for c in reversed(g.ifs):
            inner = [ast.If(test=c, body=inner, orelse=[])]
        l.target, l.iter, l.body = g.target, g.iter, inner
        n += 1
    if n:
        ast.fix_missing_locations(fnode)
    return n
