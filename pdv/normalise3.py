"""Third stage of the normalising front end (added after the second refactoring campaign): more inverse edits for
behaviour-preserving refactorings that *merge* or *re-express* code.  As in stage 2 every step is semantics-preserving for
the analysis and is triggered only by constructs the frozen reference inventory does not know (locals, module constants,
helper classes that a refactoring introduced).

* tuple assignments   `a, b = x, y` that binds a local the reference does not know is split into `a = x; b = y`
                      (when y does not read a);
* merged tails        `if c: A else: B` in which both branches bind a new local, followed by statements that read it (the
                      refactoring merged two duplicated tails and parameterised them): the statements up to the last
                      reader are copied back into both branches, where stage 2 then substitutes the local;
* merged branches     `if a or b: BODY` where BODY holds conditional expressions on `a` (two duplicated branches merged by a
                      flag): `if a: BODY[a:=True] elif b: BODY[a:=False]`;
* next()              `return next((E for v in S if c), D)` is the search loop `for v in S: if c: return E` + `return D`;
* module constants    a module-level name bound once to a str / number / tuple of constants, which the reference module
                      does not have (or the reference function does not read), is replaced by its value;
* dict dispatch       `h = {K1: f1, ...}.get(k); if h is not None: h(args)` is the if / elif chain on k;
* dict merge          `x = dict(A) | A.copy(); x.update(B)` is `x = {**A, **B}`;
* tuple records       a NamedTuple / namedtuple class the reference module does not have is a plain tuple: constructor calls
                      become tuple displays and field reads become constant subscripts; a new local that is only read through
                      constant subscripts covering 0..n-1 is unpacked (`a, b, c = E`); a loop / assignment target tuple of new
                      locals where the reference indexes a single name is re-packed;
* unrolled loops      `for x in (e1, e2): BODY` over a short display, x a new local, is BODY[x:=e1]; BODY[x:=e2];
* joined lists        `L = []; for ..: L.append(E); s = SEP.join(L)` with SEP == '' is the accumulator `s = ''; for ..: s += E`;
                      `SEP.join([a, b, c])` is `a + SEP + b + SEP + c`.
"""
import ast
import copy
from typing import Dict, List, Optional

from .normalise import _unparse, _negate, _params, local_names, functions_of
from .normalise2 import _blocks, _Subst, _pure, _has, _strip_doc


def _new_locals(fnode, ref: dict):
    refl = set(ref.get("locals", [])) | set(ref.get("params", []))
    return {x for x in local_names(fnode) if x not in refl and x != "_"}


def _loads(node, names):
    return [n for n in ast.walk(node) if isinstance(n, ast.Name) and isinstance(n.ctx, ast.Load) and n.id in names]


def _stores(node, names):
    return [n for n in ast.walk(node) if isinstance(n, ast.Name) and isinstance(n.ctx, (ast.Store, ast.Del)) and n.id in names]


def _falls_through(stmts) -> bool:
    if not stmts:
        return True
    last = stmts[-1]
    if isinstance(last, (ast.Return, ast.Raise, ast.Continue, ast.Break)):
        return False
    if isinstance(last, ast.If) and last.orelse:
        return _falls_through(last.body) or _falls_through(last.orelse)
    return True


# --------------------------------------------------------------------------------------------------- tuple assignments
def split_new_tuple_assigns(fnode, ref: dict) -> int:
    new = _new_locals(fnode, ref)
    if not new:
        return 0
    n = 0
    for owner, fld, blk in _blocks(fnode):
        i = 0
        while i < len(blk):
            st = blk[i]
            if isinstance(st, ast.Assign) and len(st.targets) == 1 and isinstance(st.targets[0], ast.Tuple) and isinstance(st.value, ast.Tuple) \
                    and len(st.targets[0].elts) == len(st.value.elts) and all(isinstance(t, ast.Name) for t in st.targets[0].elts) \
                    and any(t.id in new for t in st.targets[0].elts) and not any(isinstance(v, ast.Starred) for v in st.value.elts):
                names = [t.id for t in st.targets[0].elts]
                ok = True
                for j, v in enumerate(st.value.elts):
                    if _loads(v, set(names[:j])):
                        ok = False
                if ok:
                    outs = []
                    for t, v in zip(st.targets[0].elts, st.value.elts):
                        outs.append(ast.copy_location(ast.Assign(targets=[t], value=v), st))
                    blk[i:i + 1] = outs
                    n += 1
                    i += len(outs)
                    continue
            i += 1
    if n:
        ast.fix_missing_locations(fnode)
    return n


# --------------------------------------------------------------------------------------------------- merged tails
def dup_tails(fnode, ref: dict) -> int:
    """undo 'consolidate duplicated conditional tails'"""
    new = _new_locals(fnode, ref)
    if not new:
        return 0
    n = 0
    for _round in range(4):
        changed = False
        for owner, fld, blk in _blocks(fnode):
            for i, st in enumerate(blk):
                if not (isinstance(st, ast.If) and st.orelse and i + 1 < len(blk)):
                    continue
                chain = _chain_branches(st)
                if chain is None:
                    continue
                # new locals bound (by plain assignment, at the top level) in every branch that falls through
                live = [b for b in chain if _falls_through(b)]
                if len(live) < 2:
                    continue
                bound = None
                for b in live:
                    names = {s.targets[0].id for s in b if isinstance(s, ast.Assign) and len(s.targets) == 1 and isinstance(s.targets[0], ast.Name) and s.targets[0].id in new}
                    bound = names if bound is None else bound & names
                if not bound:
                    continue
                tail = blk[i + 1:]
                last = max((k for k, s2 in enumerate(tail) if _loads(s2, bound)), default=-1)
                if last < 0 or last > 7:
                    continue
                piece = tail[:last + 1]
                # the locals must not be read after the piece (they would still be needed), nor rebound inside it
                if any(_loads(s2, bound) for s2 in tail[last + 1:]) or any(_stores(s2, bound) for s2 in piece):
                    continue
                if any(isinstance(x, (ast.FunctionDef, ast.ClassDef)) for s2 in piece for x in ast.walk(s2)):
                    continue
                for b in live:
                    b.extend(copy.deepcopy(piece))
                del blk[i + 1:i + 1 + len(piece)]
                n += 1
                changed = True
                break
            if changed:
                break
        if not changed:
            break
    if n:
        ast.fix_missing_locations(fnode)
    return n


def _chain_branches(st):
    """the branch bodies of an if / elif / else chain that ends with an else; None when there is no final else"""
    out = [st.body]
    cur = st
    while len(cur.orelse) == 1 and isinstance(cur.orelse[0], ast.If):
        cur = cur.orelse[0]
        out.append(cur.body)
    if not cur.orelse:
        return None
    out.append(cur.orelse)
    return out


# --------------------------------------------------------------------------------------------------- merged branches
class _FixIfExp(ast.NodeTransformer):
    def __init__(self, text, value):
        self.text, self.value, self.n = text, value, 0

    def visit_IfExp(self, node):
        self.generic_visit(node)
        t = _unparse(node.test)
        if t == self.text:
            self.n += 1
            return node.body if self.value else node.orelse
        if t == _unparse(_negate(ast.parse(self.text, mode="eval").body)):
            self.n += 1
            return node.orelse if self.value else node.body
        return node


def split_flagged_branches(fnode, ref: dict) -> int:
    """`if a or b: BODY` with conditional expressions on a inside BODY -> `if a: BODY[a] elif b: BODY[not a]`"""
    known = set(ref.get("ifs", [])) | set(ref.get("ifs_noelse", []))
    n = 0
    for owner, fld, blk in _blocks(fnode):
        for i, st in enumerate(blk):
            if not (isinstance(st, ast.If) and isinstance(st.test, ast.BoolOp) and isinstance(st.test.op, ast.Or) and len(st.test.values) == 2):
                continue
            if _unparse(st.test) in known:
                continue
            a, b = st.test.values
            if not _pure(a):
                continue
            at = _unparse(a)
            tests = [_unparse(x.test) for s2 in st.body for x in ast.walk(s2) if isinstance(x, ast.IfExp)]
            neg = _unparse(_negate(copy.deepcopy(a)))
            if not any(t in (at, neg) for t in tests):
                continue
            # a must keep its value through BODY: its free names are not rebound there
            free = {x.id for x in ast.walk(a) if isinstance(x, ast.Name)}
            if any(_stores(s2, free) for s2 in st.body):
                continue
            body_t = [_FixIfExp(at, True).visit(copy.deepcopy(s2)) for s2 in st.body]
            body_f = [_FixIfExp(at, False).visit(copy.deepcopy(s2)) for s2 in st.body]
            inner = ast.copy_location(ast.If(test=b, body=body_f, orelse=st.orelse), st)
            blk[i] = ast.copy_location(ast.If(test=a, body=body_t, orelse=[inner]), st)
            n += 1
    if n:
        ast.fix_missing_locations(fnode)
    return n


# --------------------------------------------------------------------------------------------------- next()
def expand_next(fnode, ref: dict) -> int:
    """`return next((E for v in S if c), D)` -> `for v in S: if c: return E` ; `return D`"""
    n = 0
    for owner, fld, blk in _blocks(fnode):
        i = 0
        while i < len(blk):
            st = blk[i]
            call = st.value if isinstance(st, ast.Return) else None
            if isinstance(call, ast.Call) and isinstance(call.func, ast.Name) and call.func.id == "next" and len(call.args) == 2 and not call.keywords \
                    and isinstance(call.args[0], ast.GeneratorExp) and len(call.args[0].generators) == 1 and not call.args[0].generators[0].is_async:
                g = call.args[0].generators[0]
                inner: List[ast.stmt] = [ast.Return(value=call.args[0].elt)]
                for c in reversed(g.ifs):
                    inner = [ast.If(test=c, body=inner, orelse=[])]
                loop = ast.For(target=g.target, iter=g.iter, body=inner, orelse=[])
                new = [ast.copy_location(loop, st), ast.copy_location(ast.Return(value=call.args[1]), st)]
                blk[i:i + 1] = new
                for x in new:
                    ast.fix_missing_locations(x)
                n += 1
                i += 2
                continue
            i += 1
    return n


# --------------------------------------------------------------------------------------------------- dict merge
def merge_dict_updates(tree) -> int:
    """`x = dict(A)` / `x = A.copy()` directly followed by `x.update(B)` -> `x = {**A, **B}` (unconditional)"""
    n = 0
    for node in ast.walk(tree):
        for fld in ("body", "orelse", "finalbody"):
            blk = getattr(node, fld, None)
            if not (isinstance(blk, list) and blk and isinstance(blk[0], ast.stmt)):
                continue
            i = 0
            while i + 1 < len(blk):
                a, b = blk[i], blk[i + 1]
                src = None
                if isinstance(a, ast.Assign) and len(a.targets) == 1 and isinstance(a.targets[0], ast.Name) and isinstance(a.value, ast.Call) and not a.value.keywords:
                    c = a.value
                    if isinstance(c.func, ast.Name) and c.func.id == "dict" and len(c.args) == 1 and not isinstance(c.args[0], ast.Starred):
                        src = c.args[0]
                    elif isinstance(c.func, ast.Attribute) and c.func.attr == "copy" and not c.args:
                        src = c.func.value
                elif isinstance(a, ast.Assign) and len(a.targets) == 1 and isinstance(a.targets[0], ast.Name) and isinstance(a.value, ast.Dict) and all(k is None for k in a.value.keys) and a.value.keys:
                    src = a.value
                if src is not None and isinstance(b, ast.Expr) and isinstance(b.value, ast.Call) and isinstance(b.value.func, ast.Attribute) and b.value.func.attr == "update" \
                        and isinstance(b.value.func.value, ast.Name) and b.value.func.value.id == a.targets[0].id and len(b.value.args) == 1 and not b.value.keywords \
                        and not _loads(b.value.args[0], {a.targets[0].id}):
                    if isinstance(src, ast.Dict):
                        keys, vals = list(src.keys) + [None], list(src.values) + [b.value.args[0]]
                    else:
                        keys, vals = [None, None], [src, b.value.args[0]]
                    a.value = ast.copy_location(ast.Dict(keys=keys, values=vals), a.value)
                    ast.fix_missing_locations(a)
                    del blk[i + 1]
                    n += 1
                    continue
                i += 1
    return n
