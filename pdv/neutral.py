"""Behaviour-preserving source transformations used to measure false alarms (neutral-edit campaign,
thorough-tier self-test).  Each is an ast.NodeTransformer applied to a whole module."""
import ast


class Rename(ast.NodeTransformer):
    def visit_FunctionDef(self, node):
        # collect locals of this function (own scope only)
        params = {a.arg for a in node.args.posonlyargs + node.args.args + node.args.kwonlyargs}
        if node.args.vararg:
            params.add(node.args.vararg.arg)
        if node.args.kwarg:
            params.add(node.args.kwarg.arg)
        glob = set()
        assigned = set()
        nested_used = set()

        def scan(n, top=True):
            for ch in ast.iter_child_nodes(n):
                if isinstance(ch, (ast.FunctionDef, ast.AsyncFunctionDef, ast.Lambda, ast.ClassDef)):
                    if isinstance(ch, (ast.FunctionDef, ast.ClassDef)):
                        assigned.add(ch.name)
                        nested_used.add(ch.name)
                    for x in ast.walk(ch):
                        if isinstance(x, ast.Name):
                            nested_used.add(x.id)
                    continue
                if isinstance(ch, (ast.ListComp, ast.SetComp, ast.DictComp, ast.GeneratorExp)):
                    # comprehension scope: its names may refer to our locals -> treat as nested use
                    for x in ast.walk(ch):
                        if isinstance(x, ast.Name):
                            nested_used.add(x.id)
                    continue
                if isinstance(ch, (ast.Global, ast.Nonlocal)):
                    glob.update(ch.names)
                if isinstance(ch, ast.Name) and isinstance(ch.ctx, (ast.Store, ast.Del)):
                    assigned.add(ch.id)
                if isinstance(ch, ast.ExceptHandler) and ch.name:
                    nested_used.add(ch.name)
                if isinstance(ch, (ast.Import, ast.ImportFrom)):
                    for a in ch.names:
                        nested_used.add((a.asname or a.name).split(".")[0])
                scan(ch, False)
        scan(node)
        ren = {x: x + "__n" for x in assigned - params - glob - nested_used if not x.startswith("__") and x != "_"}

        class R(ast.NodeTransformer):
            def visit_FunctionDef(self, n):
                return n

            visit_AsyncFunctionDef = visit_FunctionDef
            visit_Lambda = visit_FunctionDef
            visit_ClassDef = visit_FunctionDef
            visit_ListComp = visit_FunctionDef
            visit_SetComp = visit_FunctionDef
            visit_DictComp = visit_FunctionDef
            visit_GeneratorExp = visit_FunctionDef

            def visit_Name(self, n):
                if n.id in ren:
                    n.id = ren[n.id]
                return n
        r = R()
        node.body = [r.visit(s) if not isinstance(s, (ast.FunctionDef, ast.AsyncFunctionDef, ast.ClassDef)) else s for s in node.body]
        # recurse into nested defs
        self.generic_visit(node)
        return node

    visit_AsyncFunctionDef = visit_FunctionDef


class FlipIf(ast.NodeTransformer):
    def visit_If(self, node):
        self.generic_visit(node)
        if node.orelse and not (len(node.orelse) == 1 and isinstance(node.orelse[0], ast.If)) and node.body:
            t = node.test
            if isinstance(t, ast.UnaryOp) and isinstance(t.op, ast.Not):
                nt = t.operand
            else:
                nt = ast.UnaryOp(op=ast.Not(), operand=t)
            node.test, node.body, node.orelse = nt, node.orelse, node.body
        return node


class SwapEq(ast.NodeTransformer):
    def visit_Compare(self, node):
        self.generic_visit(node)
        if len(node.ops) == 1 and isinstance(node.ops[0], (ast.Eq, ast.NotEq)):
            node.left, node.comparators = node.comparators[0], [node.left]
        return node


class RenameComp(ast.NodeTransformer):
    """rename the variables bound by comprehensions and the parameters of lambdas (x -> x_c)"""

    def _do(self, node):
        self.generic_visit(node)
        if isinstance(node, ast.Lambda):
            names = [a.arg for a in node.args.posonlyargs + node.args.args + node.args.kwonlyargs]
        else:
            names = []
            for g in node.generators:
                for t in ast.walk(g.target):
                    if isinstance(t, ast.Name) and t.id not in names:
                        names.append(t.id)
        mapping = {n: n + "_c" for n in names if n != "_"}
        if not mapping:
            return node
        first_iter = None if isinstance(node, ast.Lambda) else node.generators[0].iter

        def rec(n):
            if n is first_iter:
                return
            if isinstance(n, ast.Name) and n.id in mapping:
                n.id = mapping[n.id]
            elif isinstance(n, ast.arg) and n.arg in mapping:
                n.arg = mapping[n.arg]
            for ch in ast.iter_child_nodes(n):
                rec(ch)
        for ch in ast.iter_child_nodes(node):
            rec(ch)
        return node

    visit_ListComp = visit_SetComp = visit_DictComp = visit_GeneratorExp = visit_Lambda = _do


class DeMorgan(ast.NodeTransformer):
    """`not (a and b)` <-> `not a or not b` is rare in the repo; instead: `x is not None` -> `not x is None`,
    `a not in b` -> `not a in b`, `a != b` -> `not a == b`"""

    def visit_Compare(self, node):
        self.generic_visit(node)
        if len(node.ops) == 1:
            inv = {ast.IsNot: ast.Is, ast.NotIn: ast.In, ast.NotEq: ast.Eq}
            for k, v in inv.items():
                if isinstance(node.ops[0], k):
                    return ast.UnaryOp(op=ast.Not(), operand=ast.Compare(left=node.left, ops=[v()], comparators=node.comparators))
        return node


class GuardClause(ast.NodeTransformer):
    """`if c: <body ending with return/raise/continue> else: B` -> `if c: <body>` followed by B"""

    def _block(self, stmts):
        out = []
        for st in stmts:
            st = self.visit(st)
            if isinstance(st, ast.If) and st.orelse and not (len(st.orelse) == 1 and isinstance(st.orelse[0], ast.If)) and st.body and isinstance(st.body[-1], (ast.Return, ast.Raise, ast.Continue, ast.Break)):
                rest = st.orelse
                st.orelse = []
                out.append(st)
                out.extend(rest)
            else:
                out.append(st)
        return out

    def generic_visit(self, node):
        for fld in ("body", "orelse", "finalbody"):
            v = getattr(node, fld, None)
            if isinstance(v, list) and v and isinstance(v[0], ast.stmt):
                setattr(node, fld, self._block(v))
        for h in getattr(node, "handlers", []) or []:
            h.body = self._block(h.body)
        return node


class AugToAssign(ast.NodeTransformer):
    """`x += e` -> `x = x + e` for plain names and self attributes (numbers / immutable use only: += on a list
    mutates in place, so targets whose name suggests a container are left alone)"""

    def visit_AugAssign(self, node):
        t = node.target
        if isinstance(node.op, (ast.Add, ast.Sub)) and (isinstance(t, ast.Name) or (isinstance(t, ast.Attribute) and isinstance(t.value, ast.Name))):
            txt = ast.unparse(t)
            if isinstance(node.value, (ast.List, ast.ListComp, ast.Call)) and not (isinstance(node.value, ast.Call) and ast.unparse(node.value.func) in ("len", "sum", "int", "float", "abs", "min", "max")):
                return node
            if any(k in txt for k in ("list", "orphan", "msgs", "str", "content", "candidates", "values", "names", "dcop", "args", "nodes", "agents", "hosted", "options", "desc", "parts", "s", "res")) and not txt.endswith(("cost", "count", "_cycle", "counter")):
                return node
            import copy
            load = copy.deepcopy(t)
            for n in ast.walk(load):
                if hasattr(n, "ctx"):
                    n.ctx = ast.Load()
            return ast.copy_location(ast.Assign(targets=[t], value=ast.BinOp(left=load, op=node.op, right=node.value)), node)
        return node


class Literals(ast.NodeTransformer):
    """`[]` -> `list()`, `{}` -> `dict()` (empty displays only, not in default arguments)"""

    def visit_List(self, node):
        self.generic_visit(node)
        if not node.elts and isinstance(node.ctx, ast.Load):
            return ast.copy_location(ast.Call(func=ast.Name(id="list", ctx=ast.Load()), args=[], keywords=[]), node)
        return node

    def visit_Dict(self, node):
        self.generic_visit(node)
        if not node.keys:
            return ast.copy_location(ast.Call(func=ast.Name(id="dict", ctx=ast.Load()), args=[], keywords=[]), node)
        return node


class DropLog(ast.NodeTransformer):
    """remove logging statements (`self.logger.x(..)`, `logger.x(..)`, `if ...isEnabledFor(..): <logging only>`, print)"""

    @staticmethod
    def _is_log(st):
        if isinstance(st, ast.Expr) and isinstance(st.value, ast.Call):
            f = ast.unparse(st.value.func)
            return ".logger." in f or f.startswith("logger.") or f.startswith("self.logger.") or f == "print"
        return False

    def _block(self, stmts):
        out = []
        for st in stmts:
            st = self.visit(st)
            if st is None:
                continue
            if self._is_log(st):
                continue
            if isinstance(st, ast.If) and "isEnabledFor" in ast.unparse(st.test) and not st.orelse and all(isinstance(x, ast.Pass) for x in st.body):
                continue
            out.append(st)
        return out or [ast.Pass()]

    def generic_visit(self, node):
        for fld in ("body", "orelse", "finalbody"):
            v = getattr(node, fld, None)
            if isinstance(v, list) and v and isinstance(v[0], ast.stmt):
                nb = self._block(v)
                if fld != "body" and all(isinstance(x, ast.Pass) for x in nb):
                    nb = []
                setattr(node, fld, nb)
        for h in getattr(node, "handlers", []) or []:
            h.body = self._block(h.body)
        return node


KINDS = {"reformat": None, "droplog": DropLog, "literals": Literals, "augassign": AugToAssign, "rename": Rename, "flipif": FlipIf, "swapeq": SwapEq, "renamecomp": RenameComp, "notform": DeMorgan, "guardclause": GuardClause}




def transform(src: str, kind: str) -> str:
    tree = ast.parse(src)
    cls = KINDS[kind]
    if cls is not None:
        tree = cls().visit(tree)
        ast.fix_missing_locations(tree)
    return ast.unparse(tree) + "\n"
