"""Tests whose outcome was fixed by a store a few statements earlier (a contradiction rule in Engler's sense: the code
tests a belief it has just made true, so either the test or the position of the store is wrong).

In one statement list: `D[K] = v` (or `D.update({K: v})`, `D.add(K)`) at position i, and at a later position j an
`if` whose test contains the conjunct `K in D` / `K not in D`, with no statement in between that removes from D,
rebinds D, or rebinds a name occurring in K.  `K not in D` is then always False (its branch is dead) and `K in D`
always True.
"""
import ast

from .model import norm
from .facts import conjuncts


def _names(e):
    return {n.id for n in ast.walk(e) if isinstance(n, ast.Name)}


def _stores(st):
    """(container text, key node) for unconditional stores made by the simple statement st"""
    out = []
    if isinstance(st, ast.Assign):
        for t in st.targets:
            if isinstance(t, ast.Subscript):
                out.append((norm(t.value), t.slice))
    elif isinstance(st, ast.Expr) and isinstance(st.value, ast.Call) and isinstance(st.value.func, ast.Attribute):
        c = st.value
        if c.func.attr == "add" and len(c.args) == 1:
            out.append((norm(c.func.value), c.args[0]))
        elif c.func.attr == "update" and len(c.args) == 1 and isinstance(c.args[0], ast.Dict):
            for k in c.args[0].keys:
                if k is not None:
                    out.append((norm(c.func.value), k))
    return out


def _kills(st, cont, key):
    kn = _names(key) | {cont.split("[")[0].split(".")[0]}
    for x in ast.walk(st):
        if isinstance(x, ast.Call) and isinstance(x.func, ast.Attribute) and x.func.attr in ("pop", "remove", "discard", "clear", "popitem") and norm(x.func.value) == cont:
            return True
        if isinstance(x, ast.Delete) and any(isinstance(t, ast.Subscript) and norm(t.value) == cont for t in x.targets):
            return True
        if isinstance(x, ast.Name) and isinstance(x.ctx, ast.Store) and x.id in kn:
            return True
        if isinstance(x, ast.Attribute) and isinstance(x.ctx, ast.Store) and norm(x) == cont:
            return True
    return False


def constant_membership_tests(func_node):
    res = []
    for blk_owner in ast.walk(func_node):
        for fld in ("body", "orelse", "finalbody"):
            blk = getattr(blk_owner, fld, None)
            if not isinstance(blk, list) or not blk or not isinstance(blk[0], ast.stmt):
                continue
            for i, st in enumerate(blk):
                for cont, key in _stores(st):
                    kt = norm(key)
                    for j in range(i + 1, len(blk)):
                        s2 = blk[j]
                        if isinstance(s2, ast.If):
                            for c, pol in conjuncts(s2.test):
                                if isinstance(c, ast.Compare) and len(c.ops) == 1 and isinstance(c.ops[0], (ast.In, ast.NotIn)) and norm(c.left) == kt and norm(c.comparators[0]) == cont:
                                    res.append((st, s2, kt, cont, isinstance(c.ops[0], ast.NotIn) == pol))
                        if _kills(s2, cont, key):
                            break
    return res
