"""Element-shape agreement between the writers and the readers of a container field.

For a class and a field `self.F` that holds a set of k-tuples (every element ever put in it is a tuple display of the
same length: `.add((a, b))`, set displays / comprehensions with tuple elements assigned to the field or to a local
later assigned to it) or a dict keyed by k-tuples (`self.F[(a, b)] = v`), every membership test, pop, discard,
remove or subscript with a *component-typed* operand is ill-shaped: it can never match (membership always False,
KeyError on subscript).  An operand is component-typed when it is a name that the same function also uses as one
component of such a tuple, or compares with a name obtained by destructuring the field's elements.
"""
import ast

from .model import walk_no_nested, norm, is_self_attr


def _field_of(e):
    if isinstance(e, ast.Attribute) and isinstance(e.value, ast.Name) and e.value.id == "self":
        return e.attr
    return None


def element_shapes(cls):
    """field -> set of tuple lengths (0 = a non-tuple element seen) from the writers of the class"""
    shapes = {}

    def note(field, elt):
        shapes.setdefault(field, set()).add(len(elt.elts) if isinstance(elt, ast.Tuple) else 0)
    for f in cls.methods.values():
        local_sets = {}
        for x in ast.walk(f.node):
            if isinstance(x, ast.Assign) and len(x.targets) == 1:
                t, v = x.targets[0], x.value
                elt = None
                if isinstance(v, ast.SetComp):
                    elt = v.elt
                elif isinstance(v, ast.Set) and v.elts:
                    elt = v.elts[0]
                if elt is not None:
                    if _field_of(t):
                        note(_field_of(t), elt)
                    elif isinstance(t, ast.Name):
                        local_sets[t.id] = elt
                elif isinstance(v, ast.Name) and v.id in local_sets and _field_of(t):
                    note(_field_of(t), local_sets[v.id])
                if isinstance(t, ast.Subscript) and _field_of(t.value):
                    note(_field_of(t.value), t.slice)
            elif isinstance(x, ast.Call) and isinstance(x.func, ast.Attribute) and x.func.attr == "add" and _field_of(x.func.value) and x.args:
                note(_field_of(x.func.value), x.args[0])
    return {k: v for k, v in shapes.items() if len(v) == 1 and 0 not in v}


def ill_shaped_uses(cls):
    """yield (func, node, field, operand name, k) for component-typed operands used as whole elements / keys"""
    shapes = element_shapes(cls)
    out = []
    for f in cls.methods.values():
        # names destructured from the field's elements, and names used as components
        comp_names = set()
        destructured = set()
        for x in ast.walk(f.node):
            it, tgt = None, None
            if isinstance(x, ast.comprehension) or isinstance(x, ast.For):
                it, tgt = x.iter, x.target
            if it is not None and _field_of(it) in shapes and isinstance(tgt, ast.Tuple):
                destructured |= {n.id for n in tgt.elts if isinstance(n, ast.Name)}
        for x in ast.walk(f.node):
            if isinstance(x, ast.Compare) and len(x.ops) == 1 and isinstance(x.ops[0], (ast.Eq, ast.NotEq)):
                a, b = x.left, x.comparators[0]
                for p, q in ((a, b), (b, a)):
                    if isinstance(p, ast.Name) and p.id in destructured and isinstance(q, ast.Name):
                        comp_names.add(q.id)
            if isinstance(x, ast.Call) and isinstance(x.func, ast.Attribute) and x.func.attr == "add" and _field_of(x.func.value) in shapes and x.args and isinstance(x.args[0], ast.Tuple):
                comp_names |= {n.id for n in x.args[0].elts if isinstance(n, ast.Name)}
        comp_names -= destructured
        for x in ast.walk(f.node):
            field, operand = None, None
            if isinstance(x, ast.Compare) and len(x.ops) == 1 and isinstance(x.ops[0], (ast.In, ast.NotIn)) and _field_of(x.comparators[0]) in shapes:
                field, operand = _field_of(x.comparators[0]), x.left
            elif isinstance(x, ast.Call) and isinstance(x.func, ast.Attribute) and x.func.attr in ("remove", "discard", "pop") and _field_of(x.func.value) in shapes and x.args:
                field, operand = _field_of(x.func.value), x.args[0]
            elif isinstance(x, ast.Subscript) and _field_of(x.value) in shapes and isinstance(x.ctx, ast.Load):
                field, operand = _field_of(x.value), x.slice
            if field is None:
                continue
            if isinstance(operand, ast.Name) and operand.id in comp_names:
                out.append((f, x, field, operand.id, next(iter(shapes[field])), True))
            else:
                out.append((f, x, field, norm(operand), next(iter(shapes[field])), False))
    return shapes, out


def check_shapes(ctx, rule, cls, min_fields=1):
    shapes, uses = ill_shaped_uses(cls)
    if len(shapes) < min_fields:
        ctx.defer(f"{rule}: {len(shapes)} tuple-shaped container fields recognised in {cls.name} (expected >= {min_fields})")
    for f, node, field, name, k, bad in uses:
        ctx.check(not bad, rule, f"{cls.name}.{f.name}: `{norm(node)[:60]}` on self.{field} ({k}-tuples)", f, node,
                  f"`{name}` is one component of the {k}-tuples held by self.{field} (it is compared with / packed as a component in this function): used as a whole element "
                  "the test is always false / the lookup always fails")
    return shapes
