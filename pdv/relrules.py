"""Rules on the relation helpers of pydcop/dcop/relations.py shared by C01, C06, C12."""
import ast
from typing import List, Optional

from .model import walk_no_nested, norm, call_name, FuncInfo, is_self_attr
from .facts import FuncFacts, facts_at, count_paths, calls_hit
from . import moderules as M

REL = "pydcop.dcop.relations"


def domain_loops(f: FuncInfo, var_param: str) -> List[ast.For]:
    return [n for n in walk_no_nested(f.node) if isinstance(n, ast.For) and norm(n.iter) in (f"{var_param}.domain", f"self.{var_param}.domain", f"self._{var_param}.domain")]


def check_arg_list_update(ctx, f: FuncInfo, rule: str, loop: ast.For, list_name: str, acc: str):
    """ties append the candidate value, a strict improvement restarts the list
    with it; the two branches exclude each other; the candidate is the loop
    variable ranging over the domain."""
    lv = norm(loop.target)
    facts = [cf for cf in M.accumulator_compares(f) if cf.acc == acc and any(x is cf.stmt for x in ast.walk(loop))]
    resets = 0
    for cf in facts:
        body_assign = M._assigned_names(cf.stmt.body)
        v = body_assign.get(list_name)
        okr = isinstance(v, ast.List) and len(v.elts) == 1 and norm(v.elts[0]) == lv
        resets += 1
        ctx.check(okr, rule, f"{f.qualname}: improvement restarts {list_name} with the candidate", f, cf.stmt,
                  f"on a strict improvement the list of optimal values must become [{lv}]")
        ctx.check(norm(body_assign.get(acc, ast.Constant(None))) == cf.cand, rule, f"{f.qualname}: improvement stores the candidate cost", f, cf.stmt,
                  f"on a strict improvement '{acc}' must take the candidate's cost '{cf.cand}'")
    if resets == 0:
        ctx.bad(rule, f"{f.qualname}: improvement branch", f, loop, "no branch replaces the running optimum inside the domain loop")
    # equality branch
    eqs = []
    for n in ast.walk(loop):
        if isinstance(n, ast.If) and isinstance(n.test, ast.Compare) and len(n.test.ops) == 1 and isinstance(n.test.ops[0], ast.Eq):
            ops = {norm(n.test.left), norm(n.test.comparators[0])}
            if acc in ops:
                eqs.append(n)
    if not eqs:
        ctx.bad(rule, f"{f.qualname}: tie branch", f, loop,
                "no equality branch collects the other optimal values: the helper must return *all* values achieving the optimum")
    for n in eqs:
        apps = [c for s in n.body for c in ast.walk(s) if isinstance(c, ast.Call) and isinstance(c.func, ast.Attribute)
                and c.func.attr == "append" and norm(c.func.value) == list_name]
        ctx.check(len(apps) == 1 and len(apps[0].args) == 1 and norm(apps[0].args[0]) == lv, rule,
                  f"{f.qualname}: tie appends the candidate", f, n, f"a tie must append the candidate value '{lv}' to '{list_name}'")
        other = {norm(n.test.left), norm(n.test.comparators[0])} - {acc}
        if facts:
            ctx.check(other == {facts[0].cand}, rule, f"{f.qualname}: tie compares the candidate cost", f, n,
                      f"the tie test must compare the candidate cost '{facts[0].cand}' with '{acc}'")
        # exclusivity: improvement `if` is in the orelse chain of the equality `if` or vice versa
        excl = any(cf.stmt in _chain(n) or n in _chain(cf.stmt) for cf in facts)
        ctx.check(excl, rule, f"{f.qualname}: tie / improvement are exclusive", f, n,
                  "the tie branch and the improvement branch must be alternatives of one if/elif chain")


def _chain(if_node: ast.If) -> List[ast.If]:
    out = []
    n = if_node
    while isinstance(n, ast.If):
        out.append(n)
        if len(n.orelse) == 1 and isinstance(n.orelse[0], ast.If):
            n = n.orelse[0]
        else:
            break
    return out


def list_inits(f: FuncInfo, list_name: str):
    out = []
    for st in walk_no_nested(f.node):
        if isinstance(st, ast.Assign):
            for t in st.targets:
                elts = t.elts if isinstance(t, (ast.Tuple, ast.List)) else [t]
                vals = st.value.elts if isinstance(t, (ast.Tuple, ast.List)) and isinstance(st.value, (ast.Tuple, ast.List)) and len(st.value.elts) == len(elts) else [st.value] * len(elts)
                for e, v in zip(elts, vals):
                    if norm(e) == list_name:
                        out.append((st, v))
    return out


def check_list_starts_empty(ctx, f: FuncInfo, rule: str, list_name: str, loop: ast.For):
    """before the loop the list of optimal values is an empty list (never
    None: the tie branch may be the first one taken when a cost equals the
    infinite bound)."""
    for st, v in list_inits(f, list_name):
        if any(x is st for x in ast.walk(loop)):
            continue
        ok = (isinstance(v, ast.List) and not v.elts) or (isinstance(v, ast.Call) and call_name(v) == "list" and not v.args)
        ctx.check(ok, rule, f"{f.qualname}: {list_name} starts as an empty list", f, st,
                  f"'{list_name}' must start as an empty list: with an infinite first cost the tie branch appends to it")


def check_return_pair(ctx, f: FuncInfo, rule: str, first: str, second: str):
    rets = [r for r in walk_no_nested(f.node) if isinstance(r, ast.Return) and r.value is not None]
    ok = bool(rets) and all(isinstance(r.value, ast.Tuple) and [norm(e) for e in r.value.elts] == [first, second] for r in rets)
    ctx.check(ok, rule, f"{f.qualname}: returns ({first}, {second})", f, rets[0] if rets else f.node,
              f"the helper must return ({first}, {second}) in this order on every path")


def check_guarduse(ctx, f: FuncInfo, rule: str) -> int:
    """R-GUARDUSE: inside `if hasattr(o, 'A')` the body uses o.A."""
    n = 0
    for st in ast.walk(f.node):
        if isinstance(st, ast.If):
            for c in ast.walk(st.test):
                if isinstance(c, ast.Call) and call_name(c) == "hasattr" and len(c.args) == 2 and isinstance(c.args[1], ast.Constant):
                    obj, attr = norm(c.args[0]), c.args[1].value
                    used = {x.attr for s in st.body for x in ast.walk(s) if isinstance(x, ast.Attribute) and norm(x.value) == obj}
                    if not used:
                        continue
                    n += 1
                    ctx.check(attr in used, rule, f"{f.qualname}: hasattr({obj}, '{attr}')", f, st,
                              f"the probe tests for '{attr}' but the guarded code uses {sorted(used)}: the guard is dead or wrong")
    return n


def check_partial_sums(ctx, f, func_node, rule):
    """R-ACCUM: a partial sum built by an inner loop and then folded into another accumulator at the end
    of each outer iteration must be re-initialised inside the outer loop, before the inner one
    (otherwise earlier iterations' contributions are counted again).  Returns the number of instances."""
    n_inst = 0
    for L in ast.walk(func_node):
        if not isinstance(L, (ast.For, ast.While)):
            continue
        for i, I in enumerate(L.body):
            if not isinstance(I, (ast.For, ast.While)):
                continue
            acc = {n.target.id for n in ast.walk(I) if isinstance(n, ast.AugAssign) and isinstance(n.target, ast.Name)}
            for a in sorted(acc):
                folded = None
                for st in L.body[i + 1:]:
                    for n in ast.walk(st):
                        if isinstance(n, ast.AugAssign) and norm(n.target) != a and any(isinstance(x, ast.Name) and x.id == a for x in ast.walk(n.value)):
                            folded = n
                if folded is None:
                    continue
                n_inst += 1
                reset = [st for st in L.body[:i] if isinstance(st, ast.Assign) and any(isinstance(t, ast.Name) and t.id == a for t in st.targets)]
                ctx.check(bool(reset), rule, f"{f.qualname}: partial sum `{a}` restarts for every outer iteration", f, folded,
                          f"`{a}` is accumulated by the inner loop and folded into `{norm(folded.target)}` at the end of each outer iteration, "
                          f"but it is not re-initialised inside the outer loop: earlier iterations are counted again")
    return n_inst


def check_matrix_scalar(ctx, rule):
    """NAryMatrixRelation.get_value_for_assignment hands out Python numbers (<table>.item()), never numpy scalars"""
    repo = ctx.repo
    # values leave the table as Python numbers: arithmetic on numpy scalars of a narrow dtype wraps around silently
    gv = repo.func("pydcop.dcop.relations", "NAryMatrixRelation.get_value_for_assignment")
    ctx.touch(gv)
    ffg = FuncFacts(gv.node)
    n_ret = 0
    for r_ in ast.walk(gv.node):
        if isinstance(r_, ast.Return) and r_.value is not None:
            fs = {norm(t) for t, p_ in facts_at(ffg, r_) if p_}
            if any(t.startswith("isinstance(") and ("list" in t or "dict" in t) for t in fs):
                n_ret += 1
                v = r_.value
                ok = isinstance(v, ast.Call) and isinstance(v.func, ast.Attribute) and v.func.attr == "item" and norm(v.func.value).endswith("._m") and not v.args
                ctx.check(ok, rule, "the looked-up value is converted with .item()", gv, r_,
                          "join adds the values of its two operands: with numpy scalars the sum is computed in the tables' fixed-width dtype (int8 100+100 = -56)")
    ctx.check(n_ret >= 2, rule, "list and dict forms both return the cell value", gv, gv.node, "")


def check_fao_ties(ctx, rule):
    """find_arg_optimal (used by projection, DPOP, the best-response helpers): ties by exact equality append, strict improvements restart, list starts empty"""
    repo = ctx.repo
    fao = repo.func("pydcop.dcop.relations", "find_arg_optimal")
    ctx.touch(fao)
    _loops = domain_loops(fao, fao.params[0])
    _accs = {cf.acc for cf in M.accumulator_compares(fao)}
    if len(_loops) == 1 and len(_accs) == 1:
        _acc = next(iter(_accs))
        _lists = {norm(c.func.value) for c in ast.walk(_loops[0]) if isinstance(c, ast.Call) and isinstance(c.func, ast.Attribute) and c.func.attr == "append"}
        _ln = next(iter(_lists)) if len(_lists) == 1 else "var_val"
        check_arg_list_update(ctx, fao, rule, _loops[0], _ln, _acc)
        check_list_starts_empty(ctx, fao, rule, _ln, _loops[0])
    else:
        ctx.bad(rule, "find_arg_optimal: domain loop with one running optimum", fao, fao.node, "")
