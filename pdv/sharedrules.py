"""Per-instance state must not live in a class-level mutable container.

A class attribute bound to a mutable container (display, comprehension, list()/dict()/set()/defaultdict()/deque()) that methods
mutate through `self.<name>` (item store / delete, append, add, update, pop, ...) while no `__init__` along the MRO rebinds it
per instance is shared by every instance of the process: in thread mode, by every agent / computation.
"""
import ast

from .model import norm
from .aliasrules import _is_mutable_ctor

_MUT = {"append", "extend", "add", "update", "insert", "setdefault", "pop", "remove", "clear", "popitem", "discard", "appendleft", "popleft"}


def shared_mutables(repo, ci):
    res = []
    for st in ci.node.body:
        tgt = None
        if isinstance(st, ast.Assign) and len(st.targets) == 1 and isinstance(st.targets[0], ast.Name):
            tgt, val = st.targets[0].id, st.value
        elif isinstance(st, ast.AnnAssign) and isinstance(st.target, ast.Name) and st.value is not None:
            tgt, val = st.target.id, st.value
        if tgt is None or not _is_mutable_ctor(val):
            continue
        rebound = False
        mutated = None
        for k in list(repo.subclasses_of(ci.module.name, ci.name)) + list(repo.mro(ci)):
            for m in getattr(k, "methods", {}).values():
                for x in ast.walk(m.node):
                    if isinstance(x, (ast.Assign, ast.AnnAssign, ast.AugAssign)):
                        for t in (x.targets if isinstance(x, ast.Assign) else [x.target]):
                            if isinstance(t, ast.Attribute) and isinstance(t.value, ast.Name) and t.value.id == "self" and t.attr == tgt and m.name == "__init__":
                                rebound = True
                            if isinstance(t, ast.Subscript) and isinstance(t.value, ast.Attribute) and isinstance(t.value.value, ast.Name) and t.value.value.id == "self" and t.value.attr == tgt:
                                mutated = mutated or x
                    elif isinstance(x, ast.Call) and isinstance(x.func, ast.Attribute) and x.func.attr in _MUT and isinstance(x.func.value, ast.Attribute) \
                            and isinstance(x.func.value.value, ast.Name) and x.func.value.value.id == "self" and x.func.value.attr == tgt:
                        mutated = mutated or x
                    elif isinstance(x, ast.Delete):
                        for t in x.targets:
                            if isinstance(t, ast.Subscript) and isinstance(t.value, ast.Attribute) and isinstance(t.value.value, ast.Name) and t.value.value.id == "self" and t.value.attr == tgt:
                                mutated = mutated or x
        if mutated is not None and not rebound:
            res.append((st, tgt, mutated))
    return res


def check_no_shared_state(ctx, rule, module_names, min_classes=1):
    repo = ctx.repo
    n = 0
    for mn in module_names:
        m = repo.module(mn)
        for ci in m.classes.values():
            n += 1
            hits = shared_mutables(repo, ci)
            for st, name, mut in hits:
                ctx.bad(rule, f"{ci.name}.{name}: class-level container mutated through self", ci, st,
                        f"`{name}` is created once in the class body and mutated through `self.{name}` ({norm(mut)[:60]}): all instances of the process share it "
                        "(in thread mode every agent / computation sees and fires the others' entries)")
            if not hits:
                ctx.ok(rule, f"{ci.name}", ci, ci.node, sample=False)
    if n < min_classes:
        ctx.defer(f"{rule}: only {n} classes seen in {module_names}")
    return n
