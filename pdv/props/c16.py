"""C16 - computation graphs mirror the DCOP.

Decided (structure of the three graph modules and of ComputationNode):

* R-ONCE    every builder creates exactly one node per variable (and, for the
            factor graph, per constraint) on every path, with the constraints
            found by find_dependent_relations over *all* constraints;
* R-DEP     find_dependent_relations keeps a constraint iff the variable is in its
            scope;
* R-LINKS   a variable node has one link per constraint spanning the whole scope;
            factor-graph links are built (factor, variable) in the roles the link
            class declares, at both construction sites;
* R-NEIGH   neighbours = every end of every link except the node itself, each once
            (no early exit from the scan);
* R-CHAIN   the ordered graph sorts the nodes by name (plain str order) and links
            consecutive nodes next(n1->n2) / previous(n2->n1) on the right nodes;
* R-SIG     the four build_computation_graph functions share (dcop, variables,
            constraints) and the either-dcop-or-lists validation;
* R-GRAPH   a graph's links are the union of its nodes' links; the factor graph
            holds variable and factor nodes and rejects duplicate names.

Not decided: isomorphism of the produced graph with the DCOP on concrete inputs.
"""
import ast

from ..model import walk_no_nested, norm, call_name, is_self_attr
from ..facts import FuncFacts, facts_at, count_paths, stmt_paths
from ..report import Ctx, AnalysisError
from ..flow import bound_arg, local_defs
from .. import idioms

CG = "pydcop.computations_graph."
MODS = {"hyper": CG + "constraints_hypergraph", "ordered": CG + "ordered_graph", "factor": CG + "factor_graph", "tree": CG + "pseudotree"}
OBJ = CG + "objects"
REL = "pydcop.dcop.relations"


def check(ctx: Ctx):
    repo = ctx.repo
    ctx.decided = ("one node per variable / constraint on every path of each builder, with all dependent constraints; link construction and argument "
                   "roles; neighbour derivation without early exit; name-ordered chain with consistent next/previous links; common builder "
                   "signature and validation; link union and duplicate-name rejection.")
    ctx.undecided = "isomorphism of the produced graphs with the DCOP on concrete inputs."
    ctx.rule("R-ONCE", "exactly one node per variable (and per constraint in the factor graph) on every path of the builder")
    ctx.rule("R-DEP", "find_dependent_relations keeps a constraint iff the variable is in its scope")
    ctx.rule("R-LINKS", "one link per constraint over its whole scope; factor-graph link roles (factor, variable)")
    ctx.rule("R-NEIGH", "neighbours = all ends of all links but the node itself, each once")
    ctx.rule("R-CHAIN", "ordered graph: nodes sorted by name; next(n1->n2) on n1, previous(n2->n1) on n2")
    ctx.rule("R-SIG", "build_computation_graph(dcop, variables, constraints) with the same validation in every graph module")
    ctx.rule("R-GRAPH", "graph links = union of node links; factor graph holds both node kinds, unique names")
    _builders(ctx, repo)
    _dep(ctx, repo)
    _links(ctx, repo)
    _neigh(ctx, repo)
    _chain(ctx, repo)
    _graph(ctx, repo)
    ctx.floor("R-ONCE", 6)
    ctx.floor("R-LINKS", 5)
    ctx.floor("R-SIG", 8)


def _builders(ctx, repo):
    for kind, mod in MODS.items():
        f = repo.func(mod, "build_computation_graph")
        ctx.touch(f)
        ctx.check(f.params[:3] == ["dcop", "variables", "constraints"], "R-SIG", f"{kind}: build_computation_graph(dcop, variables, constraints)", f, f.node,
                  f"found {f.params}: callers (commands, api, replication) pass these positionally / by these names")
        ff = FuncFacts(f.node)
        rs = [r for r in ast.walk(f.node) if isinstance(r, ast.Raise) and "ValueError" in norm(r)]
        both = any(("dcop is not None", True) in {(norm(a), b) for a, b in facts_at(ff, r)} and any("constraints or variables is not None" == norm(t) and p for t, p in facts_at(ff, r)) for r in rs)
        neither = any(any(norm(t) == "constraints is None or variables is None" and p for t, p in facts_at(ff, r)) for r in rs)
        ctx.check(both and neither, "R-SIG", f"{kind}: dcop and lists are exclusive, and lists come together", f, f.node, "")
    for kind in ("hyper", "ordered"):
        f = repo.func(MODS[kind], "build_computation_graph")
        # by cases on where the variables come from (a dcop / explicit lists, valid arguments): each case runs exactly one loop over the variables,
        # whether the two cases have a loop each or share one after binding `variables` / `constraints`
        from ..facts import exec_under
        body_ = [s_ for s_ in f.node.body if not (isinstance(s_, ast.Expr) and isinstance(s_.value, ast.Constant))]
        for src in ("dcop", "lists"):
            def atom(e, src=src):
                t = norm(e)
                if t == "dcop is not None":
                    return src == "dcop"
                if t == "dcop is None":
                    return src != "dcop"
                if t in ("constraints or variables is not None", "constraints is None or variables is None", "variables is None or constraints is None"):
                    return False
                return None
            eff, k = exec_under(body_, atom, opaque=True)
            loops = [x for x in eff if isinstance(x, ast.For)]
            env = {}
            for x in eff:
                if isinstance(x, ast.For):
                    break
                if isinstance(x, ast.Assign) and len(x.targets) == 1 and isinstance(x.targets[0], ast.Name):
                    env[x.targets[0].id] = norm(x.value)
            want_v, want_c = ("dcop.variables.values()", "dcop.constraints.values()") if src == "dcop" else ("variables", "constraints")
            ok1 = k == "return" and len(loops) == 1 and env.get(norm(loops[0].iter), norm(loops[0].iter)) == want_v
            ctx.check(ok1, "R-ONCE", f"{kind}: one loop over the variables on each branch (dcop / lists)", f, loops[0] if loops else f.node, f"source {src}: {len(loops)} loops, outcome {k}")
            if not ok1:
                continue
            l = loops[0]
            v = norm(l.target)
            o = count_paths(l.body, lambda s: 1 if isinstance(s, ast.Expr) and isinstance(s.value, ast.Call) and norm(s.value.func) == "computations.append" else 0)
            ok = o.k == {"fall": (1, 1)}
            app = [s.value for s in l.body if isinstance(s, ast.Expr) and isinstance(s.value, ast.Call) and norm(s.value.func) == "computations.append"]
            if ok and app:
                node = app[0].args[0]
                ok = isinstance(node, ast.Call) and call_name(node) == "VariableComputationNode" and norm(node.args[0]) == v
                dep = [s.value for s in l.body if isinstance(s, ast.Assign) and len(node.args) > 1 and norm(s.targets[0]) == norm(node.args[1])]
                ok = ok and len(dep) == 1 and isinstance(dep[0], ast.Call) and call_name(dep[0]) == "find_dependent_relations" and len(dep[0].args) == 2 and norm(dep[0].args[0]) == v \
                    and env.get(norm(dep[0].args[1]), norm(dep[0].args[1])) == want_c
            ctx.check(ok, "R-ONCE", f"{kind}: each variable of `{want_v}` gets exactly one node carrying its dependent constraints among {want_c}", f, l,
                      "a variable skipped, doubled, or given constraints filtered from a subset breaks 'one node per variable listing exactly the constraints containing it'")
        r = [x for x in walk_no_nested(f.node) if isinstance(x, ast.Return)]
        ctx.check(len(r) == 1 and isinstance(r[0].value, ast.Call) and norm(r[0].value.args[0]) == "computations", "R-ONCE", f"{kind}: the graph is built from all created nodes", f, r[0] if r else f.node, "")
    f = repo.func(MODS["factor"], "build_computation_graph")
    t = norm(f.node)
    ok = "variables = dcop.variables.values()" in t and "constraints = dcop.constraints.values()" in t
    vl = [l for l in f.node.body if isinstance(l, ast.For) and norm(l.iter) == "variables"]
    cl = [l for l in f.node.body if isinstance(l, ast.For) and norm(l.iter) == "constraints"]
    ok = ok and len(vl) == 1 and len(cl) == 1
    if ok:
        v = norm(vl[0].target)
        body = [norm(s) for s in vl[0].body]
        ok = body == [f"dep = find_dependent_relations({v}, constraints)", f"var_nodes.append(VariableComputationNode({v}, constraints_names=[d.name for d in dep]))"]
        c = norm(cl[0].target)
        o = count_paths(cl[0].body, lambda s: 1 if isinstance(s, ast.Expr) and isinstance(s.value, ast.Call) and norm(s.value.func) == "factor_nodes.append" else 0)
        ok = ok and o.k == {"fall": (1, 1)} and f"FactorComputationNode({c})" in norm(cl[0])
        ok = ok and "ComputationsFactorGraph(var_nodes, factor_nodes)" in t
    ctx.check(ok, "R-ONCE", "factor: one variable node per variable (with the names of its dependent constraints) and one factor node per constraint", f, (vl or cl or [f.node])[0],
              "the factor graph is bipartite over all variables and all constraints")


def _dep(ctx, repo):
    f = repo.func(REL, "find_dependent_relations")
    ctx.touch(f)
    ff = FuncFacts(f.node)
    vp, cp = f.params[0], f.params[1]
    loops = [l for l in f.node.body if isinstance(l, ast.For) and norm(l.iter) == cp]
    ok = len(loops) == 1
    if ok:
        r = norm(loops[0].target)
        apps = [c for c in ast.walk(loops[0]) if isinstance(c, ast.Call) and norm(c.func) == "dependent_relations.append"]
        ok = len(apps) >= 1 and all(norm(a.args[0]) == r and (f"{vp} in {r}.dimensions", True) in {(norm(x), y) for x, y in facts_at(ff, a)} for a in apps)
        # without external assignment the membership test is the only condition
        plain = [a for a in apps if {(norm(x), y) for x, y in facts_at(ff, a)} <= {(f"{vp} in {r}.dimensions", True), (f.params[2], False)}]
        ok = ok and len(plain) == 1 and not any(isinstance(n, (ast.Break, ast.Return)) for n in ast.walk(loops[0]))
    ret = [x for x in walk_no_nested(f.node) if isinstance(x, ast.Return)]
    ok = ok and len(ret) == 1 and norm(ret[0].value) == "dependent_relations"
    ctx.check(ok, "R-DEP", "a constraint is kept iff the variable is in its dimensions (every constraint examined)", f, loops[0] if loops else f.node,
              "each node must list exactly the constraints containing its variable")


def _links(ctx, repo):
    for kind in ("hyper", "ordered"):
        ini = repo.func(MODS[kind], "VariableComputationNode.__init__")
        ctx.touch(ini)
        loops = [l for l in ini.node.body if isinstance(l, ast.For) and norm(l.iter) == ini.params[2]]
        ok = len(loops) == 1
        if ok:
            c = norm(loops[0].target)
            body = [norm(s) for s in loops[0].body]
            ok = body == [f"links.append(ConstraintLink(name={c}.name, nodes=[v.name for v in {c}.dimensions]))"]
        sup = [x for x in ast.walk(ini.node) if isinstance(x, ast.Call) and isinstance(x.func, ast.Attribute) and x.func.attr == "__init__"]
        ok = ok and len(sup) == 1 and any(k.arg == "links" and norm(k.value) == "links" for k in sup[0].keywords) and norm(sup[0].args[0]) == "name" and \
            "name = variable.name" in norm(ini.node)
        ctx.check(ok, "R-LINKS", f"{kind}: one hyper-link per constraint, over every variable of its scope; node named after its variable", ini, loops[0] if loops else ini.node,
                  "neighbourhood is derived from these links: a link over part of the scope loses neighbours")
    li = repo.func(MODS["factor"], "FactorGraphLink.__init__")
    ctx.touch(li)
    ok = li.params[1:3] == ["factor_node", "variable_node"] and "self._factor_node = factor_node" in norm(li.node) and "self._variable_node = variable_node" in norm(li.node) \
        and "[factor_node, variable_node]" in norm(li.node)
    ctx.check(ok, "R-LINKS", "factor: FactorGraphLink(factor_node, variable_node) stores each end in its role", li, li.node, "")
    fi = repo.func(MODS["factor"], "FactorComputationNode.__init__")
    ctx.touch(fi)
    loops = [l for l in fi.node.body if isinstance(l, ast.For) and norm(l.iter) == f"{fi.params[1]}.dimensions"]
    ok = len(loops) == 1 and [norm(s) for s in loops[0].body] == [f"links.append(FactorGraphLink(name, {norm(loops[0].target)}.name))"]
    ctx.check(ok, "R-LINKS", "factor node: one link (this factor, variable) per variable of the scope", fi, loops[0] if loops else fi.node,
              "x and f are linked iff x is in the scope of f; swapping the roles breaks ILP distribution and Max-Sum wiring")
    vi = repo.func(MODS["factor"], "VariableComputationNode.__init__")
    ctx.touch(vi)
    loops = [l for l in vi.node.body if isinstance(l, ast.For) and norm(l.iter) in ("self._constraints_names", vi.params[2])]
    ok = len(loops) == 1 and [norm(s) for s in loops[0].body] == [f"links.append(FactorGraphLink({norm(loops[0].target)}, name))"]
    ctx.check(ok, "R-LINKS", "variable node: one link (constraint, this variable) per dependent constraint", vi, loops[0] if loops else vi.node, "")


def _neigh(ctx, repo):
    f = repo.func(OBJ, "ComputationNode.__init__")
    ctx.touch(f)
    ff = FuncFacts(f.node)
    ws = [s for s in ast.walk(f.node) if isinstance(s, ast.Assign) and is_self_attr(s.targets[0], "_neighbors")]
    target = None
    for s in ws:
        fs = {(norm(a), b) for a, b in facts_at(ff, s)}
        if ("links is not None", True) in fs:
            target = s
    ok = target is not None
    node = target or f.node
    if ok:
        v = target.value
        # form 1: list(set(n for l in links for n in l.nodes if n != self._name))
        inner = v
        while isinstance(inner, ast.Call) and call_name(inner) in ("list", "set", "sorted", "tuple") and inner.args:
            inner = inner.args[0]
        if isinstance(inner, (ast.GeneratorExp, ast.SetComp, ast.ListComp)) and len(inner.generators) == 2:
            g1, g2 = inner.generators
            dedup = isinstance(inner, ast.SetComp) or "set(" in norm(v) or "dict.fromkeys" in norm(v)
            ok = norm(g1.iter) in ("links", "self._links") and norm(g2.iter) == f"{norm(g1.target)}.nodes" and norm(inner.elt) == norm(g2.target) and not g1.ifs and \
                [norm(x) for x in g2.ifs] in ([f"{norm(g2.target)} != self._name"], [f"{norm(g2.target)} != name"]) and dedup
        elif isinstance(v, ast.List) and not v.elts:
            # form 2: explicit scan; no break / return; skip self and known with continue or a guard
            blk = None
            for n in ast.walk(f.node):
                for fld in ("body", "orelse"):
                    b = getattr(n, fld, None)
                    if isinstance(b, list) and target in b:
                        blk = b
            loops = [l for l in (blk or []) if isinstance(l, ast.For) and norm(l.iter) in ("links", "self._links")]
            ok = len(loops) == 1 and not any(isinstance(n, (ast.Break, ast.Return)) for n in ast.walk(loops[0]))
            if ok:
                inner_l = [l for l in ast.walk(loops[0]) if isinstance(l, ast.For) and l is not loops[0]]
                ok = len(inner_l) == 1 and f"{norm(loops[0].target)}.nodes" in norm(inner_l[0].iter)
                if ok:
                    nv = norm(inner_l[0].target)
                    apps = [c for c in ast.walk(inner_l[0]) if isinstance(c, ast.Call) and norm(c.func) == "self._neighbors.append" and norm(c.args[0]) == nv]
                    ok = len(apps) == 1
                    if ok:
                        fs = {(norm(a), b) for a, b in facts_at(ff, apps[0])}
                        ok = ((f"{nv} == self._name", False) in fs or (f"{nv} != self._name", True) in fs) and ((f"{nv} in self._neighbors", False) in fs or (f"{nv} not in self._neighbors", True) in fs)
                node = loops[0] if loops else target
        else:
            ok = False
    ctx.check(ok, "R-NEIGH", "neighbours = every end of every link except the node itself, de-duplicated, whole scan", f, node,
              "neighbourhood must equal 'shares a constraint' and be symmetric: leaving the scan early drops the remaining ends of a hyper-link")
    ws2 = [s for s in ast.walk(f.node) if isinstance(s, ast.Assign) and is_self_attr(s.targets[0], "_links")]
    ok = any(norm(s.value) == "[Link([name, n]) for n in self.neighbors]" for s in ws2) and any(norm(s.value) == "list(links)" for s in ws2)
    ctx.check(ok, "R-NEIGH", "links and neighbours are derived from each other (whichever is given)", f, f.node, "")


def _chain(ctx, repo):
    f = repo.func(MODS["ordered"], "OrderedConstraintGraph.__init__")
    ctx.touch(f)
    cp = idioms.consecutive_pairs(f.node, f.node.body)
    src = cp[2] if cp else None
    ok = isinstance(src, ast.Call) and call_name(src) == "sorted" and len(src.args) == 1 and norm(src.args[0]) == "self.nodes"
    if ok:
        key = next((k.value for k in src.keywords if k.arg == "key"), None)
        rev = next((k.value for k in src.keywords if k.arg == "reverse"), None)
        ok = rev is None and key is not None and idioms.attr_getter(key, "name")
    ctx.check(ok, "R-CHAIN", "the chain follows the lexical (plain str) order of the node names", f, f.node,
              "SyncBB and the property both define the order as the lexical order of the variable names: any other key (case folding, length, ...) reorders the chain")
    loops = [l for l in f.node.body if isinstance(l, ast.For)]
    ok = len(loops) == 1 and cp is not None and cp[4] is loops[0]
    if ok:
        n1, n2 = cp[0], cp[1]
        body = sorted(norm(s) for s in cp[3])
        ok = body == sorted([f"{n1}.links.append(OrderLink('next', {n1}.name, {n2}.name))", f"{n2}.links.append(OrderLink('previous', {n2}.name, {n1}.name))"])
    ctx.check(ok, "R-CHAIN", "consecutive nodes: next(n1->n2) stored on n1, previous(n2->n1) stored on n2", f, loops[0] if loops else f.node,
              "get_next()/get_previous() read the target of the node's own link of that type")
    ol = repo.func(MODS["ordered"], "OrderLink.__init__")
    t = norm(ol.node)
    ctx.check(ol.params[1:4] == ["link_type", "link_source", "link_target"] and "self._source = link_source" in t and "self._target = link_target" in t and any(isinstance(c, ast.Compare) and len(c.ops) == 1 and isinstance(c.ops[0], ast.NotIn) and norm(c.left) == "link_type" and isinstance(c.comparators[0], (ast.Tuple, ast.List, ast.Set))
                                                                                                                                                 and sorted(norm(e) for e in c.comparators[0].elts) == ["'next'", "'previous'"] for c in ast.walk(ol.node)),
              "R-CHAIN", "OrderLink(type, source, target) keeps source and target in their roles; only previous/next accepted", ol, ol.node, "")
    vc = repo.cls(MODS["ordered"], "VariableComputationNode")
    for m, lit in (("get_next", "next"), ("get_previous", "previous")):
        g = vc.methods.get(m)
        ok = g is not None and f"if l.type == '{lit}'" in norm(g.node) and "return l.target" in norm(g.node) and "for l in self.links" in norm(g.node)
        ctx.check(ok, "R-CHAIN", f"{m} returns the target of the node's `{lit}` link", g or vc, (g or vc).node, "")


def _graph(ctx, repo):
    g = repo.cls(OBJ, "ComputationGraph")
    lk = g.methods.get("links")
    ok = lk is not None and "for n in self.nodes" in norm(lk.node) and "links.update((l for l in n.links))" in norm(lk.node) and "return links" in norm(lk.node)
    ctx.check(ok, "R-GRAPH", "graph.links = union of the links of all nodes", lk or g, (lk or g).node, "")
    ini = g.methods.get("__init__")
    ctx.check(ini is not None and "self.nodes = [] if nodes is None else list(nodes)" in norm(ini.node), "R-GRAPH", "graph keeps every node it is given", ini or g, (ini or g).node, "")
    fg = repo.func(MODS["factor"], "ComputationsFactorGraph.__init__")
    t = norm(fg.node)
    ok = "nodes = list(chain(var_nodes, factor_nodes))" in t and "if vn.name in c_names" in t and "raise KeyError" in t and "c_names.add(vn.name)" in t and "nodes=nodes" in t
    ctx.check(ok, "R-GRAPH", "factor graph = variable nodes + factor nodes, duplicate names rejected", fg, fg.node, "")


_O = "pydcop/computations_graph/objects.py"
_H = "pydcop/computations_graph/constraints_hypergraph.py"
_OG = "pydcop/computations_graph/ordered_graph.py"
_FG = "pydcop/computations_graph/factor_graph.py"
VARIANTS = [
    ("neighbors_scan_breaks", _O, "            self._neighbors = list(set(n for l in links for n in l.nodes\n                                       if n != self._name))",
     "            self._neighbors = []\n            for l in self._links:\n                for n in sorted(l.nodes, key=str):\n                    if n == self._name:\n                        continue\n                    if n in self._neighbors:\n                        break\n                    self._neighbors.append(n)", "break", "R-NEIGH"),
    ("chain_case_insensitive", _OG, "        sorted_nodes = sorted(self.nodes, key=lambda n: n.name)", "        sorted_nodes = sorted(self.nodes, key=lambda n: n.name.lower())", "break", "R-CHAIN"),
    ("chain_links_swapped", _OG, "            n1.links.append(OrderLink(\"next\", n1.name, n2.name))", "            n1.links.append(OrderLink(\"next\", n2.name, n1.name))", "break", "R-CHAIN"),
    ("previous_on_wrong_node", _OG, "            n2.links.append(OrderLink(\"previous\", n2.name, n1.name))", "            n1.links.append(OrderLink(\"previous\", n2.name, n1.name))", "break", "R-CHAIN"),
    ("hyper_skips_isolated", _H, "        for v in dcop.variables.values():\n            var_constraints = find_dependent_relations(v, dcop.constraints.values())\n            computations.append(VariableComputationNode(v, var_constraints))",
     "        for v in dcop.variables.values():\n            var_constraints = find_dependent_relations(v, dcop.constraints.values())\n            if var_constraints:\n                computations.append(VariableComputationNode(v, var_constraints))", "break", "R-ONCE"),
    ("hyper_link_partial_scope", _H, "                ConstraintLink(name=c.name, nodes=[v.name for v in c.dimensions])", "                ConstraintLink(name=c.name, nodes=[v.name for v in c.dimensions[:2]])", "break", "R-LINKS"),
    ("factor_link_roles_swapped", _FG, "            links.append(FactorGraphLink(name, v.name))", "            links.append(FactorGraphLink(v.name, name))", "break", "R-LINKS"),
    ("factor_varnode_roles_swapped", _FG, "            links.append(FactorGraphLink(c, name))", "            links.append(FactorGraphLink(name, c))", "break", "R-LINKS"),
    ("dep_first_only", "pydcop/dcop/relations.py", "            else:\n                dependent_relations.append(r)\n    return dependent_relations", "            else:\n                dependent_relations.append(r)\n                break\n    return dependent_relations", "break", "R-DEP"),
    ("factor_graph_only_vars", _FG, "        nodes = list(chain(var_nodes,\n                           factor_nodes))  # type: List[ComputationNode]", "        nodes = list(var_nodes)  # type: List[ComputationNode]", "break", "R-GRAPH"),
    ("n_neighbors_ordered_scan", _O, "            self._neighbors = list(set(n for l in links for n in l.nodes\n                                       if n != self._name))",
     "            self._neighbors = []\n            for l in self._links:\n                for n in sorted(l.nodes, key=str):\n                    if n == self._name:\n                        continue\n                    if n in self._neighbors:\n                        continue\n                    self._neighbors.append(n)", "neutral"),
    ("n_chain_attrgetter", _OG, "        sorted_nodes = sorted(self.nodes, key=lambda n: n.name)", "        sorted_nodes = sorted(self.nodes, key=lambda node: node.name)", "neutral"),
]
