"""C19 - messages held across start or pause keep their original order.

Decided (R-FIFO and companions, on MessagePassingComputation):
  producers append at the tail under the exact hold condition, consumers remove
  at the head, every drained element is re-injected / re-posted exactly once
  with slot roles preserved, re-injection priority < MSG_ALGO, the state flags
  are switched before the drains, and nobody else touches the buffers.
"""
import ast

from ..model import walk_no_nested, is_self_attr, norm, call_name
from ..facts import FuncFacts, facts_at, count_paths, calls_hit, compare_fact
from ..report import Ctx, AnalysisError

MOD = "pydcop.infrastructure.computations"
CLS = "MessagePassingComputation"
BUFS = ("_paused_messages_recv", "_paused_messages_post")
MUTATORS = {"append", "pop", "popleft", "insert", "remove", "clear", "extend", "reverse", "sort", "appendleft"}


def buffer_uses(func_node, buf):
    """(kind, node) for every use of self.<buf> in func: call of a method on
    it, iteration, truth test, assignment."""
    out = []
    for n in ast.walk(func_node):
        if isinstance(n, ast.Call) and isinstance(n.func, ast.Attribute) and is_self_attr(n.func.value, buf):
            out.append((n.func.attr, n))
        elif isinstance(n, ast.Call) and isinstance(n.func, ast.Name) and n.func.id in ("reversed", "sorted") \
                and n.args and is_self_attr(n.args[0], buf):
            out.append((n.func.id, n))
        elif isinstance(n, (ast.Assign, ast.AugAssign)):
            tgts = n.targets if isinstance(n, ast.Assign) else [n.target]
            for t in tgts:
                if is_self_attr(t, buf):
                    out.append(("assign", n))
                if isinstance(t, ast.Subscript) and is_self_attr(t.value, buf):
                    out.append(("setitem", n))
        elif isinstance(n, ast.Delete):
            for t in n.targets:
                if isinstance(t, ast.Subscript) and is_self_attr(t.value, buf):
                    out.append(("delitem", n))
    return out


def _fact_set(ff, node):
    """set of (text, polarity) atomic facts dominating node."""
    out = set()
    for t, p in facts_at(ff, node):
        out.add((norm(t), p))
    return out


def _is_paused_expr(txt):
    return txt in ("self.is_paused", "self._is_paused")


def _running_expr(txt):
    return txt in ("self._running", "self.is_running")


def check(ctx: Ctx):
    repo = ctx.repo
    ci = repo.cls(MOD, CLS)
    ctx.decided = ("R-FIFO on the two hold-back buffers of MessagePassingComputation: tail insertion under the "
                   "exact hold condition, head removal, exactly-once re-injection with slot roles preserved, "
                   "re-injection priority below MSG_ALGO, state flags switched before draining, who-may-touch.")
    ctx.undecided = ("thread interleavings; that the agent queue honours (priority, counter) order is decided "
                     "under C18; behaviour of algorithm-specific on_pause hooks beyond buffer access.")
    ctx.rule("R-FIFO.producer", "a held message is appended at the tail of the buffer, exactly on the branch where "
                                "the computation is paused / not running")
    ctx.rule("R-FIFO.consumer", "a drain removes at the head (pop(0)/popleft) or iterates forward then clears")
    ctx.rule("R-FIFO.once", "every drained element is re-injected exactly once on every path of the drain loop body")
    ctx.rule("R-FIFO.roles", "slot i of the stored tuple flows to the parameter role it was taken from")
    ctx.rule("R-FIFO.prio", "re-injection priority is a constant < MSG_ALGO so held messages precede newer ones")
    ctx.rule("R-FIFO.flags", "the running / paused flag is switched before the drain starts, drains only on resume")
    ctx.rule("R-FIFO.owner", "only MessagePassingComputation touches the hold-back buffers")
    ctx.rule("R-FIFO.keep", "a held message leaves its buffer only through a drain loop that re-injects it (no clear / re-creation / stray pop outside a drain)")
    ctx.rule("R-FIFO.dispatch", "a message is dispatched to a handler only when running and not paused; "
                                "a message is sent only when not paused")

    init = repo.func(MOD, CLS + ".__init__")
    on_message = repo.func(MOD, CLS + ".on_message")
    post_msg = repo.func(MOD, CLS + ".post_msg")
    start = repo.func(MOD, CLS + ".start")
    pause = repo.func(MOD, CLS + ".pause")
    for f in (init, on_message, post_msg, start, pause):
        ctx.touch(f)

    cls_info = repo.cls(MOD, CLS)
    # a class-level container is shared by all instances even when __init__ also creates one: only flag when __init__ does not
    # buffers initialised as empty lists
    for buf in BUFS:
        found = False
        for kind, n in buffer_uses(init.node, buf):
            if kind == "assign":
                found = True
                v = n.value
                okv = (isinstance(v, ast.List) and not v.elts) or (isinstance(v, ast.Call) and call_name(v) in ("list", "deque") and not v.args)
                ctx.check(okv, "R-FIFO.producer", f"init {buf}", init, n, f"{buf} must start as an empty sequence")
        if not found:
            cls_attr = cls_info.class_attrs.get(buf) if cls_info is not None else None
            if cls_attr is not None:
                ctx.bad("R-FIFO.owner", f"{buf} is created per instance", cls_info, cls_attr,
                        f"{buf} only exists as a class attribute: one list shared by every computation of the process - messages held by one computation "
                        "are flushed (and attributed) by whichever computation resumes first")
            else:
                raise AnalysisError(f"{buf} is not initialised in {CLS}.__init__")

    msg_algo = _const(repo, "pydcop.infrastructure.communication", "MSG_ALGO")
    # the messaging layer must use the priority it is given as the queue key: the only rewrite allowed is None -> MSG_ALGO
    mpost = repo.func("pydcop.infrastructure.communication", "Messaging.post_msg")
    ctx.touch(mpost)
    p_type = mpost.params[4] if len(mpost.params) > 4 else "msg_type"
    rew = [n for n in walk_no_nested(mpost.node) if isinstance(n, (ast.Assign, ast.AugAssign)) and any(isinstance(t, ast.Name) and t.id == p_type for t in (n.targets if isinstance(n, ast.Assign) else [n.target]))]
    for n in rew:
        v = n.value if isinstance(n, ast.Assign) else None
        okn = isinstance(v, ast.IfExp) and ((norm(v.test) == f"{p_type} is None" and norm(v.body) == "MSG_ALGO" and norm(v.orelse) == p_type) or
                                            (norm(v.test) == f"{p_type} is not None" and norm(v.body) == p_type and norm(v.orelse) == "MSG_ALGO"))
        ctx.check(okn, "R-FIFO.prio", "the messaging layer keeps the priority it is given (only None becomes MSG_ALGO)", mpost, n,
                  "held messages are re-injected with a priority just below MSG_ALGO so that they precede newer algorithm messages: rewriting that priority "
                  "in Messaging.post_msg puts them behind messages already queued")
    ctx.check(len(rew) >= 1, "R-FIFO.prio", "priority normalisation site found in Messaging.post_msg", mpost, mpost.node, "")

    # ---------------------------------------------------------------- producers
    prod = {"_paused_messages_recv": on_message, "_paused_messages_post": post_msg}
    stored_roles = {}
    for buf, f in prod.items():
        ff = FuncFacts(f.node)
        uses = buffer_uses(f.node, buf)
        appends = [n for k, n in uses if k == "append"]
        if not appends:
            ctx.bad("R-FIFO.producer", f"{buf} producer", f, f.node,
                    f"{f.qualname} no longer appends held messages to {buf}")
        for k, n in uses:
            if k == "append":
                facts = _fact_set(ff, n)
                if buf == "_paused_messages_recv":
                    # hold iff not (not paused and running): the append sits on the negative branch of a test
                    # whose conjuncts are exactly {not paused, running}
                    okc = _held_branch(ff, n, need_running=True)
                else:
                    okc = _held_branch(ff, n, need_running=False)
                ctx.check(okc, "R-FIFO.producer", f"{buf}.append guard", f, n,
                          "the append must sit exactly on the hold branch (paused" +
                          (" or not running)" if buf.endswith("recv") else ")"))
                arg = n.args[0] if n.args else None
                if isinstance(arg, ast.Tuple) and all(isinstance(e, ast.Name) for e in arg.elts):
                    stored_roles[buf] = [e.id for e in arg.elts]
                    params = f.params[1:]
                    ctx.check(all(e.id in params for e in arg.elts), "R-FIFO.roles", f"{buf} stored tuple", f, n,
                              "stored tuple must be built from the parameters of the producer")
                else:
                    ctx.bad("R-FIFO.roles", f"{buf} stored tuple", f, n, "held message must be stored as a tuple of the producer's parameters")
            elif k in ("insert", "appendleft", "extend", "assign", "setitem"):
                ctx.bad("R-FIFO.producer", f"{buf}.{k}", f, n, f"producer must only append at the tail, found {k}")
            elif k in MUTATORS or k in ("reversed", "sorted", "delitem"):
                ctx.bad("R-FIFO.producer", f"{buf}.{k}", f, n, f"unexpected {k} on the hold-back buffer in the producer")

    # dispatch / send happen only on the complementary branch
    ffm = FuncFacts(on_message.node)
    n_disp = 0
    for c in walk_no_nested(on_message.node):
        if isinstance(c, ast.Call) and isinstance(c.func, ast.Subscript) and (
                is_self_attr(c.func.value, "_decorated_handlers") or is_self_attr(c.func.value, "_msg_handlers")):
            n_disp += 1
            facts = _fact_set(ffm, c)
            paused_false = any(_is_paused_expr(t) and p is False for t, p in facts)
            running_true = any(_running_expr(t) and p is True for t, p in facts)
            ctx.check(paused_false and running_true, "R-FIFO.dispatch", "handler dispatch", on_message, c,
                      "a handler may only be called when the computation is running and not paused")
    if n_disp == 0:
        raise AnalysisError("no handler dispatch found in on_message")
    ffp = FuncFacts(post_msg.node)
    n_send = 0
    for c in walk_no_nested(post_msg.node):
        if isinstance(c, ast.Call) and is_self_attr(c.func, "_msg_sender"):
            n_send += 1
            facts = _fact_set(ffp, c)
            ctx.check(any(_is_paused_expr(t) and p is False for t, p in facts), "R-FIFO.dispatch", "send", post_msg, c,
                      "a message may only be handed to the message sender when not paused")
            # argument roles: (self.name, target, msg, prio, on_error)
            params = post_msg.params[1:]
            want = ["self.name"] + params[:4]
            got = [norm(a) for a in c.args] + [norm(k.value) for k in c.keywords]
            ctx.check(got[:len(want)] == want, "R-FIFO.roles", "post_msg -> _msg_sender", post_msg, c,
                      f"expected argument roles {want}, found {got}")
    if n_send == 0:
        raise AnalysisError("no _msg_sender call found in post_msg")

    # ---------------------------------------------------------------- consumers
    n_drains = 0
    for f, bufs in ((start, ("_paused_messages_recv",)), (pause, BUFS)):
        ff = FuncFacts(f.node)
        for buf in bufs:
            drains = _drain_loops(f.node, buf)
            if not drains:
                ctx.bad("R-FIFO.consumer", f"{f.name}:{buf}", f, f.node,
                        f"{f.qualname} no longer drains {buf}: held messages would never be handled")
                continue
            for loop in drains:
                n_drains += 1
                _check_drain(ctx, repo, f, ff, loop, buf, stored_roles.get(buf), msg_algo)
        # any other mutation of the buffers in consumers
        for buf in BUFS:
            for k, n in buffer_uses(f.node, buf):
                if k in ("reversed", "sorted", "reverse", "sort", "insert", "appendleft"):
                    ctx.bad("R-FIFO.consumer", f"{f.name}:{buf}.{k}", f, n, f"{k} on a hold-back buffer breaks reception order")
    if n_drains < 3:
        ctx.note(f"only {n_drains} drain loops found")

    # flags -------------------------------------------------------------------
    # start: self._running = True precedes the drain loop
    _flag_before_drain(ctx, start, "_running", lambda v: isinstance(v, ast.Constant) and v.value is True,
                       "_paused_messages_recv", "start: _running must be True before re-injecting")
    # start: on_start() precedes the drain (messages are handled after start-up)
    order = [("on_start", None)]
    pos_on_start = _first_pos(start.node, lambda n: isinstance(n, ast.Call) and is_self_attr(n.func, "on_start"))
    pos_drain = _first_pos(start.node, lambda n: isinstance(n, (ast.While, ast.For)) and _mentions(n, "_paused_messages_recv"))
    ctx.check(pos_on_start is not None and pos_drain is not None and pos_on_start < pos_drain, "R-FIFO.flags",
              "start: on_start before drain", start, start.node, "on_start() must run before held messages are re-injected")
    # pause: _is_paused assigned from the parameter before the drains; drains under `not is_paused`
    p_param = pause.params[1] if len(pause.params) > 1 else None
    _flag_before_drain(ctx, pause, "_is_paused", lambda v: isinstance(v, ast.Name) and v.id == p_param,
                       "_paused_messages_post", "pause: _is_paused must take the requested state before draining")
    ffp2 = FuncFacts(pause.node)
    for buf in BUFS:
        for loop in _drain_loops(pause.node, buf):
            facts = _fact_set(ffp2, loop)
            okr = any((t == p_param and p is False) or (_is_paused_expr(t) and p is False) for t, p in facts)
            ctx.check(okr, "R-FIFO.flags", f"pause: drain {buf} only on resume", pause, loop,
                      "buffers may only be drained when resuming (not is_paused)")
    # on_pause hook called with the new state
    hook = [c for c in walk_no_nested(pause.node) if isinstance(c, ast.Call) and is_self_attr(c.func, "on_pause")]
    ctx.check(bool(hook) and all(norm(c.args[0]) == p_param for c in hook if c.args), "R-FIFO.flags", "pause: on_pause(state)",
              pause, hook[0] if hook else pause.node, "on_pause must be called with the requested state")

    # held messages leave a buffer only through a drain that re-injects them ----------------------------------
    n_keep = 0
    for mname, mf in cls_info.methods.items():
        if mname == "__init__":
            continue
        for buf in BUFS:
            drains = _drain_loops(mf.node, buf)
            for k, n in buffer_uses(mf.node, buf):
                if k in ("clear", "assign"):
                    okd = any(isinstance(l, ast.For) and getattr(n, "lineno", 0) > l.lineno and not _inside(l, n) and _same_block_after(mf.node, l, n) for l in drains)
                elif k in ("pop", "popleft", "remove", "delitem"):
                    okd = any(isinstance(l, ast.While) and _inside(l, n) for l in drains)
                else:
                    continue
                n_keep += 1
                ctx.check(okd, "R-FIFO.keep", f"{mname}: {buf}.{k}", mf, n,
                          f"`{norm(n)[:70]}` discards held messages that were not re-injected: the buffers also keep what arrived before start(), so emptying or re-creating "
                          "them anywhere but in a drain loses those messages")
    if n_keep < 3:
        ctx.defer(f"R-FIFO.keep: only {n_keep} removal sites seen on the hold-back buffers (expected >= 3)")

    # who may touch -----------------------------------------------------------
    n_out = 0
    for m in repo.modules.values():
        for n in ast.walk(m.tree):
            if isinstance(n, ast.Attribute) and n.attr in BUFS:
                owner = _enclosing_class(m, n)
                if m.name == MOD and owner == CLS:
                    continue
                n_out += 1
                fi = _enclosing_func(repo, m, n)
                ctx.bad("R-FIFO.owner", f"{m.name}:{owner}.{n.attr}", fi or m, _stmt_at(m, n),
                        f"{n.attr} is touched outside {CLS}: held messages can be lost or reordered")
    if n_out == 0:
        ctx.ok("R-FIFO.owner", "no external access", ci, ci.node)
    ctx.floor("R-FIFO.consumer", 3)
    ctx.floor("R-FIFO.once", 3)
    ctx.floor("R-FIFO.producer", 4)


def _const(repo, mod, name):
    m = repo.module(mod)
    v = m.constants.get(name)
    if v is None or not isinstance(v.value, int):
        raise AnalysisError(f"constant {mod}.{name} not found")
    return v.value


def _held_branch(ff, node, need_running):
    """The append is reached exactly when `paused or not running` (recv) /
    `paused` (post): i.e. it sits on the negative branch of a test whose
    conjuncts are {not paused[, running]} or on the positive branch of the
    disjunction {paused[, not running]}."""
    conds = ff.conds_at(node)
    if not conds:
        return False
    for test, pol in conds:
        atoms = _atoms(test)
        if atoms is None:
            continue
        kind, lits = atoms
        names = {("paused" if _is_paused_expr(t) else "running" if _running_expr(t) else t, p) for t, p in lits}
        want_and = {("paused", False)} | ({("running", True)} if need_running else set())
        want_or = {("paused", True)} | ({("running", False)} if need_running else set())
        if not pol and kind in ("and", "atom") and names == want_and:
            return True
        if pol and kind in ("or", "atom") and names == want_or:
            return True
    return False


def _atoms(test):
    def lit(e):
        p = True
        while isinstance(e, ast.UnaryOp) and isinstance(e.op, ast.Not):
            p = not p
            e = e.operand
        return norm(e), p
    if isinstance(test, ast.BoolOp):
        kind = "and" if isinstance(test.op, ast.And) else "or"
        if any(isinstance(v, ast.BoolOp) for v in test.values):
            return None
        return kind, [lit(v) for v in test.values]
    return "atom", [lit(test)]


def _mentions(node, buf):
    return any(is_self_attr(n, buf) for n in ast.walk(node))


def _drain_loops(func_node, buf):
    out = []
    for n in walk_no_nested(func_node):
        if isinstance(n, ast.While) and _mentions(n.test, buf):
            out.append(n)
        elif isinstance(n, ast.For) and _mentions(n.iter, buf):
            out.append(n)
    return out


def _check_drain(ctx, repo, f, ff, loop, buf, roles, msg_algo):
    inst = f"{f.name}:{buf}"
    elem_names = None
    if isinstance(loop, ast.While):
        # while buf: x = buf.pop(0)
        pops = [(k, n) for k, n in buffer_uses(loop, buf) if k in ("pop", "popleft")]
        if len(pops) != 1:
            ctx.bad("R-FIFO.consumer", inst, f, loop, f"expected exactly one removal per iteration, found {len(pops)}")
            return
        k, call = pops[0]
        head = (k == "popleft") or (k == "pop" and len(call.args) == 1 and isinstance(call.args[0], ast.Constant)
                                     and call.args[0].value == 0)
        ctx.check(head, "R-FIFO.consumer", inst, f, call,
                  "held messages must be removed at the head (pop(0)/popleft); pop() takes the newest first (LIFO)")
        test_ok = is_self_attr(loop.test, buf) or (isinstance(loop.test, ast.Compare) and _mentions(loop.test, buf)) \
            or (isinstance(loop.test, ast.Call) and _mentions(loop.test, buf))
        if not test_ok:
            ctx.bad("R-FIFO.consumer", inst + " loop test", f, loop, "drain loop must run until the buffer is empty")
        st = ff.stmt(call)
        if isinstance(st, ast.Assign) and len(st.targets) == 1:
            t = st.targets[0]
            if isinstance(t, ast.Tuple) and all(isinstance(e, ast.Name) for e in t.elts):
                elem_names = [e.id for e in t.elts]
        # the removal must happen on every iteration path exactly once
        o = count_paths(loop.body, calls_hit(lambda c: c is call))
        lohi = [v for kk, v in o.k.items() if kk in ("fall", "continue")]
        ctx.check(bool(lohi) and all(v == (1, 1) for v in lohi), "R-FIFO.once", inst + " removal", f, call,
                  "each iteration must remove exactly one element")
    else:
        # for x in buf[:] / list(buf) / buf : ... then clear
        it = loop.iter
        fwd = is_self_attr(it, buf) or (isinstance(it, ast.Subscript) and is_self_attr(it.value, buf)
                                         and norm(it.slice) == ":") or (
            isinstance(it, ast.Call) and call_name(it) in ("list", "tuple") and it.args and is_self_attr(it.args[0], buf))
        ctx.check(fwd, "R-FIFO.consumer", inst, f, loop, "a for-drain must iterate the buffer forward")
        t = loop.target
        if isinstance(t, ast.Tuple) and all(isinstance(e, ast.Name) for e in t.elts):
            elem_names = [e.id for e in t.elts]
        # cleared afterwards
        cleared = False
        for k, n in buffer_uses(f.node, buf):
            if k in ("clear",) or (k == "assign" and isinstance(n.value, ast.List) and not n.value.elts):
                if getattr(n, "lineno", 0) > loop.lineno and not _inside(loop, n):
                    cleared = True
        ctx.check(cleared, "R-FIFO.consumer", inst + " clear", f, loop, "a for-drain must clear the buffer after the loop")

    # exactly one re-injection per element
    def is_reinject(c):
        if buf.endswith("recv"):
            return is_self_attr(c.func, "_msg_sender") or is_self_attr(c.func, "message_sender")
        return is_self_attr(c.func, "post_msg")
    o = count_paths(loop.body, calls_hit(is_reinject))
    lohi = [v for kk, v in o.k.items() if kk in ("fall", "continue")]
    early = [kk for kk in o.k if kk in ("break", "return", "raise")]
    ctx.check(bool(lohi) and all(v == (1, 1) for v in lohi) and not early, "R-FIFO.once", inst + " re-injection", f, loop,
              "every drained element must be re-injected exactly once and the loop must not be left early")
    calls = [c for c in walk_no_nested(loop) if isinstance(c, ast.Call) and is_reinject(c)]
    for c in calls:
        args = [norm(a) for a in c.args]
        if elem_names is None or roles is None:
            ctx.bad("R-FIFO.roles", inst, f, c, "cannot relate the drained element to the stored tuple")
            continue
        slot = {n: i for i, n in enumerate(elem_names)}
        if buf.endswith("recv"):
            # stored (sender, msg, t) ; call (sender, self.name, msg, prio)
            okr = (len(args) >= 4 and slot.get(args[0]) == 0 and args[1] in ("self.name", "self._name")
                   and slot.get(args[2]) == 1 and len(elem_names) == len(roles))
            ctx.check(okr, "R-FIFO.roles", inst, f, c,
                      "re-injection must pass (stored sender, own name, stored message, priority)")
            prio = c.args[3] if len(c.args) >= 4 else None
            pv = None
            if isinstance(prio, ast.Constant) and isinstance(prio.value, int):
                pv = prio.value
            elif isinstance(prio, ast.Name):
                cm = repo.module(MOD).constants.get(prio.id) or repo.module("pydcop.infrastructure.communication").constants.get(prio.id)
                pv = cm.value if cm is not None else None
            mgt = _const(repo, "pydcop.infrastructure.communication", "MSG_MGT")
            ctx.check(pv is not None and mgt < pv < msg_algo, "R-FIFO.prio", inst, f, c,
                      f"re-injection priority must be a constant in (MSG_MGT={mgt}, MSG_ALGO={msg_algo}), found {norm(prio) if prio else None}")
        else:
            okr = len(args) == len(elem_names) == len(roles) and all(slot.get(a) == i for i, a in enumerate(args))
            ctx.check(okr, "R-FIFO.roles", inst, f, c, "re-post must pass the stored slots in their original positions")


def _same_block_after(func_node, loop, node):
    """node's statement follows `loop` in the very block that holds `loop` (so it runs exactly when the loop has run)"""
    for o in ast.walk(func_node):
        for fld in ("body", "orelse", "finalbody"):
            b = getattr(o, fld, None)
            if isinstance(b, list) and loop in b:
                return any(any(x is node for x in ast.walk(st)) for st in b[b.index(loop) + 1:])
    return False


def _inside(outer, node):
    return any(n is node for n in ast.walk(outer))


def _first_pos(func_node, pred):
    best = None
    for n in walk_no_nested(func_node):
        if pred(n):
            ln = (n.lineno, n.col_offset)
            if best is None or ln < best:
                best = ln
    return best


def _flag_before_drain(ctx, f, flag, value_ok, buf, msg):
    writes = []
    for n in walk_no_nested(f.node):
        if isinstance(n, ast.Assign) and any(is_self_attr(t, flag) for t in n.targets):
            writes.append(n)
    drains = _drain_loops(f.node, buf)
    good = [w for w in writes if value_ok(w.value)]
    okf = bool(good) and bool(drains) and all((w.lineno < d.lineno) and not any(_inside(d2, w) for d2 in drains)
                                              for w in good for d in drains)
    # no write of a different value
    other = [w for w in writes if not value_ok(w.value)]
    ctx.check(okf and not other, "R-FIFO.flags", f"{f.name}: {flag}", f, (other or writes or [f.node])[0], msg)


def _enclosing_class(m, node):
    for c in m.classes.values():
        if any(n is node for n in ast.walk(c.node)):
            return c.name
    return None


def _enclosing_func(repo, m, node):
    for f in repo.all_functions(m):
        if f.node.lineno <= node.lineno <= (f.node.end_lineno or 0):
            if any(n is node for n in ast.walk(f.node)):
                return f
    return None


def _stmt_at(m, node):
    best = None
    for n in ast.walk(m.tree):
        if isinstance(n, ast.stmt) and n.lineno <= node.lineno <= (n.end_lineno or n.lineno):
            if not isinstance(n, (ast.FunctionDef, ast.ClassDef, ast.If, ast.For, ast.While, ast.Try, ast.With)):
                if any(x is node for x in ast.walk(n)):
                    best = n
    return best or node


_F = "pydcop/infrastructure/computations.py"
VARIANTS = [
    ("pause_recreates_buffers", _F, "            self._is_paused = is_paused\n            self.on_pause(is_paused)\n", "            self._is_paused = is_paused\n            if is_paused:\n                self._paused_messages_post = []\n                self._paused_messages_recv = []\n            self.on_pause(is_paused)\n", "break", "R-FIFO.keep"),
    ("stop_clears_received", _F, "        self._running = False\n        self.on_stop()", "        self._running = False\n        self._paused_messages_recv.clear()\n        self.on_stop()", "break", "R-FIFO.keep"),
    ("class_level_post_buffer", "pydcop/infrastructure/computations.py", ["        self._paused_messages_post = []  # type: List[Tuple[str, Any, int, Any]]\n", "    def __init__(self, name: str, *args, **kwargs):\n        super().__init__(*args, **kwargs)\n        self._name = name\n"],
     ["", "    _paused_messages_post = []\n\n    def __init__(self, name: str, *args, **kwargs):\n        super().__init__(*args, **kwargs)\n        self._name = name\n"], "break", "R-FIFO.owner"),
    ("messaging_flattens_priorities", "pydcop/infrastructure/communication.py", "        msg_type = MSG_ALGO if msg_type is None else msg_type\n", "        msg_type = MSG_ALGO if msg_type is None else msg_type\n        if msg_type > MSG_VALUE:\n            msg_type = MSG_ALGO\n", "break", "R-FIFO.prio"),
    ("start_lifo", _F, "            src, msg, t = self._paused_messages_recv.pop(0)\n            # Do NOT call on_message directly, that would block the\n            # agent's thread for a potentially long time during which we\n            # would not be able to handle any mgt message.\n            # Instead, inject the message with",
     "            src, msg, t = self._paused_messages_recv.pop()\n            # Do NOT call on_message directly, that would block the\n            # agent's thread for a potentially long time during which we\n            # would not be able to handle any mgt message.\n            # Instead, inject the message with", "break", "R-FIFO.consumer"),
    ("post_lifo", _F, "target, msg, prio, e = self._paused_messages_post.pop(0)", "target, msg, prio, e = self._paused_messages_post.pop(-1)", "break", "R-FIFO.consumer"),
    ("post_insert_head", _F, "self._paused_messages_post.append((target, msg, prio, on_error))", "self._paused_messages_post.insert(0, (target, msg, prio, on_error))", "break", "R-FIFO.producer"),
    ("recv_guard_or", _F, "if not self.is_paused and self._running:", "if not self.is_paused or self._running:", "break", "R-FIFO"),
    ("recv_guard_drop_running", _F, "if not self.is_paused and self._running:", "if not self.is_paused:", "break", "R-FIFO"),
    ("prio_algo", _F, "            self._msg_sender(src, self.name, msg, 19)\n        self.logger.debug(\n            f\"On starting", "            self._msg_sender(src, self.name, msg, 20)\n        self.logger.debug(\n            f\"On starting", "break", "R-FIFO.prio"),
    ("prio_none", _F, "                self._msg_sender(src, self.name, msg, 19)", "                self._msg_sender(src, self.name, msg, None)", "break", "R-FIFO.prio"),
    ("swap_roles", _F, "                self._msg_sender(src, self.name, msg, 19)", "                self._msg_sender(self.name, src, msg, 19)", "break", "R-FIFO.roles"),
    ("repost_drop_prio", _F, "self.post_msg(target, msg, prio, e)", "self.post_msg(target, msg)", "break", "R-FIFO.roles"),
    ("running_after_drain", _F, "        self._running = True\n        self.on_start()\n", "        self.on_start()\n", "break", "R-FIFO.flags"),
    ("pause_flag_after", _F, "        if self._is_paused != is_paused:\n            self._is_paused = is_paused\n            self.on_pause(is_paused)\n\n        if not is_paused:\n",
     "        if self._is_paused != is_paused:\n            self.on_pause(is_paused)\n\n        if not is_paused:\n", "break", "R-FIFO.flags"),
    ("drain_when_pausing", _F, "        if not is_paused:\n\n            waiting_msg_count = 0", "        if is_paused:\n\n            waiting_msg_count = 0", "break", "R-FIFO.flags"),
    ("skip_every_other", _F, "                target, msg, prio, e = self._paused_messages_post.pop(0)\n                self.post_msg(target, msg, prio, e)",
     "                target, msg, prio, e = self._paused_messages_post.pop(0)\n                if prio is not None:\n                    self.post_msg(target, msg, prio, e)", "break", "R-FIFO.once"),
    ("send_while_paused", _F, "        if not self.is_paused:\n            self._msg_sender(self.name, target, msg, prio, on_error)", "        if not self.is_paused or prio is not None:\n            self._msg_sender(self.name, target, msg, prio, on_error)", "break", "R-FIFO"),
    ("outsider_clears", "pydcop/algorithms/dsa.py", "    def on_start(self):\n", "    def on_pause(self, paused):\n        self._paused_messages_recv.clear()\n\n    def on_start(self):\n", "break", "R-FIFO.owner"),
    # neutral edits
    ("n_popleft_deque", _F, "target, msg, prio, e = self._paused_messages_post.pop(0)", "target, msg, prio, e = self._paused_messages_post.pop(0)  # head", "neutral"),
    ("n_rename_locals", _F, "                target, msg, prio, e = self._paused_messages_post.pop(0)\n                self.post_msg(target, msg, prio, e)",
     "                tgt, m, p, err = self._paused_messages_post.pop(0)\n                self.post_msg(tgt, m, p, err)", "neutral"),
    ("n_swap_test", _F, "if not self.is_paused and self._running:", "if self._running and not self.is_paused:", "neutral"),
    ("n_invert_branches", _F, "        if not self.is_paused:\n            self._msg_sender(self.name, target, msg, prio, on_error)\n            event_bus.send(\n                \"computations.message_snd.\" + self.name, (self.name, msg.size)\n            )\n        else:\n            self._paused_messages_post.append((target, msg, prio, on_error))",
     "        if self.is_paused:\n            self._paused_messages_post.append((target, msg, prio, on_error))\n        else:\n            self._msg_sender(self.name, target, msg, prio, on_error)\n            event_bus.send(\n                \"computations.message_snd.\" + self.name, (self.name, msg.size)\n            )", "neutral"),
]
