"""C23 - distribution methods return a valid mapping or signal impossibility.

Decided (structure of pydcop.distribution and of the distribute command):

* R-API       every module of the package and the command import only names that
              exist in the pinned environment (a method whose module cannot be
              imported crashes with ModuleNotFoundError, not one of the allowed
              outcomes);
* R-SIG       every `distribute` takes (computation_graph, agentsdef, hints,
              computation_memory, communication_load[, timeout]) and every
              keyword of the command's call binds a declared parameter of every
              method the command offers; every offered method exists;
* R-RETURN    every path of every `distribute` returns a value built by
              `Distribution(...)` (directly, through a local, or through a package
              helper for which the same holds) or raises;
* R-UNDEF     no possibly-undefined local in the package (definite assignment);
* R-RAISE     explicit raises reachable from a `distribute` are
              ImpossibleDistributionException or TimeoutError;
* R-RETRY     a recursive retry returns its result and passes a strictly
              increasing counter in the position of the parameter that bounds it;
* R-CAPACITY  capacity-aware greedy methods (adhoc, gh_cgdp, heur_comhost): every
              free placement is chosen among agents whose remaining capacity,
              after deducting *every* hosted and pinned footprint, admits the
              footprint; every pinned / hinted placement is followed by a
              feasibility test that raises;
* R-COMPLETE  every computation is placed: free and pinned computations partition
              the graph's nodes, the result merges both;
* R-HINTS     a method can only honour must-host hints if its result depends on
              its `hints` argument.

Not decided: validity of the mapping on concrete inputs, ILP feasibility,
behaviour of the solver.
"""
import ast

from ..model import walk_no_nested, norm, call_name, FuncInfo
from ..facts import FuncFacts, facts_at, stmt_paths, count_paths
from ..report import Ctx, AnalysisError
from ..construles import constant_membership_tests
from ..stalerules import stale_loop_reads
from ..flow import bound_arg, resolve_local, local_defs
from ..defassign import possibly_undefined
from .. import apirules

PKG = "pydcop.distribution"
CMD = "pydcop.commands.distribute"
STD = ["computation_graph", "agentsdef", "hints", "computation_memory", "communication_load"]
ALLOWED = ("ImpossibleDistributionException", "TimeoutError")
CAPACITY_AWARE = ("adhoc", "gh_cgdp", "heur_comhost")


def _methods(repo):
    out = {}
    for n, m in sorted(repo.modules.items()):
        if n.startswith(PKG + ".") and "distribute" in m.functions:
            out[n.split(".")[-1]] = m
    return out


def check(ctx: Ctx):
    repo = ctx.repo
    ctx.decided = ("importability of every distribution module; common signature and keyword binding of the command's call for every offered "
                   "method; every path of every distribute returns a Distribution or raises an allowed exception; no possibly-undefined local; "
                   "retry returns its result with an increasing bounded counter; capacity test dominates every free placement and follows "
                   "every pinned placement in adhoc/gh_cgdp/heur_comhost; free and pinned computations partition the nodes; result depends on hints.")
    ctx.undecided = "validity of the returned mapping on concrete inputs; feasibility / optimality of the ILP models (C24); solver behaviour."
    ctx.rule("R-API", "imports of the distribution modules and of the distribute command resolve in this environment")
    ctx.rule("R-SIG", "distribute(computation_graph, agentsdef, hints, computation_memory, communication_load[, timeout]); the command's keywords bind")
    ctx.rule("R-RETURN", "every path of distribute returns a Distribution-built value or raises")
    ctx.rule("R-UNDEF", "no local read before it is definitely assigned")
    ctx.rule("R-RAISE", "only ImpossibleDistributionException / TimeoutError are raised on the distribute paths")
    ctx.rule("R-RETRY", "a recursive retry returns its result and increases the counter that bounds it")
    ctx.rule("R-CAPACITY", "free placements only on agents with enough remaining capacity (all hosted and pinned footprints deducted); pinned placements followed by a feasibility test")
    ctx.rule("R-COMPLETE", "free and pinned computations partition the nodes; the result contains both")
    ctx.rule("R-HINTS", "the result of distribute depends on its hints argument")
    ctx.rule("R-SOLVED", "an ILP-based method only returns a mapping extracted from a solved model: every return of a function that solves passes through the solve call")
    ctx.rule("R-STALE", "no read of a loop variable after its loop has ended (distribution modules and the hints loader)")
    ctx.rule("R-DEADTEST", "a membership test is not made constant by a store of the same key a few statements before it")
    ctx.rule("R-KINDS", "names returned by the hints are computations: they are never used as keys of the per-agent tables")
    ctx.rule("R-ONCE", "a computation is added to an agent's set only when it is not hosted yet, or on the agent that already hosts it")
    methods = _methods(repo)
    if len(methods) < 12:
        raise AnalysisError(f"only {len(methods)} distribution methods found (floor 12)")
    for name, m in methods.items():
        ctx.touch(m)
        apirules.check_imports(ctx, m, "R-API")
    apirules.check_imports(ctx, repo.module(CMD), "R-API")
    apirules.check_imports(ctx, repo.module(PKG + ".objects"), "R-API")
    _signatures(ctx, repo, methods)
    for name, m in methods.items():
        _returns(ctx, repo, m, m.functions["distribute"], set())
        _raises(ctx, repo, m)
        for f in repo.all_functions(m):
            for nm, node in possibly_undefined(f):
                ctx.bad("R-UNDEF", f"{name}.{f.qualname}: `{nm}` may be read before assignment", f, node,
                        f"on some path `{nm}` is not bound when it is read here (e.g. a loop that did not run, an if without else): NameError / stale value instead of a valid mapping or ImpossibleDistributionException")
            ctx.ok("R-UNDEF", f"{name}.{f.qualname}", f, f.node, sample=False)
        _retry(ctx, repo, m)
        _hints(ctx, repo, name, m)
        for f in repo.all_functions(m):
            hits = constant_membership_tests(f.node)
            for st, tst, k, cont, dead in hits:
                ctx.bad("R-DEADTEST", f"{name}.{f.qualname}: `{k} {'not in' if dead else 'in'} {cont}` after `{norm(st)[:50]}`", f, tst,
                        f"`{cont}[{k}]` was stored unconditionally just before: the test is always {'False (its branch never runs)' if dead else 'True'}; "
                        "either the store or the test is misplaced (e.g. a footprint that is never deducted)")
            if not hits:
                ctx.ok("R-DEADTEST", f"{name}.{f.qualname}", f, f.node, sample=False)
        _kinds(ctx, repo, name, m)
    # stale loop variables, and the hints read from yaml reach DistributionHints whole
    STALE_OK = {("pydcop.distribution.adhoc:_distribute_try", "a"): "sort key `len(mapping[a])` is constant (slip for x): the candidates stay unsorted, any of them is a valid host"}
    ymod = repo.module("pydcop.dcop.yamldcop")
    ctx.touch(ymod)
    n_st = 0
    for m_ in list(methods.values()) + [ymod]:
        for f in repo.all_functions(m_):
            n_st += 1
            for lp_, rd in stale_loop_reads(f.node):
                if (f.fq, rd.id) in STALE_OK:
                    continue
                ctx.bad("R-STALE", f"{f.fq}: `{rd.id}` read after its loop", f, rd,
                        f"`{rd.id}` is only bound as the target of the `for` at line {lp_.lineno}, which has ended: here it holds the last element (or nothing). "
                        "E.g. as the key of a comprehension it collapses all entries onto one key")
            ctx.ok("R-STALE", f.fq, f, f.node, sample=False)
    n_solve = 0
    for name, m_ in methods.items():
        for f in repo.all_functions(m_):
            sv = [c for c in walk_no_nested(f.node) if isinstance(c, ast.Call) and isinstance(c.func, ast.Attribute) and c.func.attr == "solve"]
            if not sv:
                continue
            n_solve += 1
            k = count_paths(f.node.body, lambda st_: 1 if any(any(x is c for c in sv) for x in ast.walk(st_)) and not isinstance(st_, (ast.If, ast.For, ast.While, ast.Try, ast.With)) else 0).k
            lo = k.get("return", (1, 1))[0]
            rets = [r for r in walk_no_nested(f.node) if isinstance(r, ast.Return)]
            firstret = min(rets, key=lambda r: r.lineno) if rets else f.node
            ctx.check(lo >= 1, "R-SOLVED", f"{name}.{f.qualname}: every return follows the solve call", f, firstret,
                      "the capacity, exactly-once and must-host constraints only exist inside the linear program: a shortcut that returns without solving (e.g. when every "
                      "computation is pinned) returns a mapping nobody checked against the capacities")
    if n_solve < 4:
        ctx.defer(f"R-SOLVED: only {n_solve} solving functions found in the distribution modules (expected >= 4)")
    bh = repo.func("pydcop.dcop.yamldcop", "_build_dist_hints")
    mk = [c for c in ast.walk(bh.node) if isinstance(c, ast.Call) and call_name(c) == "DistributionHints"]
    ok = len(mk) == 1 and len(mk[0].args) >= 1
    if ok:
        d_ = [a for a in walk_no_nested(bh.node) if isinstance(a, ast.Assign) and norm(a.targets[0]) == norm(mk[0].args[0]) and norm(a.value) != "None"
              and not (isinstance(a.targets[0], ast.Tuple))]
        ok = len(d_) == 1
        if ok:
            v = d_[0].value
            if isinstance(v, ast.Dict) and not v.keys:
                # filled by a loop over the loaded section, keyed by the loop's own key variable
                tgt_ = norm(d_[0].targets[0])
                lps_ = [l for l in ast.walk(bh.node) if isinstance(l, ast.For) and norm(l.iter) == "loaded['must_host'].items()" and isinstance(l.target, ast.Tuple)
                        and any(isinstance(a, ast.Assign) and isinstance(a.targets[0], ast.Subscript) and norm(a.targets[0].value) == tgt_ for a in ast.walk(l))]
                ok = len(lps_) == 1
                if ok:
                    kv, vv = [norm(e) for e in lps_[0].target.elts]
                    sts_ = [a for a in ast.walk(lps_[0]) if isinstance(a, ast.Assign) and isinstance(a.targets[0], ast.Subscript) and norm(a.targets[0].value) == tgt_]
                    ok = len(sts_) == 1 and norm(sts_[0].targets[0].slice) == kv and vv in norm(sts_[0].value) and not any(isinstance(x, (ast.If, ast.Continue, ast.Break)) for x in ast.walk(lps_[0]))
            elif isinstance(v, ast.DictComp):
                g = v.generators[0]
                ok = norm(g.iter) in ("loaded['must_host'].items()",) and isinstance(g.target, ast.Tuple) and norm(v.key) == norm(g.target.elts[0]) and not g.ifs and len(v.generators) == 1 \
                    and norm(g.target.elts[1]) in norm(v.value)
            else:
                ok = norm(v) in ("loaded['must_host']", "dict(loaded['must_host'])", "loaded['must_host'].copy()")
    ctx.check(ok, "R-HINTS", "yaml must_host hints reach DistributionHints with every agent's entry", bh, mk[0] if mk else bh.node,
              "every agent listed under must_host keeps its own list: a rebuilt mapping must be keyed by its own iteration variable")
    _capacity_gh(ctx, repo, "gh_cgdp", pinned=True)
    _capacity_gh(ctx, repo, "heur_comhost", pinned=False)
    _capacity_adhoc(ctx, repo)
    _oneagent(ctx, repo)
    ctx.floor("R-SIG", 24)
    ctx.floor("R-RETURN", 12)
    ctx.floor("R-CAPACITY", 8)


# --------------------------------------------------------------------------- signatures / command
def _signatures(ctx, repo, methods):
    cmd = repo.module(CMD)
    run = repo.func(CMD, "run_cmd")
    calls = [c for c in ast.walk(run.node) if isinstance(c, ast.Call) and isinstance(c.func, ast.Attribute) and c.func.attr == "distribute"]
    if len(calls) != 1:
        raise AnalysisError("distribute command: call of <module>.distribute not found")
    call = calls[0]
    kws = [k.arg for k in call.keywords if k.arg]
    npos = len(call.args)
    for name, m in methods.items():
        f = m.functions["distribute"]
        ctx.check(f.params[:5] == STD, "R-SIG", f"{name}.distribute: standard parameters", f, f.node,
                  f"expected {STD} first, found {f.params[:5]}: positional callers (api, commands, other methods) bind the wrong roles")
        unbound = [k for k in kws if k not in f.params[npos:] + f.kwonly and not f.has_varkw]
        ctx.check(not unbound, "R-SIG", f"{name}.distribute accepts the keywords of the distribute command", f, f.node,
                  f"the command calls distribute(..., {', '.join(k + '=' for k in kws)}): {unbound} is not a parameter here -> TypeError instead of a distribution")
    # offered methods exist
    offered = []
    sp = repo.func(CMD, "set_parser")
    for c in ast.walk(sp.node):
        if isinstance(c, ast.Call) and call_name(c) == "add_argument" and any(isinstance(a, ast.Constant) and a.value == "--distribution" for a in c.args):
            for k in c.keywords:
                if k.arg == "choices" and isinstance(k.value, (ast.List, ast.Tuple)):
                    offered = [e.value for e in k.value.elts if isinstance(e, ast.Constant)]
    if not offered:
        raise AnalysisError("distribute command: choices of --distribution not found")
    for o in offered:
        ctx.check(o in methods, "R-SIG", f"offered method {o} exists with a distribute function", sp, sp.node, f"pydcop.distribution.{o} has no distribute()")
    # the command catches exactly the two allowed outcomes around the call
    tr = [t for t in ast.walk(run.node) if isinstance(t, ast.Try) and any(n is call for n in ast.walk(ast.Module(body=t.body, type_ignores=[])))]
    caught = set()
    for t in tr:
        for h in t.handlers:
            if h.type is not None:
                caught |= {norm(e) for e in (h.type.elts if isinstance(h.type, ast.Tuple) else [h.type])}
    ctx.check({"TimeoutError", "ImpossibleDistributionException"} <= caught, "R-SIG", "the command reports impossibility and timeout as results", run, call,
              f"handlers found: {sorted(caught)}")
    for nm, node in possibly_undefined(run):
        # `_error(...)` exits the process: a name bound on every non-_error path is fine
        ff = FuncFacts(run.node)
        defs = [s for s in ast.walk(run.node) if isinstance(s, ast.Assign) and any(isinstance(t, ast.Name) and t.id == nm for t in s.targets)]
        # accept when every if-chain branch lacking a definition ends with _error(...)
        ok = _all_undefined_branches_exit(run.node, nm)
        ctx.check(ok, "R-UNDEF", f"distribute command: `{nm}` bound before use", run, node, f"`{nm}` may be unbound here")


def _all_undefined_branches_exit(fnode, name) -> bool:
    """in the if-chain(s) assigning `name`, every branch that does not assign it ends with a call to _error (process exit)"""
    for n in ast.walk(fnode):
        if isinstance(n, ast.If):
            branches = []
            cur = n
            while True:
                branches.append(cur.body)
                if len(cur.orelse) == 1 and isinstance(cur.orelse[0], ast.If):
                    cur = cur.orelse[0]
                else:
                    branches.append(cur.orelse)
                    break
            assigns = [any(isinstance(s, ast.Assign) and any(isinstance(t, ast.Name) and t.id == name for t in s.targets) for b_ in [b] for s in ast.walk(ast.Module(body=b_, type_ignores=[]))) for b in branches]
            if any(assigns):
                for b, a in zip(branches, assigns):
                    if not a:
                        last = b[-1] if b else None
                        if not (isinstance(last, ast.Expr) and isinstance(last.value, ast.Call) and call_name(last.value) == "_error"):
                            return False
                return True
    return False


# --------------------------------------------------------------------------- returns
def _dist_expr(repo, m, f: FuncInfo, e, seen) -> bool:
    e = resolve_local(f, e)
    if isinstance(e, ast.Call):
        nm = call_name(e)
        if nm == "Distribution":
            return True
        tgt = repo.resolve_expr(m, e.func)
        if isinstance(tgt, FuncInfo) and tgt.module.name.startswith(PKG):
            if tgt.fq in seen:
                return True
            return _all_paths_return_dist(repo, tgt.module, tgt, seen | {tgt.fq})[0]
    if isinstance(e, ast.Name) and e.id in f.params and not local_defs(f, e.id):
        # a parameter: every call site inside the package must bind a Distribution-built value
        sites = []
        for m2 in repo.modules.values():
            if not m2.name.startswith(PKG):
                continue
            for g in repo.all_functions(m2):
                for c in ast.walk(g.node):
                    if isinstance(c, ast.Call) and repo.resolve_expr(m2, c.func) is f:
                        a = bound_arg(c, f, e.id, skip_self=False)
                        sites.append(a is not None and _dist_expr(repo, m2, g, a, seen))
        return bool(sites) and all(sites)
    if isinstance(e, ast.Name):
        # a local assigned several times: all definitions must be Distribution-built, in-place updates (host_on_agent) keep the type
        defs = local_defs(f, e.id)
        return bool(defs) and all(not isinstance(d, ast.AugAssign) and _dist_expr(repo, m, f, d, seen) for d in defs if not (isinstance(d, ast.Name) and d.id == e.id))
    return False


def _all_paths_return_dist(repo, m, f, seen):
    bad = []

    def hit(st):
        return 0
    o = count_paths(f.node.body, hit)
    falls = "fall" in o.k
    rets = [r for r in walk_no_nested(f.node) if isinstance(r, ast.Return)]
    for r in rets:
        if r.value is None or not _dist_expr(repo, m, f, r.value, seen):
            bad.append(r)
    return (not bad and not falls and bool(rets)), (bad[0] if bad else f.node), falls


def _returns(ctx, repo, m, f, seen):
    ok, node, falls = _all_paths_return_dist(repo, m, f, {f.fq})
    ctx.check(ok, "R-RETURN", f"{m.name.split('.')[-1]}.distribute returns a Distribution on every path", f, node,
              "a path " + ("falls off the end of the function (returns None)" if falls else "returns a value that is not built by Distribution(...)") +
              ": callers use .mapping() / .agent_for() on the result")


# --------------------------------------------------------------------------- raises
def _reachable(repo, m, root: FuncInfo):
    seen, stack = {}, [root]
    while stack:
        f = stack.pop()
        if f.fq in seen:
            continue
        seen[f.fq] = f
        for c in ast.walk(f.node):
            if isinstance(c, ast.Call):
                t = repo.resolve_expr(f.module, c.func)
                if isinstance(t, FuncInfo) and t.module.name.startswith(PKG) and t.module.name != PKG + ".objects":
                    stack.append(t)
    return list(seen.values())


def _raises(ctx, repo, m):
    root = m.functions["distribute"]
    for f in _reachable(repo, m, root):
        ctx.touch(f)
        for r in ast.walk(f.node):
            if isinstance(r, ast.Raise):
                if r.exc is None:
                    # bare re-raise inside a handler: allowed when the handler catches an allowed class
                    continue
                nm = call_name(r.exc) if isinstance(r.exc, ast.Call) else norm(r.exc)
                ctx.check(nm in ALLOWED, "R-RAISE", f"{f.module.name.split('.')[-1]}.{f.qualname}: raise {nm}", f, r,
                          f"`{nm}` is neither ImpossibleDistributionException nor TimeoutError: the property allows no other error out of distribute")


# --------------------------------------------------------------------------- retry
def _retry(ctx, repo, m):
    for f in m.functions.values():
        rec = [c for c in ast.walk(f.node) if isinstance(c, ast.Call) and isinstance(c.func, ast.Name) and c.func.id == f.name]
        if not rec:
            continue
        ff = FuncFacts(f.node)
        for c in rec:
            st = ff.stmt(c)
            ctx.check(isinstance(st, ast.Return) and st.value is c, "R-RETRY", f"{f.name}: result of the retry is returned", f, st,
                      "a retry whose result is dropped lets the failed attempt continue with a stale state")
            # the bounded counter: a parameter compared in a guard dominating the recursive call
            counters = []
            for t, pol in facts_at(ff, c):
                for n in ast.walk(t):
                    if isinstance(n, ast.Name) and n.id in f.params and isinstance(t, ast.Compare):
                        counters.append(n.id)
            ok = False
            for p in dict.fromkeys(counters):
                a = bound_arg(c, f, p, skip_self=False)
                if a is not None and isinstance(a, ast.BinOp) and isinstance(a.op, ast.Add) and norm(a.left) == p and isinstance(a.right, ast.Constant) and a.right.value > 0:
                    ok = True
            ctx.check(ok, "R-RETRY", f"{f.name}: the retry passes <counter> + 1 in the counter's own position", f, c,
                      f"the recursion is bounded by a test on {sorted(set(counters)) or 'a counter parameter'}: if the incremented value lands in another parameter the bound is never reached "
                      "(RecursionError instead of ImpossibleDistributionException)")
            # every other parameter is passed through unchanged in its own position
            for i, p in enumerate(f.params):
                a = bound_arg(c, f, p, skip_self=False)
                if p in counters or a is None:
                    continue
                ctx.check(norm(a) == p or p == "communication_load", "R-RETRY", f"{f.name}: retry passes `{p}` through", f, c,
                          f"parameter `{p}` receives `{norm(a)}` on retry")


# --------------------------------------------------------------------------- hints
HINT_SCOPE = ("oneagent", "adhoc", "heur_comhost", "gh_cgdp", "ilp_fgdp", "ilp_compref", "ilp_compref_fg", "oilp_cgdp")


def _hints(ctx, repo, name, m):
    # the SECP-specialised methods (gh_secp_*, oilp_secp_*) only accept SECP-shaped problems whose placement rules are
    # expressed through hosting costs; the property names the general-purpose methods
    if name not in HINT_SCOPE:
        return
    f = m.functions["distribute"]
    used = [n for n in ast.walk(f.node) if isinstance(n, ast.Name) and n.id == "hints" and isinstance(n.ctx, ast.Load)]
    ctx.check(bool(used), "R-HINTS", f"{name}.distribute uses its hints argument", f, f.node,
              "the hints parameter is never read: the returned mapping cannot honour must-host hints", text="hints never read")


# --------------------------------------------------------------------------- capacity: gh_cgdp / heur_comhost
def _capacity_gh(ctx, repo, name, pinned):
    mod = PKG + "." + name
    d = repo.func(mod, "distribute")
    ch = repo.func(mod, "candidate_hosts")
    ctx.touch(d)
    ctx.touch(ch)
    ffc = FuncFacts(ch.node)
    # candidate_hosts: for agt in agents: capa = agt.capacity; deductions; `if capa < footprint: continue`; candidates.append((cost, agt))
    p_fp, p_agents, p_map = ch.params[1], ch.params[3], ch.params[5]
    loops = [l for l in ch.node.body if isinstance(l, ast.For) and norm(l.iter) == p_agents and isinstance(l.target, ast.Name)]
    if len(loops) != 1:
        ctx.bad("R-CAPACITY", f"{name}.candidate_hosts: loop over the agents", ch, ch.node, "candidate agents must be examined one by one")
        return
    l = loops[0]
    av = l.target.id
    inits = [s for s in l.body if isinstance(s, ast.Assign) and isinstance(s.targets[0], ast.Name) and norm(s.value) == f"{av}.capacity"]
    if len(inits) != 1:
        ctx.bad("R-CAPACITY", f"{name}.candidate_hosts: remaining capacity starts from the agent's capacity", ch, l, "")
        return
    capa = inits[0].targets[0].id
    i0 = l.body.index(inits[0])
    # deductions: every write to capa after the init
    writes = [n for n in ast.walk(l) if isinstance(n, (ast.Assign, ast.AugAssign)) and n is not inits[0] and
              any(isinstance(t, ast.Name) and t.id == capa for t in (n.targets if isinstance(n, ast.Assign) else [n.target]))]
    sources = {}
    okw = True
    for w in writes:
        if not (isinstance(w, ast.AugAssign) and isinstance(w.op, ast.Sub)):
            okw = False
            continue
        gs = ffc.guards_at(w)
        fl = [g for g in gs if g.kind == "for" and g.node is not l]
        cond = [(norm(t), p) for t, p in facts_at(ffc, w)]
        if len(fl) == 1 and fl[0].node in l.body:
            src = norm(fl[0].test)
            tgt = fl[0].node.target
            names = [norm(e) for e in ast.walk(tgt) if isinstance(e, ast.Name)]
            same_agent = any((f"{a} == {av}.name", True) in cond for a in names)
            only = [c for c in cond if av in c[0] and not c[0].startswith(capa)]
            sources[src] = same_agent and len(only) == 1
        else:
            okw = False
    need = [f"{p_map}.items()"] + ([f"{ch.params[6]}.items()"] if pinned else [])
    ctx.check(okw and all(sources.get(s) for s in need), "R-CAPACITY", f"{name}.candidate_hosts: remaining capacity = capacity - every footprint already on the agent" + (" (placed and pinned)" if pinned else ""), ch,
              (writes or [inits[0]])[0],
              f"the remaining capacity must be decreased, by accumulation (`-=` inside a loop over {need} guarded by `<agent of the entry> == {av}.name`), for every computation already on the agent; "
              "an overwriting dict/total or a missing source under-counts and lets the method return an over-capacity mapping")
    # the capacity test and the only way into the candidate list
    apps = [c for c in ast.walk(l) if isinstance(c, ast.Call) and norm(c.func) == "candidates.append"]
    ok = len(apps) == 1
    if ok:
        fs = {(norm(t), p) for t, p in facts_at(ffc, apps[0])}
        ok = (f"{capa} < {p_fp}", False) in fs or (f"{capa} >= {p_fp}", True) in fs or (f"{p_fp} <= {capa}", True) in fs or (f"{p_fp} > {capa}", False) in fs
        tup = apps[0].args[0]
        ok = ok and isinstance(tup, ast.Tuple) and norm(tup.elts[-1]) == av
        # the test comes after all deductions
        st_app = ffc.stmt(apps[0])
        last_w = max([w.lineno for w in writes] or [0])
        tests = [s for s in l.body if isinstance(s, ast.If) and capa in norm(s.test) and p_fp in norm(s.test)]
        ok = ok and len(tests) == 1 and tests[0].lineno > last_w
    ctx.check(ok, "R-CAPACITY", f"{name}.candidate_hosts: an agent is a candidate only if its remaining capacity admits the footprint", ch, apps[0] if apps else l,
              f"`{capa} < {p_fp}` must exclude the agent, after all deductions")
    # candidates list only filtered / re-ordered afterwards (never extended with other agents)
    later = [s for s in ch.node.body[ch.node.body.index(l) + 1:]]
    bad = [s for s in later if any(isinstance(c, ast.Call) and norm(c.func) in ("candidates.append", "candidates.extend", "candidates.insert") for c in ast.walk(s))
           or (isinstance(s, ast.Assign) and norm(s.targets[0]) == "candidates" and not _derived_from(s.value, "candidates"))]
    ctx.check(not bad, "R-CAPACITY", f"{name}.candidate_hosts: the returned list only reorders the capacity-checked candidates", ch, (bad or [ch.node])[0], "")
    # distribute: every placement takes its agent from candidate_hosts
    ffd = FuncFacts(d.node)
    places = [s for s in ast.walk(d.node) if isinstance(s, ast.Assign) and isinstance(s.targets[0], ast.Subscript) and norm(s.targets[0].value) == "current_mapping"]
    ok = len(places) == 1
    if ok:
        sel = norm(places[0].value)
        ok = sel.endswith(".name")
        selv = sel[:-5]
        srcs = [s for s in ast.walk(d.node) if isinstance(s, ast.Assign) and isinstance(s.targets[0], ast.Tuple) and selv in [norm(e) for e in s.targets[0].elts]]
        ok = ok and len(srcs) == 1 and norm(srcs[0].value) in ("candidates.pop()", "candidates[-1]", "candidates.pop(-1)")
        cd = [s for s in ast.walk(d.node) if isinstance(s, ast.Assign) and norm(s.targets[0]) == "candidates" and isinstance(s.value, ast.Call)]
        ok = ok and len(cd) == 1 and call_name(cd[0].value) == "candidate_hosts"
        if ok:
            c = cd[0].value
            want = {"computation": "computation", "footprint": "footprint", "computations": "computations", "agents": d.params[1], "mapping": "current_mapping"}
            if pinned:
                want["fixed_mapping"] = "fixed_mapping"
            for pn, val in want.items():
                a = bound_arg(c, ch, pn, skip_self=False)
                ok = ok and a is not None and norm(a) == val
    ctx.check(ok, "R-CAPACITY", f"{name}.distribute: a computation is only placed on an agent popped from its capacity-checked candidate list", d, places[0] if places else d.node,
              "the candidate list must be computed by candidate_hosts for this computation, its footprint, the current mapping" + (" and the pinned computations" if pinned else ""))
    # backtracking un-places before re-placing; impossible when the first computation has no candidate
    raises = [r for r in ast.walk(d.node) if isinstance(r, ast.Raise) and "ImpossibleDistributionException" in norm(r)]
    okb = any(("candidates", False) in {(norm(t), p) for t, p in facts_at(ffd, r)} or ("not candidates", True) in {(norm(t), p) for t, p in facts_at(ffd, r)} for r in raises)
    ctx.check(okb, "R-CAPACITY", f"{name}.distribute: no candidate for the first computation => ImpossibleDistributionException", d, (raises or [d.node])[0], "")
    # backtracking: what is un-placed is the computation at the index reached AFTER stepping back (the one that is in the mapping)
    dec = [s for s in ast.walk(d.node) if isinstance(s, ast.AugAssign) and isinstance(s.op, ast.Sub) and norm(s.target) == "i"]
    okk = len(dec) == 1
    if okk:
        blk = _block_of(d.node, dec[0])
        k = blk.index(dec[0])
        uses = []   # (statement index, expression) of every evaluation of computations[i] feeding a lookup / removal in current_mapping
        for j, st in enumerate(blk):
            for x in ast.walk(st):
                key = None
                if isinstance(x, ast.Call) and norm(x.func) in ("current_mapping.pop", "current_mapping.__delitem__") and x.args:
                    key = x.args[0]
                elif isinstance(x, ast.Subscript) and norm(x.value) == "current_mapping" and isinstance(x.ctx, (ast.Load, ast.Del)):
                    key = x.slice
                if key is None:
                    continue
                if "computations[i]" in norm(key):
                    uses.append((j, x))
                for nm in {n.id for n in ast.walk(key) if isinstance(n, ast.Name)}:
                    for jj, st2 in enumerate(blk):
                        if isinstance(st2, ast.Assign) and norm(st2.targets[0]) == nm and "computations[i]" in norm(st2.value):
                            uses.append((jj, st2))
        pops = [x for st in blk for x in ast.walk(st) if isinstance(x, ast.Call) and norm(x.func) == "current_mapping.pop"]
        okk = bool(uses) and len(pops) == 1 and all(j > k for j, _ in uses) and (k == 0 or not any(isinstance(x, ast.Name) and x.id == "i" and isinstance(x.ctx, ast.Store) for st in blk[k + 1:] for x in ast.walk(st)))
        bad_use = next((x for j, x in uses if j <= k), None)
    ctx.check(okk, "R-CAPACITY", f"{name}.distribute: backtracking un-places the computation at the previous index (read after `i -= 1`)", d, (bad_use if okk is False and dec and bad_use is not None else (dec or [d.node])[0]),
              "computations[i] read before the decrement is the computation that could NOT be placed: it is not in current_mapping and the lookup raises KeyError "
              "instead of backtracking / ImpossibleDistributionException")
    # completeness
    comp_defs = [s for s in d.node.body if isinstance(s, ast.Assign) and norm(s.targets[0]) == "computations" and isinstance(s.value, ast.ListComp)]
    ok = bool(comp_defs)
    if ok:
        lc = comp_defs[0].value
        g = lc.generators[0]
        nv = norm(g.target)
        ok = norm(g.iter) == f"{d.params[0]}.nodes"
        filt = [norm(c) for c in g.ifs]
        ok = ok and (filt == [f"{nv}.name not in fixed_mapping"] if pinned else filt == [])
    wl = [s for s in d.node.body if isinstance(s, ast.While)]
    ok = ok and len(wl) == 1 and norm(wl[0].test) in ("len(current_mapping) != len(computations)", "len(current_mapping) < len(computations)")
    ctx.check(ok, "R-COMPLETE", f"{name}.distribute: places every " + ("non-pinned " if pinned else "") + "node of the graph before returning", d, comp_defs[0] if comp_defs else d.node,
              "the work list must hold every node" + (" that is not pinned" if pinned else "") + " and the loop must run until each has an agent")
    merges = {}
    for lp in d.node.body:
        if isinstance(lp, ast.For) and any(isinstance(c, ast.Call) and norm(c.func).startswith("agt_mapping[") and c.func.attr == "append" for c in ast.walk(lp) if isinstance(c, ast.Call) and isinstance(c.func, ast.Attribute)):
            merges[norm(lp.iter)] = lp
    need = ["current_mapping.items()"] + (["fixed_mapping.items()"] if pinned else [])
    ok = all(n in merges for n in need)
    for n in need:
        if n in merges:
            lp = merges[n]
            names = [norm(e) for e in ast.walk(lp.target) if isinstance(e, ast.Name)]
            app = [c for c in ast.walk(lp) if isinstance(c, ast.Call) and isinstance(c.func, ast.Attribute) and c.func.attr == "append"][0]
            ok = ok and norm(app.func.value) == f"agt_mapping[{names[1]}]" and norm(app.args[0]) == names[0] and len(lp.body) == 1
    ctx.check(ok, "R-COMPLETE", f"{name}.distribute: the result holds the placed" + (" and the pinned" if pinned else "") + " computations, each under its agent", d, d.node, "")
    if pinned:
        # pinned: zero hosting cost, one agent per computation, feasibility test raising
        fm = [s for s in ast.walk(d.node) if isinstance(s, ast.Assign) and isinstance(s.targets[0], ast.Subscript) and norm(s.targets[0].value) == "fixed_mapping"]
        ok = len(fm) == 1
        if ok:
            fs = {(norm(t), p) for t, p in facts_at(ffd, fm[0])}
            ok = any(t.endswith(f".hosting_cost({norm(fm[0].targets[0].slice)}) == 0") and p for t, p in fs)
            tup = fm[0].value
            ok = ok and isinstance(tup, ast.Tuple) and len(tup.elts) == 2 and norm(tup.elts[0]).endswith(".name") and norm(tup.elts[1]) == f"{d.params[3]}({d.params[0]}.computation({norm(fm[0].targets[0].slice)}))"
        ctx.check(ok, "R-CAPACITY", "gh_cgdp: pinned computations recorded as computation -> (agent, footprint)", d, fm[0] if fm else d.node,
                  "candidate_hosts deducts the second slot from the agent named by the first")
        chk = [r for r in raises if any(g.kind == "for" for g in ffd.guards_at(r)) and any("capacity" in norm(t) for t, p in facts_at(ffd, r))]
        ok = False
        node = d.node
        for r in chk:
            node = r
            fs = facts_at(ffd, r)
            for t, p in fs:
                if isinstance(t, ast.Compare) and p and isinstance(t.ops[0], (ast.Gt, ast.GtE)) and norm(t.comparators[0]).endswith(".capacity"):
                    tot = resolve_local(d, t.left)
                    gsl = [g for g in ffd.guards_at(r) if g.kind == "for"]
                    tot_defs = [s.value for s in ast.walk(gsl[0].node) if isinstance(s, ast.Assign) and norm(s.targets[0]) == norm(t.left)] if gsl else []
                    tt = norm(tot_defs[0]) if tot_defs else norm(tot)
                    av = norm(gsl[0].node.target) if gsl else ""
                    ok = tt == f"sum((f for a, f in fixed_mapping.values() if a == {av}.name))" and norm(gsl[0].test) == d.params[1] and norm(t.comparators[0]) == f"{av}.capacity" \
                        and r.lineno < (wl[0].lineno if wl else 0)
        ctx.check(ok, "R-CAPACITY", "gh_cgdp: the computations pinned on an agent must fit its capacity, else ImpossibleDistributionException", d, node,
                  "pinned computations are placed without consulting candidate_hosts: their total footprint per agent must be tested (sum over *all* of them) before the greedy phase")


def _derived_from(e, name) -> bool:
    """expression only filters / reorders / projects `name`"""
    if isinstance(e, (ast.ListComp, ast.GeneratorExp)) and len(e.generators) == 1:
        return norm(e.generators[0].iter) == name
    if isinstance(e, ast.Call) and call_name(e) in ("sorted", "list", "reversed") and e.args:
        return norm(e.args[0]) == name or _derived_from(e.args[0], name)
    return False


def _kinds(ctx, repo, name, m):
    """names bound by iterating hints.host_with(..) / hints.must_host(..) (or one element of them) are computation names"""
    for f in repo.all_functions(m):
        comp = {}
        for x in ast.walk(f.node):
            it, tgt = None, None
            if isinstance(x, (ast.For, ast.comprehension)):
                it, tgt = x.iter, x.target
            if it is not None and isinstance(it, ast.Call) and isinstance(it.func, ast.Attribute) and it.func.attr in ("host_with", "must_host") and isinstance(tgt, ast.Name):
                comp[tgt.id] = (x, it.func.attr)
        if not comp:
            continue
        # per-agent tables: subscripted by the loop variable of `for a in <agents table>` somewhere in the function
        for x in ast.walk(f.node):
            if isinstance(x, ast.Subscript) and isinstance(x.slice, ast.Name) and x.slice.id in comp and isinstance(x.value, ast.Name) and x.value.id in ("agents_capa", "mapping", "agents_capacity"):
                owner, api = comp[x.slice.id]
                # the binding must be the one in scope: a comprehension variable is only visible inside its comprehension
                scope = owner if isinstance(owner, ast.For) else next((c for c in ast.walk(f.node) if isinstance(c, (ast.ListComp, ast.SetComp, ast.GeneratorExp, ast.DictComp)) and owner in c.generators), None)
                if scope is None or not any(n is x for n in ast.walk(scope)):
                    continue
                ctx.bad("R-KINDS", f"{name}.{f.qualname}: `{norm(x)}` with `{x.slice.id}` from hints.{api}(..)", f, x,
                        f"hints.{api}() returns computation names; `{norm(x.value)}` is keyed by agent names: KeyError as soon as a hint reaches this line")
        ctx.ok("R-KINDS", f"{name}.{f.qualname}: {len(comp)} hint-bound names", f, f.node, sample=False)


# --------------------------------------------------------------------------- capacity: adhoc
def _capacity_adhoc(ctx, repo):
    mod = PKG + ".adhoc"
    f = repo.func(mod, "_distribute_try")
    ctx.touch(f)
    ff = FuncFacts(f.node)
    capa = "agents_capa"
    # every placement site: mapping[X].add(..) / .update(..)
    sites = [c for c in ast.walk(f.node) if isinstance(c, ast.Call) and isinstance(c.func, ast.Attribute) and c.func.attr in ("add", "update", "append")
             and isinstance(c.func.value, ast.Subscript) and norm(c.func.value.value) == "mapping"]
    if len(sites) < 3:
        raise AnalysisError("adhoc._distribute_try: placement sites not found")
    n_checked = n_pinned = 0
    for c in sites:
        agent = norm(c.func.value.slice)
        st = ff.stmt(c)
        blk = _block_of(f.node, st)
        i = blk.index(st)
        after = blk[i + 1:]
        # (a) agent chosen from candidates filtered by remaining capacity > footprint
        chosen = _selected_from_capacity_filter(f, ff, c, agent)
        # (b) followed in the same block by a deduction on that agent and `if agents_capa[agent] < 0: raise Impossible`
        ded = [s for s in after if isinstance(s, ast.AugAssign) and isinstance(s.op, ast.Sub) and norm(s.target) == f"{capa}[{agent}]"]
        tst = [s for s in after if isinstance(s, ast.If) and norm(s.test) in (f"{capa}[{agent}] < 0", f"0 > {capa}[{agent}]") and any(isinstance(r, ast.Raise) and "ImpossibleDistributionException" in norm(r) for r in s.body)]
        post = bool(ded) and bool(tst) and blk.index(tst[0]) > blk.index(ded[-1])
        if chosen:
            n_checked += 1
        if post:
            n_pinned += 1
        ctx.check(chosen or post, "R-CAPACITY", f"adhoc: placement on `{agent}` is capacity-checked", f, st,
                  "a computation is put on an agent either chosen among agents with enough remaining capacity, or (hinted placement) with the "
                  "remaining capacity decreased and tested (< 0 => ImpossibleDistributionException) right after")
    ctx.check(n_checked >= 1 and n_pinned >= 2, "R-CAPACITY", "adhoc: greedy placement filtered by capacity, hinted placements tested afterwards", f, f.node, f"filtered={n_checked} tested-after={n_pinned}")
    # exactly once: every name added to mapping[A] is known not to be hosted yet at that point, or A is the agent recorded as its host
    for c in sites:
        agent = c.func.value.slice
        fs = {(norm(t), p) for t, p in facts_at(ff, c)}
        added = []
        for a in c.args:
            added += list(a.elts) if isinstance(a, (ast.Set, ast.List, ast.Tuple)) else [a]
        adef = resolve_local(f, agent) if isinstance(agent, ast.Name) else agent
        for e in added:
            t = norm(e)
            free = (f"{t} in var_hosted", False) in fs or (f"{t} not in var_hosted", True) in fs
            defs = [d for d in ast.walk(f.node) if isinstance(d, ast.Assign) and isinstance(agent, ast.Name) and norm(d.targets[0]) == agent.id
                    and any(any(n is c for n in ast.walk(l)) and any(n is d for n in ast.walk(l)) for l in f.node.body if isinstance(l, ast.For))]
            def _fs(d):
                return {(norm(a_), b_) for a_, b_ in facts_at(ff, d)}
            joins = bool(defs) and all((norm(d.value) == f"var_hosted[{t}]" and (f"{t} in var_hosted", True) in _fs(d)) or (f"{t} in var_hosted", False) in _fs(d) for d in defs) \
                and any(norm(d.value) == f"var_hosted[{t}]" for d in defs)
            pinned = isinstance(e, ast.Name) and any(isinstance(l, ast.For) and isinstance(l.iter, ast.Call) and norm(l.iter.func) == "hints.must_host" and norm(l.target) == e.id and any(n is c for n in ast.walk(l))
                                                     for l in ast.walk(f.node))
            ctx.check(free or joins or pinned, "R-ONCE", f"adhoc: `{t}` added to mapping[{norm(agent)}]", f, ff.stmt(c),
                      f"`{t}` may already be hosted on another agent (e.g. through a must_host hint): adding it here hosts it twice and Distribution() raises ValueError; "
                      "it must be known unhosted on this path, or the agent must be the one recorded in var_hosted")
    # every node placed: the main loop ranges over all nodes, skips only hosted ones, and every non-raising path records the node
    loops = [l for l in f.node.body if isinstance(l, ast.For) and norm(l.iter) == "nodes"]
    nd = local_defs(f, "nodes")
    ok = len(loops) == 2 and len(nd) == 1 and norm(nd[0]) == f"list({f.params[0]}.nodes)"
    if ok:
        l = loops[1]
        nv = norm(l.target)
        for p in stmt_paths(l.body):
            if p.exit in ("raise", "return"):
                continue
            if p.exit == "continue":
                ok = ok and p.has_fact(f"{nv}.name in var_hosted", True)
            else:
                rec = [s for s in p.stmts if isinstance(s, ast.Assign) and norm(s.targets[0]) == f"var_hosted[{nv}.name]"]
                plc = [s for s in p.stmts if any(isinstance(c, ast.Call) and norm(c.func).startswith("mapping[") for c in ast.walk(s))]
                ok = ok and len(rec) == 1 and len(plc) == 1 and norm(rec[0].value) == norm(plc[0].value.func.value.slice)
    ctx.check(ok, "R-COMPLETE", "adhoc: every node not already hosted is placed on the selected agent and recorded, on every path", f, loops[1] if len(loops) == 2 else f.node, "")
    r = [x for x in f.node.body if isinstance(x, ast.Return)]
    ctx.check(len(r) == 1 and norm(r[0].value) == "Distribution({a: list(mapping[a]) for a in mapping})", "R-COMPLETE", "adhoc: result is the whole mapping", f, r[0] if r else f.node, "")
    # must_host hints honoured
    mh = [l for l in ast.walk(f.node) if isinstance(l, ast.For) and norm(l.iter).startswith("hints.must_host(")]
    ok = len(mh) == 1
    if ok:
        a = norm(mh[0].iter)[len("hints.must_host("):-1]
        cv = norm(mh[0].target)
        ok = any(isinstance(c, ast.Call) and norm(c.func) == f"mapping[{a}].add" and norm(c.args[0]) == cv for c in ast.walk(mh[0]))
        outer = [g for g in ff.guards_at(mh[0]) if g.kind == "for"]
        ok = ok and len(outer) == 1 and norm(outer[0].node.target) == a and norm(outer[0].test) == capa and not [g for g in ff.guards_at(mh[0]) if g.kind == "if"]
    ctx.check(ok, "R-HINTS", "adhoc: every must_host computation of every agent is placed on that agent", f, mh[0] if mh else f.node, "")
    d = repo.func(mod, "distribute")
    calls = [c for c in ast.walk(d.node) if isinstance(c, ast.Call) and call_name(c) == "_distribute_try"]
    ok = len(calls) == 1
    if ok:
        for pn, val in (("computation_graph", d.params[0]), ("agents", "agents"), ("hints", "hints"), ("computation_memory", d.params[3])):
            a = bound_arg(calls[0], f, pn, skip_self=False)
            ok = ok and a is not None and norm(a) == val
        a = bound_arg(calls[0], f, "attempt", skip_self=False)
        ok = ok and (a is None or (isinstance(a, ast.Constant) and a.value == 0))
    ctx.check(ok, "R-RETRY", "adhoc.distribute starts the first attempt with the counter at 0 and its own arguments", d, calls[0] if calls else d.node, "")


def _block_of(fnode, st):
    for n in ast.walk(fnode):
        for fld in ("body", "orelse", "finalbody"):
            blk = getattr(n, fld, None)
            if isinstance(blk, list) and any(s is st for s in blk):
                return blk
    return [st]


def _selected_from_capacity_filter(f, ff, site, agent) -> bool:
    """agent == selected where selected = scores[0][2]; scores built from candidates; candidates = [... if agents_capa[a] > footprint] on every definition"""
    if agent != "selected":
        return False
    defs = []
    st = ff.stmt(site)
    # the definition reaching the site: the assignments to `selected` in the same loop body
    loop = next((g.node for g in reversed(ff.guards_at(site)) if g.kind == "for"), None)
    if loop is None:
        return False
    sel = [s for s in ast.walk(loop) if isinstance(s, ast.Assign) and norm(s.targets[0]) == "selected"]
    if not sel:
        return False
    for s in sel:
        if norm(s.value) != "scores[0][2]":
            return False
    sc = [c for c in ast.walk(loop) if isinstance(c, ast.Call) and norm(c.func) == "scores.append"]
    if len(sc) != 1:
        return False
    g = [x for x in ff.guards_at(sc[0]) if x.kind == "for" and x.node is not loop]
    if not g or norm(g[0].test) != "candidates":
        return False
    tv = [norm(e) for e in g[0].node.target.elts] if isinstance(g[0].node.target, ast.Tuple) else []
    tup = sc[0].args[0]
    if not (isinstance(tup, ast.Tuple) and len(tup.elts) == 3 and len(tv) == 2 and norm(tup.elts[2]) == tv[1]):
        return False
    cds = [s for s in ast.walk(loop) if isinstance(s, ast.Assign) and norm(s.targets[0]) == "candidates"]
    if not cds:
        return False
    for s in cds:
        v = s.value
        if not (isinstance(v, ast.ListComp) and len(v.generators) == 1 and len(v.generators[0].ifs) == 1):
            return False
        cond = v.generators[0].ifs[0]
        elt = v.elt
        if not (isinstance(elt, ast.Tuple) and len(elt.elts) == 2):
            return False
        a = norm(elt.elts[1])
        ctext = norm(cond)
        good = ctext in (f"agents_capa[{a}] > footprint", f"agents_capa[{a}] >= footprint", f"{norm(elt.elts[0])} > footprint", f"{norm(elt.elts[0])} >= footprint")
        if isinstance(elt.elts[0], ast.Name) and ctext.startswith(norm(elt.elts[0]) + " "):
            # (c, a) for a, c in agents_capa.items()
            good = good and norm(v.generators[0].iter) == "agents_capa.items()" and [norm(e) for e in v.generators[0].target.elts] == [a, norm(elt.elts[0])]
        if not good:
            return False
    fp = local_defs(f, "footprint")
    return len(fp) == 1 and norm(fp[0]).startswith(f"{f.params[3]}(")


# --------------------------------------------------------------------------- oneagent
def _oneagent(ctx, repo):
    f = repo.func(PKG + ".oneagent", "distribute")
    ctx.touch(f)
    ff = FuncFacts(f.node)
    r = [x for x in ast.walk(f.node) if isinstance(x, ast.Raise)]
    ok = any(("len(agents) < len(computation_graph.nodes)", True) in {(norm(t), p) for t, p in facts_at(ff, x)} for x in r)
    zl = [l for l in f.node.body if isinstance(l, ast.For) and norm(l.iter) == "zip(computation_graph.nodes, agent_names)"]
    ok = ok and len(zl) == 1 and "agent_names = [a.name for a in agents]" in norm(f.node) and "agents = list(agentsdef)" in norm(f.node)
    if ok:
        n, a = [norm(e) for e in zl[0].target.elts]
        ok = [norm(s) for s in zl[0].body] == [f"distribution[{a}].append({n}.name)"]
    ctx.check(ok, "R-COMPLETE", "oneagent: fewer agents than computations => impossible; otherwise node i on agent i", f, zl[0] if zl else f.node,
              "zip stops at the shorter sequence: without the length test some computations would silently stay unplaced")


_D = "pydcop/distribution/"
VARIANTS = [
    ("fgdp_all_pinned_shortcut", _D + "ilp_fgdp.py", "    # x_i^k : binary variable indicating if var x_i is hosted on agent a_k.\n    xs = _build_xs_binvar(vars_to_host, agents_names)", "    if not vars_to_host and not facs_to_host:\n        return fixed_dist\n    # x_i^k : binary variable indicating if var x_i is hosted on agent a_k.\n    xs = _build_xs_binvar(vars_to_host, agents_names)", "break", "R-SOLVED"),
    ("yaml_must_host_keyed_by_stale_name", "pydcop/dcop/yamldcop.py", "        must_host = loaded[\"must_host\"]\n", "        must_host = {\n            a: list(computations)\n            for agt, computations in loaded[\"must_host\"].items()\n        }\n", "break", "R-"),
    ("n_yaml_must_host_copied", "pydcop/dcop/yamldcop.py", "        must_host = loaded[\"must_host\"]\n", "        must_host = {\n            agt: list(computations)\n            for agt, computations in loaded[\"must_host\"].items()\n        }\n", "neutral"),
    ("heur_backtrack_reads_before_stepping_back", _D + "heur_comhost.py", "            i -= 1\n            logger.info(", "            previous = computations[i][1]\n            i -= 1\n            current_mapping.get(previous.name)\n            logger.info(", "neutral"),
    ("heur_backtrack_unplaces_failed_computation", _D + "heur_comhost.py", ["            i -= 1\n            logger.info(", "            current_mapping.pop(computations[i][1].name)\n"], ["            previous = computations[i][1]\n            i -= 1\n            logger.info(", "            current_mapping.pop(previous.name)\n"], "break", "R-CAPACITY"),
    ("adhoc_hostwith_var_hosted_twice", _D + "adhoc.py", "            if hostwith[0] in var_hosted:\n                # The variable is already hosted (e.g. by a must_host hint):\n                # the factor joins it, the variable must not be hosted twice.\n                selected = var_hosted[hostwith[0]]\n            elif candidates:",
     "            if candidates:", "break", "R-ONCE"),
    ("adhoc_hints_used_as_agents", _D + "adhoc.py", "        candidates = [(agents_capa[a], a) for a in hinted\n", "        candidates = [(agents_capa[a], a) for a in hints.host_with(n.name)\n", "break", "R-KINDS"),
    ("adhoc_hostwith_store_before_test", _D + "adhoc.py", "            var_hosted[n.name] = selected\n            if hostwith[0] not in var_hosted:\n                agents_capa[selected] -= computation_memory(\n                    computation_graph.computation(hostwith[0]))\n            var_hosted[hostwith[0]] = selected\n",
     "            var_hosted[n.name] = selected\n            var_hosted[hostwith[0]] = selected\n            if hostwith[0] not in var_hosted:\n                agents_capa[selected] -= computation_memory(\n                    computation_graph.computation(hostwith[0]))\n", "break", "R-DEADTEST"),
    ("gh_fixed_load_overwrites", _D + "gh_cgdp.py", "        capa = agt.capacity\n        for c, a in mapping.items():\n            if a == agt.name:\n                c_footprint = next(f for f, comp, _ in computations if comp.name == c)\n                capa -= c_footprint\n        for c, (a, f) in fixed_mapping.items():\n            if a == agt.name:\n                capa -= f\n",
     "        capa = agt.capacity - {a: f for a, f in fixed_mapping.values()}.get(agt.name, 0)\n        for c, a in mapping.items():\n            if a == agt.name:\n                c_footprint = next(f for f, comp, _ in computations if comp.name == c)\n                capa -= c_footprint\n", "break", "R-CAPACITY"),
    ("gh_pinned_not_deducted", _D + "gh_cgdp.py", "        for c, (a, f) in fixed_mapping.items():\n            if a == agt.name:\n                capa -= f\n", "", "break", "R-CAPACITY"),
    ("gh_capacity_test_dropped", _D + "gh_cgdp.py", "        if capa < footprint:\n            continue\n\n        # compute cost of assigning computation to agt\n        hosting_cost = agt.hosting_cost(computation.name)\n        comm_cost = 0\n        for l in computation.links:\n            for n in l.nodes:\n                if n in mapping:\n                    comm_cost += communication_load(computation, n) * agt.route(\n                        mapping[n]\n                    )\n        cost = RATIO_HOST_COMM * comm_cost + (1 - RATIO_HOST_COMM) * hosting_cost\n        candidates.append((cost, agt))\n\n    # Avoid sorting ties by name by adding a random element in the tuple.\n    # Otherwise, when agents have the same capacity, agents with names sorted first\n    # will always get more computations.\n    candidates = [(c, a, random.random()) for c, a in candidates]\n    candidates.sort(key=lambda o: (o[0], o[2]), reverse=True)\n    candidates = [t[:-1] for t in candidates]\n\n    return candidates",
     "        # compute cost of assigning computation to agt\n        hosting_cost = agt.hosting_cost(computation.name)\n        comm_cost = 0\n        for l in computation.links:\n            for n in l.nodes:\n                if n in mapping:\n                    comm_cost += communication_load(computation, n) * agt.route(\n                        mapping[n]\n                    )\n        cost = RATIO_HOST_COMM * comm_cost + (1 - RATIO_HOST_COMM) * hosting_cost\n        candidates.append((cost, agt))\n\n    candidates = [(c, a, random.random()) for c, a in candidates]\n    candidates.sort(key=lambda o: (o[0], o[2]), reverse=True)\n    candidates = [t[:-1] for t in candidates]\n\n    return candidates", "break", "R-CAPACITY"),
    ("gh_pinned_feasibility_dropped", _D + "gh_cgdp.py", "        if fixed_footprint > agent.capacity:\n            raise ImpossibleDistributionException(\n                f\"Impossible Distribution, not enough capacity on {agent.name} \"\n                f\"for the computations that must be hosted on it\"\n            )\n", "        pass\n", "break", "R-CAPACITY"),
    ("gh_pinned_left_out_of_result", _D + "gh_cgdp.py", "    for c, (a, _) in fixed_mapping.items():\n        agt_mapping[a].append(c)\n", "", "break", "R-COMPLETE"),
    ("gh_worklist_keeps_pinned", _D + "gh_cgdp.py", "        for n in computation_graph.nodes\n        if n.name not in fixed_mapping\n    ]", "        for n in computation_graph.nodes\n    ]", "break", "R-COMPLETE"),
    ("heur_wrong_mapping_passed", _D + "heur_comhost.py", "                communication_load,\n                current_mapping,\n            )", "                communication_load,\n                {},\n            )", "break", "R-CAPACITY"),
    ("heur_value_error", _D + "heur_comhost.py", "                raise ImpossibleDistributionException(\"Impossible Distribution !\")", "                raise ValueError(\"Impossible Distribution !\")", "break", "R-RAISE"),
    ("adhoc_retry_counter_misplaced", _D + "adhoc.py", "                return _distribute_try(computation_graph, agents, hints,\n                                       computation_memory, computation_graph,\n                                       attempt+1)",
     "                return _distribute_try(computation_graph, agents, hints,\n                                       computation_memory, attempt+1)", "break", "R-RETRY"),
    ("adhoc_retry_result_dropped", _D + "adhoc.py", "                return _distribute_try(computation_graph, agents, hints,", "                _distribute_try(computation_graph, agents, hints,", "break", "R-"),
    ("adhoc_must_host_unchecked", _D + "adhoc.py", "            if agents_capa[a] < 0:\n                raise ImpossibleDistributionException(\n                    'Not enough capacity on {} for the computations it '\n                    'must host'.format(a))\n", "", "break", "R-CAPACITY"),
    ("adhoc_fallback_unfiltered", _D + "adhoc.py", "            candidates = [(c, a) for a, c in agents_capa.items()\n                          if c > footprint]", "            candidates = [(c, a) for a, c in agents_capa.items()]", "break", "R-CAPACITY"),
    ("adhoc_hints_only_first_agent", _D + "adhoc.py", "    for a in agents_capa:\n        for c in hints.must_host(a):", "    for a in list(agents_capa)[:1]:\n        for c in hints.must_host(a):", "break", "R-HINTS"),
    ("oneagent_no_length_test", _D + "oneagent.py", "    if len(agents) < len(computation_graph.nodes):\n        raise ImpossibleDistributionException(\n            'Not enough agents for one agent for each computation : {} < {}'\n                .format(len(agents),len(computation_graph.nodes)))\n", "", "break", "R-COMPLETE"),
    ("ilp_timeout_param_removed", _D + "ilp_fgdp.py", "               communication_load=None,\n               timeout=None):", "               communication_load=None):", "break", "R-SIG"),
    ("oilp_returns_mapping_dict", _D + "oilp_cgdp.py", "    return Distribution(\n        ilp_cgdp(", "    return dict(\n        ilp_cgdp(", "break", "R-RETURN"),
    ("compref_old_pulp_import", _D + "ilp_compref.py", "from pulp import GLPK_CMD\n", "from pulp.solvers import GLPK_CMD\n", "break", "R-API"),
    ("adhoc_selected_possibly_undefined", _D + "adhoc.py", "        if scores:\n            selected = scores[0][2]\n            agents_capa[selected] -= footprint\n        else:", "        if scores:\n            agents_capa[scores[0][2]] -= footprint\n            if attempt == 0:\n                selected = scores[0][2]\n        else:", "break", "R-"),
    ("n_gh_capacity_ge", _D + "gh_cgdp.py", "        if capa < footprint:\n            continue\n", "        if not capa >= footprint:\n            continue\n", "neutral"),
    ("n_adhoc_keyword_retry", _D + "adhoc.py", "                                       computation_memory, computation_graph,\n                                       attempt+1)", "                                       computation_memory, computation_graph,\n                                       attempt=attempt + 1)", "neutral"),
]
