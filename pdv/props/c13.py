"""C13 - solution cost accounting matches the DCOP definition."""
import ast

from ..model import walk_no_nested, norm, call_name, is_self_attr
from ..facts import FuncFacts, facts_at, count_paths
from ..report import Ctx, AnalysisError

DCOPM = "pydcop.dcop.dcop"
REL = "pydcop.dcop.relations"
ORCH = "pydcop.infrastructure.orchestrator"


def _facts(ff, node):
    return {(norm(t), p) for t, p in facts_at(ff, node)}


def _dichotomy(ctx, f, loop, value_name, infinity, hard, soft, what):
    """if value != infinity: soft += value  else: hard += 1"""
    ifs = [n for n in ast.walk(loop) if isinstance(n, ast.If) and infinity in norm(n.test) and value_name in norm(n.test)]
    if len(ifs) != 1:
        ctx.bad("R-DICHOTOMY", f"{what}: hard/soft test", f, loop, f"each {what} must be classified by comparing its value with the infinity value")
        return
    n = ifs[0]
    t = norm(n.test)
    soft_branch, hard_branch = None, None
    if t in (f"{value_name} != {infinity}", f"{infinity} != {value_name}"):
        soft_branch, hard_branch = n.body, n.orelse
    elif t in (f"{value_name} == {infinity}", f"{infinity} == {value_name}"):
        soft_branch, hard_branch = n.orelse, n.body
    else:
        ctx.bad("R-DICHOTOMY", f"{what}: equality with infinity", f, n, f"a term is hard exactly when it *equals* the infinity value, found `{t}`")
        return
    oks = len(soft_branch) == 1 and isinstance(soft_branch[0], ast.AugAssign) and isinstance(soft_branch[0].op, ast.Add) \
        and norm(soft_branch[0].target) == soft and norm(soft_branch[0].value) == value_name
    okh = len(hard_branch) == 1 and isinstance(hard_branch[0], ast.AugAssign) and isinstance(hard_branch[0].op, ast.Add) \
        and norm(hard_branch[0].target) == hard and norm(hard_branch[0].value) == "1"
    ctx.check(oks, "R-DICHOTOMY", f"{what}: finite term added to the soft sum", f, n, f"a finite {what} must be added to '{soft}'")
    ctx.check(okh, "R-DICHOTOMY", f"{what}: infinite term counted once", f, n, f"an infinite {what} must add exactly 1 to '{hard}'")


def check(ctx: Ctx):
    repo = ctx.repo
    ctx.decided = ("solution_cost rejects an assignment whose size differs from the variable set before costing anything; every "
                   "constraint is evaluated on the assignment filtered by its own dimensions; constraint terms and variable-cost "
                   "terms share the same dichotomy (== infinity -> violation count + 1, otherwise added to the cost); the result "
                   "is (violations, cost) and is unpacked in that order where it is reported; DCOP.solution_cost merges the "
                   "external variables' values into a copy of the assignment and covers all variables; assignment_cost adds each "
                   "constraint once and each variable cost at most once and only on request.")
    ctx.undecided = "arithmetic results for concrete DCOPs; assignments of the right size but with wrong names."
    ctx.rule("R-REJECT", "an incomplete assignment raises ValueError before any term is costed")
    ctx.rule("R-DICHOTOMY", "constraint and variable-cost terms: value == infinity counts 1 violation, any other value is summed")
    ctx.rule("R-PAIRING", "each constraint is evaluated on the assignment filtered by its own dimensions; variable cost taken at the variable's own value")
    ctx.rule("R-SLOTS", "returns (violation count, cost) and reporters unpack it in that order")
    ctx.rule("R-EXTERNAL", "DCOP.solution_cost completes a copy of the assignment with external variable values and covers all variables")
    ctx.rule("R-ONCE", "assignment_cost: one term per constraint, variable cost at most once per variable and only when requested")

    sc = repo.func(DCOPM, "solution_cost")
    msc = repo.func(DCOPM, "DCOP.solution_cost")
    ac = repo.func(REL, "assignment_cost")
    gm = repo.func(ORCH, "AgentsMgt.global_metrics")
    for f in (sc, msc, ac, gm):
        ctx.touch(f)
    p_rel, p_vars, p_ass, p_inf = sc.params[:4]

    # ---- reject ---------------------------------------------------------------
    ff = FuncFacts(sc.node)
    raises = [r for r in walk_no_nested(sc.node) if isinstance(r, ast.Raise) and "ValueError" in norm(r.exc) and not ff.in_loop(r)]
    loops = [n for n in sc.node.body if isinstance(n, ast.For)]
    okr = False
    for r in raises:
        facts = _facts(ff, r)
        if (f"len({p_vars}) != len({p_ass})", True) in facts or (f"len({p_ass}) != len({p_vars})", True) in facts:
            okr = bool(loops) and r.lineno < loops[0].lineno
    ctx.check(okr, "R-REJECT", "size mismatch -> ValueError before the loops", sc, raises[0] if raises else sc.node,
              "solution_cost must raise ValueError when the assignment does not have one value per variable, before costing")
    if len(loops) != 2:
        ctx.bad("R-DICHOTOMY", "two accounting loops", sc, sc.node, "expected one loop over the constraints and one over the variables")
        return
    rl = next((l for l in loops if norm(l.iter) == p_rel), None)
    vl = next((l for l in loops if norm(l.iter) == p_vars), None)
    if rl is None or vl is None:
        ctx.bad("R-DICHOTOMY", "loops over constraints and variables", sc, sc.node, "the loops must range over all constraints and all variables")
        return
    # accumulators start at 0
    init = [n for n in sc.node.body if isinstance(n, ast.Assign) and isinstance(n.targets[0], ast.Tuple)]
    rets = [r for r in walk_no_nested(sc.node) if isinstance(r, ast.Return)]
    okret = len(rets) == 1 and isinstance(rets[0].value, ast.Tuple) and len(rets[0].value.elts) == 2
    hard, soft = ([norm(e) for e in rets[0].value.elts] if okret else ("cost_hard", "cost_soft"))
    ctx.check(okret and hard != soft, "R-SLOTS", "returns (violations, cost)", sc, rets[0] if rets else sc.node, "two-slot result expected")
    oki = any([norm(e) for e in n.targets[0].elts] == [hard, soft] and norm(n.value) == "(0, 0)" for n in init) or \
        all(any(isinstance(n, ast.Assign) and norm(n.targets[0]) == a and norm(n.value) == "0" for n in sc.node.body) for a in (hard, soft))
    ctx.check(oki, "R-DICHOTOMY", "both accumulators start at 0", sc, init[0] if init else sc.node, "the violation count and the cost must start at 0")
    # constraint loop
    rv = norm(rl.target)
    ev = [n for n in ast.walk(rl) if isinstance(n, ast.Assign) and isinstance(n.value, ast.Call) and norm(n.value.func) == rv]
    okp = len(ev) == 1 and len(ev[0].value.keywords) == 1 and ev[0].value.keywords[0].arg is None and \
        norm(ev[0].value.keywords[0].value) == f"filter_assignment_dict({p_ass}, {rv}.dimensions)"
    ctx.check(okp, "R-PAIRING", "constraint evaluated on its own filtered assignment", sc, ev[0] if ev else rl,
              f"each constraint must be evaluated as {rv}(**filter_assignment_dict({p_ass}, {rv}.dimensions))")
    if ev:
        _dichotomy(ctx, sc, rl, norm(ev[0].targets[0]), p_inf, hard, soft, "constraint term")
    # variable loop
    vv = norm(vl.target)
    cv = [n for n in ast.walk(vl) if isinstance(n, ast.Assign) and isinstance(n.value, ast.Call) and norm(n.value.func) == f"{vv}.cost_for_val"]
    okv = len(cv) == 1 and [norm(a) for a in cv[0].value.args] == [f"{p_ass}[{vv}.name]"]
    ctx.check(okv, "R-PAIRING", "variable cost taken at the variable's own value", sc, cv[0] if cv else vl,
              f"the variable cost must be {vv}.cost_for_val({p_ass}[{vv}.name])")
    if cv:
        _dichotomy(ctx, sc, vl, norm(cv[0].targets[0]), p_inf, hard, soft, "variable cost term")
        # every assigned variable contributes: the term may only be skipped for a missing / None value
        reject = {(f"len({p_vars}) != len({p_ass})", False), (f"len({p_ass}) != len({p_vars})", False)}
        allowed = {(f"{vv}.name in {p_ass}", True), (f"{p_ass}[{vv}.name] is not None", True), (f"{p_ass}.get({vv}.name) is not None", True),
                   (f"{vv}.name not in {p_ass}", False), (f"{p_ass}[{vv}.name] is None", False), (f"{p_ass}.get({vv}.name) is None", False)} | reject
        extra = sorted(x for x in _facts(ff, cv[0]) if x not in allowed)
        ctx.check(not extra, "R-PAIRING", "variable cost counted for every assigned value", sc, cv[0],
                  f"the variable-cost term is skipped under {extra}: a legitimate value that is falsy (0, False, '') would lose its cost")
    if ev:
        reject = {(f"len({p_vars}) != len({p_ass})", False), (f"len({p_ass}) != len({p_vars})", False)}
        extra = sorted(x for x in _facts(ff, ev[0]) if x not in reject)
        ctx.check(not extra, "R-PAIRING", "every constraint is costed", sc, ev[0], f"constraint evaluation is conditional on {extra}")
    # both loops unconditional at function level
    ctx.check(rl in sc.node.body and vl in sc.node.body, "R-DICHOTOMY", "both loops always run", sc, sc.node, "both accounting loops must run for every call")

    # ---- DCOP.solution_cost -----------------------------------------------------------
    a_p, i_p = msc.params[1], msc.params[2]
    txt = [norm(s) for s in msc.node.body]
    cp = [n for n in msc.node.body if isinstance(n, ast.Assign) and norm(n.value) in (f"{a_p}.copy()", f"dict({a_p})")]
    okc = len(cp) == 1
    full = norm(cp[0].targets[0]) if okc else "full_assignment"
    upd = [c for c in walk_no_nested(msc.node) if isinstance(c, ast.Call) and norm(c.func) == f"{full}.update"]
    oku = len(upd) == 1 and isinstance(upd[0].args[0], ast.DictComp) and norm(upd[0].args[0].generators[0].iter) == "self.external_variables.values()" \
        and norm(upd[0].args[0].key).endswith(".name") and norm(upd[0].args[0].value).endswith(".value")
    if not okc:
        # canonical merged form: full = {**assignment, **{v.name: v.value for v in self.external_variables.values()}}
        mg = [n for n in msc.node.body if isinstance(n, ast.Assign) and isinstance(n.value, ast.Dict) and len(n.value.keys) == 2 and all(k is None for k in n.value.keys) and norm(n.value.values[0]) == a_p]
        if len(mg) == 1:
            dc = mg[0].value.values[1]
            cp, okc = mg, True
            full = norm(mg[0].targets[0])
            oku = isinstance(dc, ast.DictComp) and norm(dc.generators[0].iter) == "self.external_variables.values()" and norm(dc.key).endswith(".name") and norm(dc.value).endswith(".value")
    ctx.check(okc and oku, "R-EXTERNAL", "copy of the assignment completed with external values", msc, cp[0] if cp else msc.node,
              "the caller's assignment must be copied and completed with {external variable name: current value}")
    rets = [r for r in walk_no_nested(msc.node) if isinstance(r, ast.Return)]
    okd = len(rets) == 1 and isinstance(rets[0].value, ast.Call) and call_name(rets[0].value) == "solution_cost" and \
        [norm(a) for a in rets[0].value.args] == ["self.constraints.values()", "self.all_variables", full, i_p]
    ctx.check(okd, "R-EXTERNAL", "delegates with all constraints, all variables, the completed assignment and infinity", msc, rets[0] if rets else msc.node,
              "DCOP.solution_cost must cost all constraints over all (internal and external) variables")
    av = repo.func(DCOPM, "DCOP.all_variables")
    at = norm(av.node)
    ctx.check("self.variables.values()" in at and "self.external_variables.values()" in at, "R-EXTERNAL", "all_variables = internal + external", av, av.node,
              "all_variables must list internal and external variables")

    # ---- reporter unpack --------------------------------------------------------------------
    unp = [n for n in walk_no_nested(gm.node) if isinstance(n, ast.Assign) and isinstance(n.value, ast.Call) and call_name(n.value) == "solution_cost"]
    oku = len(unp) == 1 and isinstance(unp[0].targets[0], ast.Tuple) and len(unp[0].targets[0].elts) == 2
    if oku:
        a, b = [norm(e) for e in unp[0].targets[0].elts]
        d = [n for n in walk_no_nested(gm.node) if isinstance(n, ast.Dict)]
        keys = {}
        for dd in d:
            for k, v in zip(dd.keys, dd.values):
                if isinstance(k, ast.Constant):
                    keys[k.value] = norm(v)
        oku = keys.get("violation") == a and keys.get("cost") == b
        ctx.check(norm(unp[0].value.args[1]) == "self.infinity", "R-SLOTS", "reporter passes the configured infinity", gm, unp[0],
                  "the orchestrator must account with its configured infinity value")
    ctx.check(oku, "R-SLOTS", "global_metrics: (violation, cost) unpacked and reported under their own keys", gm, unp[0] if unp else gm.node,
              "solution_cost returns (violations, cost): the metrics must publish slot 1 as 'violation' and slot 2 as 'cost'")

    # ---- assignment_cost ------------------------------------------------------------------------
    p_a, p_c, p_flag = ac.params[:3]
    lp = [n for n in ac.node.body if isinstance(n, ast.For) and norm(n.iter) == p_c]
    if len(lp) != 1:
        ctx.bad("R-ONCE", "loop over the constraints", ac, ac.node, "assignment_cost must visit every constraint")
        return
    lp = lp[0]
    cvn = norm(lp.target)
    adds = [n for n in lp.body if isinstance(n, ast.AugAssign) and isinstance(n.op, ast.Add) and isinstance(n.value, ast.Call) and norm(n.value.func) == cvn]
    ctx.check(len(adds) == 1 and norm(adds[0].target) == "cost", "R-ONCE", "one term per constraint", ac, adds[0] if adds else lp,
              "each constraint's value must be added to the cost exactly once per constraint")
    ffa = FuncFacts(ac.node)
    vc = [n for n in ast.walk(lp) if isinstance(n, ast.AugAssign) and "cost_for_val" in norm(n.value)]
    okv = len(vc) == 1
    if okv:
        facts = _facts(ffa, vc[0])
        seen = [t.split(" not in ", 1) for t, p in facts if p and " not in " in t] + [t.split(" in ", 1) for t, p in facts if (not p) and " in " in t and " not in " not in t]
        blk = [s for s in ast.walk(lp) if isinstance(s, ast.If) and vc[0] in s.body]
        okv = (p_flag, True) in facts and bool(blk) and any(
            any(isinstance(s, ast.Expr) and isinstance(s.value, ast.Call) and norm(s.value.func) == f"{sv}.add" and [norm(a) for a in s.value.args] == [key] for s in blk[0].body) for key, sv in seen)
    ctx.check(okv, "R-ONCE", "variable cost only on request and once per variable", ac, vc[0] if vc else lp,
              "a variable's own cost may be added only when consider_variable_cost is set and only the first time the variable is met")
    rets = [r for r in walk_no_nested(ac.node) if isinstance(r, ast.Return)]
    init0 = [n for n in ac.node.body if isinstance(n, ast.Assign) and norm(n.targets[0]) == "cost" and norm(n.value) == "0"]
    ctx.check(len(rets) == 1 and norm(rets[0].value) == "cost" and len(init0) == 1, "R-ONCE", "cost starts at 0 and is returned", ac, rets[0] if rets else ac.node,
              "assignment_cost returns the accumulated cost")
    # extra keyword values only fill gaps: the assignment is never rebound, and **kwargs is only read as the fallback of a failed assignment[...] lookup of the same key
    kwn = ac.node.args.kwarg.arg if ac.node.args.kwarg else None
    rebound = [a for a in ast.walk(ac.node) if isinstance(a, (ast.Assign, ast.AugAssign, ast.AnnAssign)) and any(isinstance(t, ast.Name) and t.id == p_a for t in (a.targets if isinstance(a, ast.Assign) else [a.target]))]
    okk = kwn is not None and not rebound
    badk = rebound[0] if rebound else None
    if okk:
        for n in ast.walk(ac.node):
            if isinstance(n, ast.Name) and n.id == kwn and isinstance(n.ctx, ast.Load):
                in_fallback = False
                for t in ast.walk(ac.node):
                    if isinstance(t, ast.Try):
                        for h in t.handlers:
                            if any(x is n for x in ast.walk(h)) and h.type is not None and "KeyError" in norm(h.type):
                                keys_try = {norm(x.slice) for b in t.body for x in ast.walk(b) if isinstance(x, ast.Subscript) and norm(x.value) == p_a}
                                keys_h = {norm(x.slice) for x in ast.walk(h) if isinstance(x, ast.Subscript) and norm(x.value) == kwn}
                                in_fallback = bool(keys_try) and keys_h <= keys_try
                    if isinstance(t, ast.If) and any(x is n for b in t.body for x in ast.walk(b)) and " not in " + p_a in norm(t.test):
                        in_fallback = True
                if not in_fallback:
                    okk, badk = False, n
    ctx.check(okk, "R-ONCE", "keyword values are used only where the assignment has no value for the variable", ac, badk or ac.node,
              "a value given both in the assignment and as a keyword must be taken from the assignment: merging the keywords over the assignment reverses the precedence")
    dflt = dict(zip(ac.params[len(ac.params) - len(ac.node.args.defaults):], ac.node.args.defaults))
    ctx.check(norm(dflt.get(p_flag, ast.Constant(None))) == "False", "R-ONCE", "variable costs are opt-in", ac, ac.node, "consider_variable_cost must default to False")


_D = "pydcop/dcop/dcop.py"
_R = "pydcop/dcop/relations.py"
_O = "pydcop/infrastructure/orchestrator.py"
VARIANTS = [
    ("kwargs_merged_over_assignment", "pydcop/dcop/relations.py", "    for c in constraints:\n        filtered_ass = {}\n        for v in c.dimensions:\n            v_name = v.name\n            if consider_variable_cost:", "    if kwargs:\n        assignment = {**assignment, **kwargs}\n    for c in constraints:\n        filtered_ass = {}\n        for v in c.dimensions:\n            v_name = v.name\n            if consider_variable_cost:", "break", "R-ONCE"),
    ("no_reject", _D, "    if len(variables) != len(assignment):\n        raise ValueError(", "    if len(variables) > len(assignment) + 1:\n        raise ValueError(", "break", "R-REJECT"),
    ("hard_ge", _D, "        if r_cost != infinity:\n            cost_soft += r_cost\n        else:\n            cost_hard += 1", "        if r_cost < infinity:\n            cost_soft += r_cost\n        else:\n            cost_hard += 1", "break", "R-DICHOTOMY"),
    ("var_hard_summed", _D, "            if cost_for_val != infinity:\n                cost_soft += cost_for_val\n            else:\n                cost_hard += 1", "            cost_soft += cost_for_val", "break", "R-DICHOTOMY"),
    ("hard_adds_value", _D, "            cost_soft += r_cost\n        else:\n            cost_hard += 1", "            cost_soft += r_cost\n        else:\n            cost_hard += r_cost", "break", "R-DICHOTOMY"),
    ("return_swapped", _D, "    return cost_hard, cost_soft", "    return cost_soft, cost_hard", "break"),
    ("unpack_swapped", _O, "            violation, cost = self._dcop.solution_cost(dcop_assignment,", "            cost, violation = self._dcop.solution_cost(dcop_assignment,", "break", "R-SLOTS"),
    ("externals_not_merged", _D, "        full_assignment.update({v.name: v.value\n                                for v in self.external_variables.values()})\n", "", "break", "R-EXTERNAL"),
    ("assignment_mutated", _D, "        full_assignment = assignment.copy()", "        full_assignment = assignment", "break", "R-EXTERNAL"),
    ("only_internal_vars", _D, "                             self.all_variables, full_assignment, infinity)", "                             self.variables.values(), full_assignment, infinity)", "break", "R-EXTERNAL"),
    ("wrong_filter", _D, "            r_cost = r(**filter_assignment_dict(assignment, r.dimensions))", "            r_cost = r(**filter_assignment_dict(assignment, variables))", "break", "R-PAIRING"),
    ("varcost_twice", _R, "                if v_name not in cost_vars:\n                    cost += v.cost_for_val(assignment[v_name])\n                    cost_vars.add(v_name)", "                cost += v.cost_for_val(assignment[v_name])", "break", "R-ONCE"),
    ("varcost_default_on", _R, "    consider_variable_cost=False,\n    **kwargs,\n):", "    consider_variable_cost=True,\n    **kwargs,\n):", "break", "R-ONCE"),
    ("varcost_falsy_guard", _D, "        if v.name in assignment and \\\n                assignment[v.name] is not None:", "        if assignment.get(v.name):", "break", "R-PAIRING"),
    ("n_eq_form", _D, "        if r_cost != infinity:\n            cost_soft += r_cost\n        else:\n            cost_hard += 1", "        if r_cost == infinity:\n            cost_hard += 1\n        else:\n            cost_soft += r_cost", "neutral"),
]
