"""C25 - replica placement terminates and keeps replicas safe.

Decided: acceptance test structure and its guard on every acceptance, worst-case
footprint facts, no shared/stale memo, recording of accepted replicas, hosting
node only for non-owners, completion report on every exit of replicate(),
budget arithmetic pairing of request/answer, tolerant budget comparison, role
order of the 9-argument protocol calls and of the 10-field message.
"""
import ast

from ..model import walk_no_nested, norm, call_name, is_self_attr, FuncInfo
from ..facts import FuncFacts, facts_at, count_paths, calls_hit
from ..report import Ctx, AnalysisError
from .. import reprrules as R

MOD = "pydcop.replication.dist_ucs_hostingcosts"
PU = "pydcop.replication.path_utils"
CLS = "UCSReplication"
PROTO_PARAMS = ["budget", "spent", "rq_path", "paths", "visited", "comp_def", "footprint", "replica_count", "hosts"]


def _facts(ff, node):
    return {(norm(t), p) for t, p in facts_at(ff, node)}


def check(ctx: Ctx):
    repo = ctx.repo
    ucs = repo.cls(MOD, CLS)
    ctx.touch(ucs)
    ctx.decided = ("a replica is accepted only under a true _can_host for the same (owner, computation, footprint); _can_host "
                   "refuses an already hosted computation first and accepts iff remaining capacity >= worst-case footprint "
                   "of k-1 owners + new footprint; the worst case sums *all* hosted replicas of the selected owners, uses "
                   "k_target-1 and a running max; no class-level or stale memo; accepted replicas are recorded (owner, "
                   "footprint) and published in discovery, removed symmetrically; only non-owners get a hosting node; every "
                   "exit of replicate() reports done or registers the computations as in progress; request/answer budget "
                   "arithmetic are inverses; the budget test tolerates float rounding; the 9 protocol arguments and the 10 "
                   "message fields keep their order at every call site.")
    ctx.undecided = "termination of the distributed search for arbitrary graphs and message orders; that at most k replicas are placed."
    ctx.rule("R-ACCEPT", "_accept_replica is only called under a true _can_host with the same owner, computation and footprint")
    ctx.rule("R-CANHOST", "_can_host: already hosted -> False first; accept iff remaining capacity >= worst-case footprint + new footprint")
    ctx.rule("R-WORSTCASE", "_max_footprint: max over combinations of min(k_target-1, #owners) owners of the sum over all hosted replicas of those owners")
    ctx.rule("R-CACHE", "no mutable class-level container / memo on the replication computation (it would be shared by all agents of a process and go stale)")
    ctx.rule("R-RECORD", "accepting records (owner, footprint), keeps the definition and publishes the replica; removal undoes all three")
    ctx.rule("R-OWNER", "the owner of a computation never offers itself a hosting node for it")
    ctx.rule("R-DONE", "every exit of replicate() has reported replication_done or registered the computations in the in-progress tracker; the tracker's emptying reports done")
    ctx.rule("R-BUDGET", "a request moves the route cost from budget to spent, the answer moves it back; budget tests use budget+spent with a float tolerance")
    ctx.rule("R-ROLES", "the nine protocol arguments / ten message fields are forwarded in their declared order")
    ctx.rule("R-VISIT", "hosting-node visit: path removed first; on acceptance the host is appended and the count decremented once; count 0 answers the requester")

    can = repo.func(MOD, f"{CLS}._can_host")
    acc = repo.func(MOD, f"{CLS}._accept_replica")
    mf = repo.func(MOD, f"{CLS}._max_footprint")
    rc = repo.func(MOD, f"{CLS}._remaining_capacity")
    vp = repo.func(MOD, f"{CLS}._visit_path")
    rep = repo.func(MOD, f"{CLS}.replicate")
    sreq = repo.func(MOD, f"{CLS}._send_request")
    sans = repo.func(MOD, f"{CLS}._send_answer")
    orq = repo.func(MOD, f"{CLS}.on_replicate_request")
    oan = repo.func(MOD, f"{CLS}.on_replicate_answer")
    hdl = repo.func(MOD, f"{CLS}._on_replicate_msg")
    crep = repo.func(MOD, f"{CLS}.computation_replicated")
    ahp = repo.func(MOD, f"{CLS}._add_hosting_path")
    rmr = repo.func(MOD, f"{CLS}.remove_replica")
    for f in (can, acc, mf, rc, vp, rep, sreq, sans, orq, oan, hdl, crep, ahp, rmr):
        ctx.touch(f)

    # ---- R-ACCEPT --------------------------------------------------------------
    n_acc = 0
    for m in ucs.methods.values():
        ff = FuncFacts(m.node)
        for c in walk_no_nested(m.node):
            if isinstance(c, ast.Call) and is_self_attr(c.func, "_accept_replica"):
                n_acc += 1
                a = [norm(x) for x in c.args]
                want = f"self._can_host({a[0]}, {a[1]}.name, {a[2]})" if len(a) == 3 else None
                ok = want is not None and (want, True) in _facts(ff, c)
                ctx.check(ok, "R-ACCEPT", f"{m.qualname}: _accept_replica({', '.join(a)})", m, c,
                          f"acceptance must be dominated by a true `{want}`")
    if n_acc == 0:
        ctx.bad("R-ACCEPT", "no acceptance site", vp, vp.node, "replicas are never accepted any more")

    # ---- R-CANHOST -----------------------------------------------------------------
    p_agent, p_comp, p_fp = can.params[1:4]
    stmts = [s for s in can.node.body if not (isinstance(s, ast.Expr) and isinstance(s.value, ast.Constant))]
    first = stmts[0] if stmts else None
    ok1 = isinstance(first, ast.If) and norm(first.test) == f"{p_comp} in self._hosted_replicas" and len(first.body) == 1 \
        and isinstance(first.body[0], ast.Return) and norm(first.body[0].value) == "False"
    ctx.check(ok1, "R-CANHOST", "already hosted computation refused first", can, first or can.node,
              "a computation already hosted here must be refused before anything else (replicas must be on distinct agents)")
    ffc = FuncFacts(can.node)
    loc = {}
    for n in walk_no_nested(can.node):
        if isinstance(n, ast.Assign) and isinstance(n.targets[0], ast.Name):
            loc[n.targets[0].id] = norm(n.value)
    need = None
    for k, v in loc.items():
        if v in (f"self._max_footprint() + {p_fp}", f"{p_fp} + self._max_footprint()"):
            need = k
    remaining = next((k for k, v in loc.items() if v == "self._remaining_capacity()"), None)
    ctx.check(need is not None and remaining is not None, "R-CANHOST", "need = worst case + new footprint ; remaining = remaining capacity", can, can.node,
              "the acceptance test must compare the remaining capacity with _max_footprint() + the new footprint")
    if need and remaining:
        for r in [r for r in walk_no_nested(can.node) if isinstance(r, ast.Return)]:
            v = norm(r.value)
            facts = _facts(ffc, r)
            pos = (f"{remaining} >= {need}", True) in facts or (f"{need} <= {remaining}", True) in facts
            neg = (f"{remaining} >= {need}", False) in facts or (f"{need} <= {remaining}", False) in facts or \
                (f"{remaining} < {need}", True) in facts or (f"{need} > {remaining}", True) in facts
            if v == "True":
                ctx.check(pos, "R-CANHOST", "accept only if remaining >= need", can, r, "True may only be returned when remaining capacity >= worst case + footprint")
            elif v == "False":
                hosted = (f"{p_comp} in self._hosted_replicas", True) in facts
                ctx.check(neg or hosted, "R-CANHOST", "refuse exactly when capacity is insufficient", can, r,
                          "False may only be returned for an already hosted computation or when the capacity is insufficient")
            elif v in (f"{remaining} >= {need}", f"{need} <= {remaining}"):
                ctx.ok("R-CANHOST", "returns the comparison", can, r)
            else:
                ctx.bad("R-CANHOST", "unrecognised result", can, r, f"cannot relate `{v}` to the capacity test")

    # ---- R-WORSTCASE ------------------------------------------------------------------
    sums = [c for c in ast.walk(mf.node) if isinstance(c, ast.Call) and call_name(c) == "sum" and c.args and isinstance(c.args[0], (ast.GeneratorExp, ast.ListComp))]
    oks = False
    if len(sums) == 1:
        g = sums[0].args[0]
        gen = g.generators[0]
        oks = norm(gen.iter) == "self._hosted_replicas.values()" and isinstance(gen.target, ast.Tuple) and len(gen.target.elts) == 2 \
            and norm(g.elt) == norm(gen.target.elts[1]) and len(gen.ifs) == 1 and norm(gen.ifs[0]).startswith(f"{norm(gen.target.elts[0])} in ")
    ctx.check(oks, "R-WORSTCASE", "sum over all hosted replicas (owner, footprint) of the selected owners", mf, sums[0] if sums else mf.node,
              "the footprint total must iterate self._hosted_replicas.values() itself and add the footprint slot of every replica whose owner is "
              "selected (a dict keyed by owner keeps one replica per owner only)")
    txt = norm(mf.node)
    ctx.check("min(self.k_target - 1, len(" in txt, "R-WORSTCASE", "k_target - 1 owners", mf, mf.node, "the worst case considers min(k_target-1, #owners) simultaneous failures")
    ctx.check("itertools.combinations(" in txt, "R-WORSTCASE", "all owner combinations", mf, mf.node, "every combination of owners must be considered")
    mx = [n for n in walk_no_nested(mf.node) if isinstance(n, ast.Assign) and isinstance(n.value, ast.Call) and call_name(n.value) == "max"]
    okm = len(mx) == 1 and norm(mx[0].targets[0]) in [norm(a) for a in mx[0].value.args] and len(mx[0].value.args) == 2
    rets = [r for r in walk_no_nested(mf.node) if isinstance(r, ast.Return)]
    okm = okm and len(rets) == 1 and norm(rets[0].value) == norm(mx[0].targets[0])
    init0 = [n for n in walk_no_nested(mf.node) if isinstance(n, ast.Assign) and mx and norm(n.targets[0]) == norm(mx[0].targets[0]) and norm(n.value) == "0"]
    ctx.check(okm and len(init0) == 1, "R-WORSTCASE", "running maximum from 0, returned", mf, mx[0] if mx else mf.node, "the result is the maximum total over the combinations")
    owners = [n for n in walk_no_nested(mf.node) if isinstance(n, ast.Assign) and "self._hosted_replicas.values()" in norm(n.value) and isinstance(n.value, ast.Call) and call_name(n.value) == "set"]
    ctx.check(len(owners) == 1, "R-WORSTCASE", "owner set from the owner slot", mf, owners[0] if owners else mf.node, "owners are the distinct first slots of the hosted replicas")
    # remaining capacity
    rtxt = norm(rc.node)
    okr = "self.agent_def.capacity" in rtxt and "self.agent.computations()" in rtxt and ".footprint()" in rtxt
    subs = [n for n in walk_no_nested(rc.node) if isinstance(n, ast.AugAssign) and isinstance(n.op, ast.Sub)]
    ctx.check(okr and len(subs) == 1, "R-CANHOST", "remaining capacity = capacity - footprints of hosted computations", rc, rc.node,
              "remaining capacity must start from the agent's capacity and subtract every hosted computation's footprint")

    # ---- R-CACHE --------------------------------------------------------------------------
    n_cls = 0
    for k in repo.mro(ucs):
        if k.module.name != MOD:
            continue
        for name, v in k.class_attrs.items():
            if isinstance(v, (ast.Dict, ast.List, ast.Set)) or (isinstance(v, ast.Call) and call_name(v) in ("dict", "list", "set", "defaultdict")):
                n_cls += 1
                ctx.bad("R-CACHE", f"{k.name}.{name}", k, v,
                        f"'{name}' is a mutable class attribute: every agent of the process shares it and nothing invalidates it when replicas change")
    if n_cls == 0:
        ctx.ok("R-CACHE", "no mutable class-level container", ucs, ucs.node)
    # memo-like fields read in _max_footprint / _can_host must be instance state written when replicas change
    for f in (mf, can):
        for x in ast.walk(f.node):
            if isinstance(x, ast.Subscript) and is_self_attr(x.value) and "memo" in x.value.attr.lower():
                ctx.bad("R-CACHE", f"{f.qualname}: memo {x.value.attr}", f, x, "a memo of footprint totals is stale as soon as a replica is accepted or removed")

    # ---- R-RECORD ------------------------------------------------------------------------------
    a_origin, a_def, a_fp = acc.params[1:4]
    atxt = [norm(s) for s in acc.node.body]
    names = {}
    for n in walk_no_nested(acc.node):
        if isinstance(n, ast.Assign) and isinstance(n.targets[0], ast.Name):
            names[n.targets[0].id] = norm(n.value)
    cn = next((k for k, v in names.items() if v == f"{a_def}.name"), f"{a_def}.name")
    ctx.check(f"self._hosted_replicas[{cn}] = ({a_origin}, {a_fp})" in atxt, "R-RECORD", "hosted table <- (owner, footprint)", acc, acc.node,
              "the accepted replica must be recorded as (owner, footprint): the worst-case computation unpacks it in that order")
    ctx.check(f"self.replicas[{cn}] = {a_def}" in atxt, "R-RECORD", "definition kept", acc, acc.node, "the computation definition must be kept to activate the replica later")
    ctx.check(f"self.discovery.register_replica({cn}, self.agt_name)" in atxt, "R-RECORD", "published in discovery", acc, acc.node,
              "the replica must be registered (and published) in discovery for this agent")
    rtx = [norm(s) for s in rmr.node.body]
    p0 = rmr.params[1]
    ctx.check(f"self.replicas.pop({p0})" in rtx and f"self._hosted_replicas.pop({p0})" in rtx and f"self.discovery.unregister_replica({p0}, self.agt_name)" in rtx,
              "R-RECORD", "removal undoes table, definition and publication", rmr, rmr.node, "remove_replica must undo everything _accept_replica did")

    # ---- R-OWNER ----------------------------------------------------------------------------------
    ffa = FuncFacts(ahp.node)
    apps = [c for c in walk_no_nested(ahp.node) if isinstance(c, ast.Call) and norm(c.func) == "paths.append"]
    oko = len(apps) == 1 and (f"{ahp.params[2]} not in self.computations", True) in _facts(ffa, apps[0])
    ctx.check(oko, "R-OWNER", "hosting node only when the computation is not ours", ahp, apps[0] if apps else ahp.node,
              "the '__hosting__' node must only be added on agents that do not own the computation")
    hc = [n for n in walk_no_nested(ahp.node) if isinstance(n, ast.Assign) and "hosting_cost(" in norm(n.value)]
    ctx.check(len(hc) == 1 and norm(hc[0].value) == f"{ahp.params[1]} + self.agent_def.hosting_cost({ahp.params[2]})", "R-BUDGET",
              "hosting node cost = spent + hosting cost", ahp, hc[0] if hc else ahp.node, "the cost of the hosting node is the cost spent so far plus this agent's hosting cost")
    first_visit = [s for s in orq.node.body if isinstance(s, ast.If) and norm(s.test) == "self.agt_name not in visited"]
    okv = len(first_visit) == 1 and any("visited.append(self.agt_name)" == norm(s) for s in first_visit[0].body) and \
        any(isinstance(s, ast.Expr) and isinstance(s.value, ast.Call) and is_self_attr(s.value.func, "_add_hosting_path") for s in first_visit[0].body)
    ctx.check(okv, "R-OWNER", "hosting node added once, on the first visit", orq, first_visit[0] if first_visit else orq.node,
              "an agent adds its hosting node (and marks itself visited) only the first time a request reaches it")

    # ---- R-VISIT -----------------------------------------------------------------------------------
    host_if = [s for s in vp.node.body if isinstance(s, ast.If) and "'__hosting__'" in norm(s.test)]
    if len(host_if) != 1:
        ctx.bad("R-VISIT", "hosting branch", vp, vp.node, "_visit_path no longer distinguishes the hosting node")
    else:
        hb = host_if[0].body
        ctx.check(bool(hb) and norm(hb[0]) == f"remove_path({vp.params[4]}, {vp.params[3]})", "R-VISIT", "hosting path removed before the test", vp, hb[0] if hb else host_if[0],
                  "the hosting path must be removed from the table first, otherwise a refused replica is retried for ever")
        ffv = FuncFacts(vp.node)
        for what, pred in (("host appended", lambda s: norm(s) == "hosts.append(self.agent_def.name)" or norm(s) == "hosts.append(self.agt_name)"),
                           ("count decremented", lambda s: isinstance(s, ast.AugAssign) and norm(s.target) == "replica_count" and isinstance(s.op, ast.Sub) and norm(s.value) == "1")):
            sts = [s for s in ast.walk(host_if[0]) if isinstance(s, ast.stmt) and pred(s)]
            okh = len(sts) == 1 and any(t.startswith("self._can_host(") and p for t, p in _facts(ffv, sts[0])) and not ffv.in_loop(sts[0])
            ctx.check(okh, "R-VISIT", f"on acceptance: {what} exactly once", vp, sts[0] if sts else host_if[0], f"{what} must happen once, only when the replica was accepted")
        ans = [c for c in ast.walk(host_if[0]) if isinstance(c, ast.Call) and is_self_attr(c.func, "_send_answer")]
        oka = len(ans) == 1 and ("replica_count == 0", True) in _facts(ffv, ans[0]) and norm(ans[0].args[2]) == f"{vp.params[3]}[:-1]"
        ctx.check(oka, "R-VISIT", "count 0 -> answer back along the path without the hosting node", vp, ans[0] if ans else host_if[0],
                  "when the last replica is placed the requester must be answered on target_path[:-1]")
        for r in [r for r in walk_no_nested(vp.node) if isinstance(r, ast.Return)]:
            ok = isinstance(r.value, ast.Tuple) and len(r.value.elts) == 2 and norm(r.value.elts[1]) == "replica_count" and norm(r.value.elts[0]) in ("True", "False")
            if ok and norm(r.value.elts[0]) == "True":
                blk = _block_of(vp.node, r)
                prev = blk[blk.index(r) - 1] if blk and blk.index(r) > 0 else None
                ok = prev is not None and any(isinstance(c, ast.Call) and (is_self_attr(c.func, "_send_answer") or is_self_attr(c.func, "_send_request")) for c in ast.walk(prev))
            ctx.check(ok, "R-VISIT", "returns (forwarded, replica_count); forwarded only after a message was sent", vp, r,
                      "True (forwarded) may only be returned right after a request or an answer was sent")

    # ---- R-DONE ----------------------------------------------------------------------------------------
    def hit(st):
        n = 0
        if isinstance(st, (ast.If, ast.For, ast.While, ast.Try, ast.With)):
            return 0
        for c in walk_no_nested(st):
            if isinstance(c, ast.Call) and (is_self_attr(c.func, "replication_done") or is_self_attr(c.func, "on_replicate_request")):
                n += 1
        return n
    # `computations` is non-empty once the early exit is passed: the launching loop runs at least once
    o = count_paths(rep.node.body, hit, assume_loop_once=True)
    okd = all(v[0] >= 1 for k, v in o.k.items() if k in ("fall", "return"))
    ctx.check(okd, "R-DONE", "replicate(): every normal exit reported done or launched a search", rep, rep.node,
              f"some exit of replicate() neither calls replication_done nor launches a search whose end reports it ({o.k})")
    adds = [c for c in walk_no_nested(rep.node) if isinstance(c, ast.Call) and norm(c.func) == "self._replication_in_progress.add"]
    launch = [n for n in walk_no_nested(rep.node) if isinstance(n, ast.For) and any(isinstance(c, ast.Call) and is_self_attr(c.func, "on_replicate_request") for c in ast.walk(n))]
    ctx.check(len(adds) == 1 and len(launch) == 1 and adds[0].lineno < launch[0].lineno and norm(adds[0].args[0]) == norm(launch[0].iter), "R-DONE",
              "launched searches are registered in the in-progress tracker first", rep, adds[0] if adds else rep.node,
              "every computation whose search is launched must be counted in the tracker, whose emptying reports done")
    ffr = FuncFacts(rep.node)
    for c in walk_no_nested(rep.node):
        if isinstance(c, ast.Call) and is_self_attr(c.func, "replication_done"):
            facts = _facts(ffr, c)
            ctx.check(("computations", False) in facts or ("neighbors", False) in facts, "R-DONE", "immediate done only when nothing can be replicated", rep, c,
                      "replication_done may be reported immediately only when there is no computation or no neighbour")
    reqs = [c for c in walk_no_nested(rep.node) if isinstance(c, ast.Call) and is_self_attr(c.func, "on_replicate_request")]
    okq = len(reqs) == 1 and ffr.in_loop(reqs[0])
    if okq:
        kw = {k.arg: norm(k.value) for k in reqs[0].keywords}
        a = [norm(x) for x in reqs[0].args]
        okq = kw.get("replica_count") == rep.params[1] and kw.get("hosts") == "[]" and a[1] == "0" and a[2] == "(self.agt_name,)"
    ctx.check(okq, "R-DONE", "one search per computation with replica_count=k_target, no host, nothing spent", rep, reqs[0] if reqs else rep.node,
              "each computation starts its own search from this agent with the requested replica count")
    ffc2 = FuncFacts(crep.node)
    dn = [c for c in walk_no_nested(crep.node) if isinstance(c, ast.Call) and is_self_attr(c.func, "replication_done")]
    rmv = [c for c in walk_no_nested(crep.node) if isinstance(c, ast.Call) and norm(c.func) == "self._replication_in_progress.remove"]
    okc = len(dn) == 1 and ("self._replication_in_progress.is_empty()", True) in _facts(ffc2, dn[0]) and len(rmv) == 1 and rmv[0].lineno < dn[0].lineno
    ctx.check(okc, "R-DONE", "done reported exactly when the tracker empties", crep, dn[0] if dn else crep.node,
              "computation_replicated must remove the computation from the tracker and report done when (and only when) the tracker is empty")
    upd = [c for c in walk_no_nested(crep.node) if isinstance(c, ast.Call) and norm(c.func) == f"self._replica_hosts[{crep.params[1]}].update"]
    ctx.check(len(upd) == 1 and norm(upd[0].args[0]) == crep.params[2], "R-DONE", "hosts of the computation recorded", crep, upd[0] if upd else crep.node,
              "the agents that accepted the replica must be recorded for the computation")
    # tracker
    tr_add = repo.func(MOD, "ReplicationTracker.add")
    tr_rm = repo.func(MOD, "ReplicationTracker.remove")
    ctx.check("count + 1" in norm(tr_add.node) and "-= 1" in norm(tr_rm.node) and "count > 0" in norm(tr_rm.node), "R-DONE", "tracker counts up / down and drops zero entries",
              tr_add, tr_add.node, "the tracker must count searches in progress and forget finished computations")

    # ---- R-BUDGET ------------------------------------------------------------------------------------------
    rq = {norm(n.targets[0]): norm(n.value) for n in walk_no_nested(sreq.node) if isinstance(n, ast.Assign) and isinstance(n.targets[0], ast.Name)}
    cost = next((k for k, v in rq.items() if v.startswith("self.route(")), None)
    okb = cost is not None and f"budget - {cost}" in rq.values() and f"spent + {cost}" in rq.values() and rq.get(cost) == f"self.route({next((k for k, v in rq.items() if v == 'rq_path[-1]'), 'target_agt')})"
    ctx.check(okb, "R-BUDGET", "request: budget - route cost, spent + route cost, towards the last node of the path", sreq, sreq.node,
              "a forwarded request must move the route cost to the next agent from the budget to the spent amount")
    an = [n for n in walk_no_nested(sans.node) if isinstance(n, ast.AugAssign)]
    ops = {norm(n.target): (type(n.op).__name__, norm(n.value)) for n in an}
    ca = next((norm(n.targets[0]) for n in walk_no_nested(sans.node) if isinstance(n, ast.Assign) and norm(n.value).startswith("self.route(")), None)
    oka = ca is not None and ops.get("budget") == ("Add", ca) and ops.get("spent") == ("Sub", ca)
    tg = [n for n in walk_no_nested(sans.node) if isinstance(n, ast.Assign) and norm(n.value) == "rq_path[-2]"]
    ctx.check(oka and len(tg) == 1, "R-BUDGET", "answer: inverse arithmetic towards the previous node of the path", sans, sans.node,
              "an answer must give the route cost back (budget + cost, spent - cost) to the agent before us on the path")
    apf = repo.func(PU, "affordable_path_from")
    ctx.touch(apf)
    p_pref, p_max, p_paths = apf.params[:3]
    conds = [n for n in ast.walk(apf.node) if isinstance(n, ast.Compare) and p_max in norm(n) and any(isinstance(o, (ast.Lt, ast.LtE, ast.Gt, ast.GtE)) for o in n.ops)]
    okt = False
    for cnd in conds:
        t = norm(cnd)
        consts = [x.value for x in ast.walk(cnd) if isinstance(x, ast.Constant) and isinstance(x.value, (int, float)) and not isinstance(x.value, bool)]
        okt = okt or any(0 < c < 1 for c in consts) or "isclose" in t
    ctx.check(bool(conds) and okt, "R-BUDGET", "affordable test tolerates float rounding", apf, conds[0] if conds else apf.node,
              "budgets are re-split at every hop (budget - c, spent + c) so their sum differs from the stored path cost by rounding: "
              "an exact `cost <= max` test makes a hosting node unaffordable for ever with fractional costs")
    pref = [n for n in ast.walk(apf.node) if isinstance(n, ast.Compare) and norm(n) == f"path[:plen] == {p_pref}"]
    ctx.check(len(pref) == 1 and "yield path[plen:]" in norm(apf.node), "R-BUDGET", "affordable paths extend the prefix and are returned relative to it", apf, apf.node,
              "only paths that start with the current request path are candidates, returned without that prefix")
    for f, pfx in ((orq, "rq_path"), (oan, "back_path")):
        cs = [c for c in ast.walk(f.node) if isinstance(c, ast.Call) and call_name(c) == "affordable_path_from"]
        ctx.check(len(cs) == 1 and [norm(a) for a in cs[0].args] == [pfx, "budget + spent", "paths"], "R-BUDGET", f"{f.name}: candidates within budget + spent", f,
                  cs[0] if cs else f.node, "the total affordable path cost is the remaining budget plus what was already spent")
    inc = [n for n in walk_no_nested(oan.node) if isinstance(n, ast.Assign) and norm(n.targets[0]) == "budget" and isinstance(n.value, ast.Call) and call_name(n.value) == "min"]
    okb_ = len(inc) == 1 and "for c, p in paths" in norm(inc[0].value)
    if okb_:
        ge = inc[0].value.args[0]
        okb_ = isinstance(ge, (ast.GeneratorExp, ast.ListComp)) and norm(ge.elt) == "c" and len(ge.generators) == 1 and \
            [norm(i) for i in ge.generators[0].ifs] in ([], ["p != rq_path"], ["rq_path != p"]) and not inc[0].value.keywords
        fsb = {(norm(t), q) for t, q in facts_at(FuncFacts(oan.node), inc[0])}
        okb_ = okb_ and (("paths", True) in fsb or ("not paths", False) in fsb)
    ctx.check(okb_, "R-BUDGET", "budget increased to the cheapest remaining path (over all known paths but the one just answered), only when some path is left", oan, inc[0] if inc else oan.node,
              "when nothing is affordable the owner restarts with the cost of the cheapest known path; a filter on the cost itself (e.g. `c > budget`) is empty when the only path "
              "left ties with the current budget: min() raises in the handler and replication never reports done")

    # ---- R-ROLES --------------------------------------------------------------------------------------------------
    for callee in ("on_replicate_request", "on_replicate_answer", "_send_request", "_send_answer", "_visit_path"):
        cf = repo.func(MOD, f"{CLS}.{callee}")
        cparams = cf.params[1:]
        for m in ucs.methods.values():
            for c in walk_no_nested(m.node):
                if isinstance(c, ast.Call) and is_self_attr(c.func, callee):
                    args = [norm(a) for a in c.args] + [None] * (len(cparams) - len(c.args))
                    for k in c.keywords:
                        if k.arg in cparams:
                            args[cparams.index(k.arg)] = norm(k.value)
                    bad = []
                    for i in (3, 4, 5, 6):
                        if args[i] is None:
                            bad.append(cparams[i])
                        elif m is hdl:
                            want = {"paths": "msg.paths", "visited": "msg.visited", "comp_def": "msg.computation_def", "footprint": "msg.footprint"}[PROTO_PARAMS[i]]
                            if args[i] != want:
                                bad.append(cparams[i])
                        elif args[i] != PROTO_PARAMS[i]:
                            bad.append(cparams[i])
                    if m is hdl:
                        if args[:3] != ["msg.budget", "msg.spent", "msg.rq_path"] or args[7:] != ["msg.replica_count", "msg.hosts"]:
                            bad.append("budget/spent/rq_path/replica_count/hosts")
                    else:
                        if args[7] not in ("replica_count", m.params[1] if m is rep else "replica_count") or (args[8] not in ("hosts", "[]")):
                            bad.append("replica_count/hosts")
                    ctx.check(not bad, "R-ROLES", f"{m.name} -> {callee}", m, c, f"argument(s) {bad} are not forwarded in their declared position")
    # message construction: 10 fields in order
    for f, kind in ((sreq, "replicate_request"), (sans, "replicate_answer")):
        cs = [c for c in ast.walk(f.node) if isinstance(c, ast.Call) and call_name(c) == "UCSReplicateMessage"]
        ok = len(cs) == 1 and len(cs[0].args) == 10 and norm(cs[0].args[0]) == repr(kind) and [norm(a) for a in cs[0].args[3:]] == PROTO_PARAMS[2:]
        ctx.check(ok, "R-ROLES", f"{f.name}: UCSReplicateMessage('{kind}', budget, spent, rq_path, paths, visited, comp_def, footprint, replica_count, hosts)", f,
                  cs[0] if cs else f.node, "the message must carry the ten fields in the declared order")
    msgc = repo.cls(MOD, "UCSReplicateMessage")
    minit = msgc.methods["__init__"]
    for p in minit.params[1:]:
        srcs = R.field_params(repo, msgc, "_" + p)
        ctx.check(srcs == {p}, "R-ROLES", f"UCSReplicateMessage._{p} <- {p}", minit, minit.node, f"field _{p} must be filled from parameter {p} (found {sorted(srcs)})")
        ctx.check(R.property_field(repo, msgc, p) == "_" + p, "R-ROLES", f"UCSReplicateMessage.{p} -> _{p}", msgc, msgc.node, f"property {p} must return _{p}")
    # dispatch on the message kind
    ffh = FuncFacts(hdl.node)
    for callee, kind in (("on_replicate_request", "replicate_request"), ("on_replicate_answer", "replicate_answer")):
        cs = [c for c in walk_no_nested(hdl.node) if isinstance(c, ast.Call) and is_self_attr(c.func, callee)]
        ok = len(cs) == 1 and (f"msg.rep_msg_type == '{kind}'", True) in _facts(ffh, cs[0])
        ctx.check(ok, "R-ROLES", f"'{kind}' handled by {callee}", hdl, cs[0] if cs else hdl.node, "message kinds must be dispatched to their own handler")
    pend = [c for c in walk_no_nested(hdl.node) if isinstance(c, ast.Call) and norm(c.func) == "self._pending_requests.pop"]
    okp = len(pend) == 1 and norm(pend[0].args[0]) == "(agent, msg.computation_def.name)"
    st = [n for n in walk_no_nested(sreq.node) if isinstance(n, ast.Assign) and isinstance(n.targets[0], ast.Subscript) and is_self_attr(n.targets[0].value, "_pending_requests")]
    okp = okp and len(st) == 1 and norm(st[0].targets[0].slice) == "(target_agt, comp_def.name)"
    ctx.check(okp, "R-ROLES", "pending requests keyed by (next agent, computation) on both sides", hdl, pend[0] if pend else hdl.node,
              "a pending request is stored under (target agent, computation) and released by the answer of that agent for that computation")
    ctx.floor("R-ROLES", 30)


def _block_of(func_node, stmt):
    for n in ast.walk(func_node):
        for fld in ("body", "orelse", "finalbody"):
            blk = getattr(n, fld, None)
            if isinstance(blk, list) and any(s is stmt for s in blk):
                return blk
    return []


_U = "pydcop/replication/dist_ucs_hostingcosts.py"
_P = "pydcop/replication/path_utils.py"
VARIANTS = [
    ("budget_increase_must_be_strict", _U, "            budget = min(c for c, p in paths if p != rq_path)", "            budget = min(c for c, p in paths if c > budget)", "break", "R-BUDGET"),
    ("class_memo_back", _U, "    def _max_footprint(self):", "    memoize_footprint = {}\n\n    def _max_footprint(self):", "break", "R-CACHE"),
    ("owner_keyed_dict", _U, "            total_footprint = sum(\n                f for a, f in self._hosted_replicas.values() if a in selected\n            )", "            agt_footprints = {a: f for a, f in self._hosted_replicas.values()}\n            total_footprint = sum(\n                f for a, f in agt_footprints.items() if a in selected\n            )", "break", "R-WORSTCASE"),
    ("k_not_minus_one", _U, "        max_agt = min(self.k_target - 1, len(tentative_agents))\n        max_footprint = 0\n        for selected in itertools.combinations(tentative_agents, max_agt):\n            total_footprint", "        max_agt = min(self.k_target - 2, len(tentative_agents))\n        max_footprint = 0\n        for selected in itertools.combinations(tentative_agents, max_agt):\n            total_footprint", "break", "R-WORSTCASE"),
    ("canhost_ignores_new_footprint", _U, "        max_footprint = self._max_footprint() + footprint\n", "        max_footprint = self._max_footprint()\n", "break", "R-CANHOST"),
    ("canhost_strict_flip", _U, "        if remaining_capacity >= max_footprint:", "        if remaining_capacity <= max_footprint:", "break", "R-CANHOST"),
    ("canhost_dup_check_dropped", _U, "        if computation in self._hosted_replicas:\n            return False\n\n        max_footprint", "        max_footprint", "break", "R-CANHOST"),
    ("accept_without_check", _U, "            if self._can_host(target_path[0], comp_def.name, footprint):\n                self._accept_replica(target_path[0], comp_def, footprint)", "            if self._can_host(target_path[0], comp_def.name, 0):\n                self._accept_replica(target_path[0], comp_def, footprint)", "break", "R-ACCEPT"),
    ("record_swapped", _U, "        self._hosted_replicas[comp_name] = (origin_agt, footprint)", "        self._hosted_replicas[comp_name] = (footprint, origin_agt)", "break", "R-RECORD"),
    ("not_published", _U, "        self.discovery.register_replica(comp_name, self.agt_name)\n", "        self.discovery.register_replica(comp_name, self.agt_name, publish=False)\n", "break", "R-RECORD"),
    ("owner_hosts_itself", _U, "        if computation not in self.computations:\n            # Add a path to a virtual node", "        if True:\n            # Add a path to a virtual node", "break", "R-OWNER"),
    ("hosting_path_not_removed", _U, "            # so we must remove it form the paths.\n            remove_path(paths, target_path)\n", "            # so we must remove it form the paths.\n", "break", "R-VISIT"),
    ("count_not_decremented", _U, "                hosts.append(self.agent_def.name)\n                replica_count -= 1\n", "                hosts.append(self.agent_def.name)\n", "break", "R-VISIT"),
    ("done_missing_no_neighbor", _U, "                f\"Cannot replicate computations {computations} : no neighbor\"\n            )\n            self.replication_done(dict(deepcopy(self._replica_hosts)))\n            return", "                f\"Cannot replicate computations {computations} : no neighbor\"\n            )\n            return", "break", "R-DONE"),
    ("done_missing_nothing_to_do", _U, "            self.logger.info(f\"No computation to replicate for {self.name} \")\n            self.replication_done(dict(deepcopy(self._replica_hosts)))\n            return", "            self.logger.info(f\"No computation to replicate for {self.name} \")\n            return", "break", "R-DONE"),
    ("done_always", _U, "        if self._replication_in_progress.is_empty():\n            # All computations have been replicated", "        if True:\n            # All computations have been replicated", "break", "R-DONE"),
    ("answer_arith_same_direction", _U, "        budget += cost_to_target\n        spent -= cost_to_target", "        budget -= cost_to_target\n        spent += cost_to_target", "break", "R-BUDGET"),
    ("request_budget_not_reduced", _U, "        budget_to_next = budget - cost_to_next", "        budget_to_next = budget", "break", "R-BUDGET"),
    ("exact_float_compare", _P, "(cost - max_path_cost) <= 0.0001", "cost <= max_path_cost", "break", "R-BUDGET"),
    ("budget_only", _U, "            for p in affordable_path_from(rq_path, budget + spent, paths)", "            for p in affordable_path_from(rq_path, budget, paths)", "break", "R-BUDGET"),
    ("args_swapped", _U, "            self.on_replicate_request(\n                budget,\n                0,\n                (current,),\n                paths,\n                visited,\n                comp_def,\n                footprint,\n                replica_count,\n                hosts,", "            self.on_replicate_request(\n                budget,\n                0,\n                (current,),\n                paths,\n                visited,\n                comp_def,\n                replica_count,\n                footprint,\n                hosts,", "break", "R-ROLES"),
    ("msg_fields_swapped", _U, "        self._budget = budget\n        self._spent = spent\n", "        self._budget = spent\n        self._spent = budget\n", "break", "R-ROLES"),
    ("handler_kinds_crossed", _U, "        elif msg.rep_msg_type == \"replicate_answer\":", "        elif msg.rep_msg_type == \"replicate_request\":", "break", "R-ROLES"),
    ("n_tolerance_helper", _P, "(cost - max_path_cost) <= 0.0001", "cost <= max_path_cost + 0.0001", "neutral"),
]
