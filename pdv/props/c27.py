"""C27 - after an agent removal every computation runs on exactly one live agent.

The outcome itself depends on the run-time solution of the repair DCOP and on
discovery timing and is NOT decided.  Decided, because each is a necessary
condition of the stated outcome that nothing else covers:

* R-ORPHANS   the orphans of an event are all the computations of all departed
              agents;
* R-STATUS    the orchestrator reports OK only when no orphan is left without a
              host: `_comps_state` is seeded with every orphan (None), updated
              only from the agents' repair_done reports, and the OK literal
              reaches the report only when no value is None (or nothing was
              orphaned);
* R-BARRIER   setup -> run -> done barriers: run is requested only when no
              candidate is still setting up; the repair is closed only when no
              candidate is still running;
* R-ACTIVATE  an agent deploys an orphan only if its repair variable is 1, from
              the replica it holds, publishes it, drops the replica on every
              path, and reports exactly the candidates whose variable is 1;
* R-REPAIRDCOP the repair DCOP is a minimisation, each repair computation gets the
              hosted (exactly-one), capacity, hosting and communication
              constraints, its variable is this agent's own, the variables
              range over the candidate agents (slot 0 of the info triple), the
              capacity constraint uses the capacity left by what is hosted;
* R-PROTO     message chain agent_removed -> setup_repair -> repair_ready ->
              repair_run -> repair_done: types, handlers, fields at both ends;
* R-STATES    agent-state literals written are compared somewhere and vice versa;
* R-REREPLICATE k-resilience is restored after each event (needed for the next one):
              the replication computation listens to all agent events; on a
              removal that changes its neighbour cache it records the agent,
              answers the requests pending on it and re-launches replication of
              the replicas it held, all for the departed agent; containers of
              (agent, cost) pairs / keyed by (agent, computation) are never
              probed with a bare agent name.
"""
import ast

from ..model import walk_no_nested, norm, call_name, is_self_attr, is_self_call
from ..facts import FuncFacts, facts_at, stmt_paths
from ..report import Ctx, AnalysisError
from ..effects import field_writes, fact_set, stmt_has_self_call
from ..flow import bound_arg, resolve_local, local_defs
from .. import shaperules

ORC = "pydcop.infrastructure.orchestrator"
AG = "pydcop.infrastructure.agents"
OA = "pydcop.infrastructure.orchestratedagents"
RM = "pydcop.reparation.removal"
STATES = ("replicating", "ready", "running", "repair_setup", "repair_ready", "repair_run", "repair_done")


UCS = "pydcop.replication.dist_ucs_hostingcosts"


def _rereplicate(ctx, repo):
    cls = repo.cls(UCS, "UCSReplication")
    shaperules.check_shapes(ctx, "R-REREPLICATE", cls, min_fields=2)
    ev = cls.methods["_on_agent_event"]
    ctx.touch(ev)
    subs = [c for f in cls.methods.values() for c in walk_no_nested(f.node) if isinstance(c, ast.Call) and norm(c.func) == "self.discovery.subscribe_all_agents"
            and c.args and norm(c.args[0]) == "self._on_agent_event"]
    ctx.check(len(subs) >= 1, "R-REREPLICATE", "UCSReplication subscribes _on_agent_event to all agent events", ev, subs[0] if subs else ev.node, "without the subscription a departure is never seen")
    ep, ap = ev.params[1], ev.params[2]
    ff = FuncFacts(ev.node)
    rebinding = [a for a in walk_no_nested(ev.node) if isinstance(a, ast.Assign) and norm(a.targets[0]) == "self._replication_computations_cache"]
    ok = len(rebinding) == 1
    fs0 = fact_set(ff, rebinding[0]) if ok else set()
    ok = ok and (f"{ep} == 'agent_removed'", True) in fs0
    if ok:
        v = resolve_local(ev, rebinding[0].value)
        v = v if isinstance(v, ast.SetComp) else next((a.value for a in walk_no_nested(ev.node) if isinstance(a, ast.Assign) and norm(a.targets[0]) == norm(rebinding[0].value)), None)
        ok = isinstance(v, ast.SetComp) and norm(v.generators[0].iter) == "self._replication_computations_cache" and isinstance(v.generators[0].target, ast.Tuple) and \
            len(v.generators[0].ifs) == 1 and norm(v.generators[0].ifs[0]) in (f"{norm(v.generators[0].target.elts[0])} != {ap}", f"{ap} != {norm(v.generators[0].target.elts[0])}") and \
            norm(v.elt) == norm(v.generators[0].target)
    ctx.check(ok, "R-REREPLICATE", "on agent_removed the neighbour cache loses exactly the pairs of the departed agent", ev, rebinding[0] if rebinding else ev.node,
              "the cache of (agent, route cost) pairs must be rebuilt without the departed agent")
    for want in ("self._removed_agents.add", "self._answer_lost_requests", "self._replicate_on_agent_lost"):
        cs = [c for c in walk_no_nested(ev.node) if isinstance(c, ast.Call) and norm(c.func) == want]
        okc = len(cs) == 1 and [norm(a) for a in cs[0].args] == [ap] and rebinding and fact_set(ff, cs[0]) == fs0
        ctx.check(okc, "R-REREPLICATE", f"on a removal that changed the cache: {want}({ap})", ev, cs[0] if cs else ev.node,
                  "whenever the departed agent was a replication neighbour, it is recorded, its pending requests are answered and the replicas it held are re-created; "
                  "otherwise the next departure finds fewer than k replicas")
    lost = cls.methods["_replicate_on_agent_lost"]
    ctx.touch(lost)
    lp = lost.params[1]
    loops = [l for l in lost.node.body if isinstance(l, ast.For) and norm(l.iter) == "self._replica_hosts.items()"]
    ok = len(loops) == 1
    if ok:
        rn, an = [norm(e) for e in loops[0].target.elts]
        t = norm(loops[0])
        ok = f"if {lp} in {an}:" in t and f"{an}.remove({lp})" in t and f".append({rn})" in t
    ctx.check(ok, "R-REREPLICATE", "every computation that had a replica on the departed agent is collected and the agent removed from its hosts", lost, loops[0] if loops else lost.node, "")
    rep = [c for c in ast.walk(lost.node) if isinstance(c, ast.Call) and is_self_call(c, "replicate")]
    ctx.check(len(rep) >= 1, "R-REREPLICATE", "lost replicas are re-created through replicate()", lost, rep[0] if rep else lost.node, "")
    # a candidate that was not selected drops its replica completely (so that it can hold one again) and un-publishes it
    rmr = cls.methods["remove_replica"]
    ctx.touch(rmr)
    rtx = [norm(s_) for s_ in rmr.node.body]
    p0 = rmr.params[1]
    ctx.check(f"self.replicas.pop({p0})" in rtx and f"self._hosted_replicas.pop({p0})" in rtx and f"self.discovery.unregister_replica({p0}, self.agt_name)" in rtx,
              "R-REREPLICATE", "remove_replica forgets the definition, the (owner, footprint) record and the publication", rmr, rmr.node,
              "a record left in _hosted_replicas makes _can_host refuse that computation for ever: after a repair the computation is re-replicated on fewer agents than k and "
              "the next departure can lose it")
    ur = repo.func("pydcop.infrastructure.discovery", "Discovery.unregister_replica")
    ctx.touch(ur)
    g0 = [st for st in ur.node.body if isinstance(st, ast.If) and isinstance(st.test, ast.Compare) and isinstance(st.test.ops[0], ast.NotIn) and norm(st.test.left) == ur.params[1]]
    ctx.check(len(g0) >= 1 and norm(g0[0].test) == f"{ur.params[1]} not in self._replicas_data", "R-REREPLICATE", "Discovery.unregister_replica only gives up when the replica table does not know the computation", ur,
              g0[0] if g0 else ur.node, "during a repair the candidates forget the orphan as a *computation*; their replica must still be un-published when they drop it")
    alr = cls.methods["_answer_lost_requests"]
    ctx.touch(alr)
    comp = [x for x in ast.walk(alr.node) if isinstance(x, ast.ListComp) and norm(x.generators[0].iter) == "self._pending_requests"]
    ok = len(comp) == 1 and isinstance(comp[0].generators[0].target, ast.Tuple) and [norm(i) for i in comp[0].generators[0].ifs] in (
        [f"{norm(comp[0].generators[0].target.elts[0])} == {alr.params[1]}"], [f"{alr.params[1]} == {norm(comp[0].generators[0].target.elts[0])}"])
    ans = [c for c in ast.walk(alr.node) if isinstance(c, ast.Call) and is_self_call(c, "on_replicate_answer")]
    ctx.check(ok and len(ans) == 1, "R-REREPLICATE", "requests pending on the departed agent (first key component) get a local answer", alr, comp[0] if comp else alr.node,
              "a request sent to an agent that left is never answered: the search for a host would wait for ever")


def check(ctx: Ctx):
    repo = ctx.repo
    ctx.decided = ("orphans = every computation of every departed agent; OK status only when no orphan is left unhosted; setup/run/done "
                   "barriers; deployment only of selected candidates from the held replica, replica dropped on all paths, report = "
                   "selected candidates; repair DCOP minimised with hosted/capacity/hosting/communication constraints over the right "
                   "variables; message chain types/handlers/fields; state literal table.")
    ctx.undecided = ("the solution of the repair DCOP (that exactly one candidate ends with value 1), discovery timing, "
                     "thread scheduling, re-replication.")
    ctx.rule("R-ORPHANS", "orphans = computations of all departed agents")
    ctx.rule("R-STATUS", "repair reported OK only when no orphan is left without host")
    ctx.rule("R-BARRIER", "run requested when no candidate is still in setup; repair closed when no candidate is still running")
    ctx.rule("R-ACTIVATE", "deploy iff repair variable == 1, from the held replica, published; replica dropped on all paths; report = selected candidates")
    ctx.rule("R-REPAIRDCOP", "repair DCOP: minimisation; hosted/capacity/hosting/communication constraints; own variable; candidate agents from slot 0")
    ctx.rule("R-PROTO", "repair message chain: types, handlers, fields")
    ctx.rule("R-REREPLICATE", "after a removal the owner drops the departed agent from its replication neighbours, answers its pending requests and re-creates the lost replicas")
    ctx.rule("R-STATES", "agent-state literals: every written literal is compared or terminal, every compared literal is written")
    _rereplicate(ctx, repo)
    _orphans(ctx, repo)
    _status(ctx, repo)
    _barrier(ctx, repo)
    _activate(ctx, repo)
    _repair_dcop(ctx, repo)
    _proto(ctx, repo)
    _states(ctx, repo)
    ctx.floor("R-STATUS", 6)
    ctx.floor("R-ACTIVATE", 5)
    ctx.floor("R-REPAIRDCOP", 6)
    ctx.floor("R-PROTO", 10)


# --------------------------------------------------------------------------- orphans
def check_orphans(ctx, repo, rule="R-ORPHANS"):
    f = repo.func(RM, "_removal_orphaned_computations")
    ctx.touch(f)
    p_dep, p_disc = f.params[0], f.params[1]
    rets = [r for r in walk_no_nested(f.node) if isinstance(r, ast.Return)]
    ok = len(rets) == 1 and rets[0].value is not None
    node = f.node
    if ok:
        v = rets[0].value
        node = rets[0]
        if isinstance(v, ast.Name):
            acc = v.id
            inits = [s for s in f.node.body if isinstance(s, ast.Assign) and norm(s.targets[0]) == acc]
            ok = len(inits) == 1 and norm(inits[0].value) in ("[]", "list()")
            loops = [l for l in f.node.body if isinstance(l, ast.For) and norm(l.iter) == p_dep and isinstance(l.target, ast.Name)]
            ok = ok and len(loops) == 1
            if ok:
                av = loops[0].target.id
                body = [s for s in loops[0].body if not (isinstance(s, ast.Expr) and isinstance(s.value, ast.Constant))]
                ok = len(body) == 1
                if ok:
                    s = body[0]
                    want = f"{p_disc}.agent_computations({av})"
                    ok = (isinstance(s, ast.AugAssign) and isinstance(s.op, ast.Add) and norm(s.target) == acc and norm(s.value) in (want, f"list({want})")) or \
                        (isinstance(s, ast.Expr) and isinstance(s.value, ast.Call) and norm(s.value.func) == f"{acc}.extend" and norm(s.value.args[0]) == want)
            # nothing else writes the accumulator
            others = [n for n in ast.walk(f.node) if isinstance(n, (ast.Assign, ast.AugAssign)) and acc in [norm(t) for t in (n.targets if isinstance(n, ast.Assign) else [n.target])]]
            ok = ok and len(others) == (2 if any(isinstance(n, ast.AugAssign) for n in others) else 1)
            mut = [c for c in ast.walk(f.node) if isinstance(c, ast.Call) and isinstance(c.func, ast.Attribute) and norm(c.func.value) == acc and c.func.attr in ("remove", "pop", "clear")]
            ok = ok and not mut
        elif isinstance(v, ast.ListComp) and len(v.generators) == 2:
            g1, g2 = v.generators
            ok = norm(g1.iter) == p_dep and norm(g2.iter) == f"{p_disc}.agent_computations({norm(g1.target)})" and norm(v.elt) == norm(g2.target) and not g1.ifs and not g2.ifs
        else:
            ok = False
    ctx.check(ok, rule, "orphans = every computation discovery attributes to each departed agent", f, node,
              "a departed agent may host several computations: each of them must be offered for repair and tracked, otherwise it silently disappears while the repair is reported OK")


def _orphans(ctx, repo):
    check_orphans(ctx, repo)
    ar = repo.func(ORC, "AgentsMgt._agents_removal")
    ctx.touch(ar)
    d = local_defs(ar, "orphaned")
    ok = len(d) == 1 and isinstance(d[0], ast.Call) and call_name(d[0]) == "_removal_orphaned_computations" and [norm(a) for a in d[0].args] == [ar.params[1], "self.discovery"]
    ctx.check(ok, "R-ORPHANS", "the orchestrator computes the orphans of the event from the leaving agents", ar, ar.node, "")
    ev = repo.func(ORC, "AgentsMgt._orchestrator_scenario_event")
    ctx.touch(ev)
    ff = FuncFacts(ev.node)
    apps = [c for c in ast.walk(ev.node) if isinstance(c, ast.Call) and norm(c.func) == "leaving_agents.append"]
    ok = len(apps) == 1
    if ok:
        fs = fact_set(ff, apps[0])
        ok = ("a.type == 'remove_agent'", True) in fs and norm(apps[0].args[0]) == "agt" and "agt = a.args['agent']" in norm(ev.node)
        sends = [c for c in ast.walk(ev.node) if isinstance(c, ast.Call) and is_self_call(c, "_send_mgt_msg") and len(c.args) == 2 and call_name(c.args[1]) == "AgentRemovedMessage"]
        ok = ok and len(sends) == 1 and norm(sends[0].args[0]) == "agt" and ("a.type == 'remove_agent'", True) in fact_set(ff, sends[0])
    calls = [s for s in ev.node.body if isinstance(s, ast.Expr) and isinstance(s.value, ast.Call) and is_self_call(s.value, "_agents_removal")]
    ok = ok and len(calls) == 1 and norm(calls[0].value.args[0]) == "leaving_agents" and calls[0] is ev.node.body[-1]
    ctx.check(ok, "R-ORPHANS", "every remove_agent action of the event: the agent is told to leave and counted among the leaving agents, handled together after the loop", ev, apps[0] if apps else ev.node,
              "the property quantifies over events removing up to k agents at once: all of them must be in the departed set used for orphans and candidate filtering")


# --------------------------------------------------------------------------- status
def _status(ctx, repo):
    cls = repo.cls(ORC, "AgentsMgt")
    rd = repo.func(ORC, "AgentsMgt._on_repair_done")
    ar = repo.func(ORC, "AgentsMgt._agents_removal")
    ctx.touch(rd)
    ffd = FuncFacts(rd.node)
    ffa = FuncFacts(ar.node)
    mp = rd.params[2]
    # who writes _comps_state
    n_seed = n_upd = 0
    for w in field_writes(cls, "_comps_state", containers=True):
        if w.func.name == "__init__":
            continue
        if w.kind == "call:update" and w.func is ar:
            a = w.value.args[0] if w.value.args else None
            ok = isinstance(a, ast.DictComp) and isinstance(a.value, ast.Constant) and a.value.value is None and norm(a.generators[0].iter) == "orphaned" and norm(a.key) == norm(a.generators[0].target) and not a.generators[0].ifs
            n_seed += 1
            ctx.check(ok and ("not orphaned", False) in w.facts or ok and ("orphaned", True) in w.facts or ok and not [x for x in w.facts if "orphaned" in x[0] and x != ("not orphaned", False)],
                      "R-STATUS", "every orphan of the event is recorded as not hosted (None) before the repair starts", w.func, w.stmt,
                      "an orphan that is not tracked cannot make the final status KO")
        elif w.kind == "call:update" and w.func is rd:
            a = w.value.args[0] if w.value.args else None
            ok = isinstance(a, ast.DictComp) and norm(a.value) == f"{mp}.agent" and norm(a.generators[0].iter) == f"{mp}.selected_computations" and norm(a.key) == norm(a.generators[0].target) and not a.generators[0].ifs
            n_upd += 1
            ctx.check(ok and ("current_agt_state == 'repair_run'", True) in w.facts, "R-STATUS", "an orphan is marked hosted only by the repair_done report of the agent that selected it", w.func, w.stmt,
                      "the host recorded must be the reporting agent, for exactly the computations it reports")
        else:
            ctx.bad("R-STATUS", f"unlicensed write of _comps_state in {w.func.name}", w.func, w.stmt, "only the orphan seeding and the repair_done reports may change the hosting state of orphans")
    ctx.check(n_seed == 1 and n_upd == 1, "R-STATUS", "orphan tracking: one seeding site, one update site", cls, cls.node, f"seed={n_seed} update={n_upd}")
    # the status literal handed to the report
    n_ok = 0
    for f in (rd, ar):
        ff = ffd if f is rd else ffa
        for c in ast.walk(f.node):
            if isinstance(c, ast.Call) and is_self_call(c, "_dump_repair_metrics") and c.args:
                a = c.args[0]
                fs = fact_set(ff, c)
                if isinstance(a, ast.Constant):
                    if a.value == "OK":
                        n_ok += 1
                        ctx.check(f is ar and (("not orphaned", True) in fs or ("orphaned", False) in fs), "R-STATUS", "literal OK only when the event orphaned nothing", f, c,
                                  "an unconditional OK hides lost computations")
                    continue
                if not isinstance(a, ast.Name):
                    ctx.bad("R-STATUS", "status handed to the report", f, c, "the status expression could not be resolved")
                    continue
                defs = [s for s in ast.walk(f.node) if isinstance(s, ast.Assign) and norm(s.targets[0]) == a.id]
                oks = [s for s in defs if isinstance(s.value, ast.Constant) and s.value.value == "OK"]
                kos = [s for s in defs if isinstance(s.value, ast.Constant) and s.value.value != "OK"]
                good = len(oks) == 1 and len(kos) == 1 and len(defs) == 2
                if good:
                    blk_ok = _block_of(f.node, oks[0])
                    st_c = ff.stmt(c)
                    ko_if = next((s for s in blk_ok if isinstance(s, ast.If) and any(k is x for x in ast.walk(s) for k in kos)), None)
                    good = ko_if is not None and st_c in blk_ok and blk_ok.index(oks[0]) < blk_ok.index(ko_if) < blk_ok.index(st_c) and isinstance(ko_if.test, ast.Name)
                    if good:
                        lost = local_defs(f, ko_if.test.id)
                        good = len(lost) == 1 and isinstance(lost[0], ast.ListComp) and len(lost[0].generators) == 1
                        if good:
                            g = lost[0].generators[0]
                            good = norm(g.iter) == "self._comps_state.items()" and isinstance(g.target, ast.Tuple) and len(g.target.elts) == 2 and \
                                [norm(x) for x in g.ifs] == [f"{norm(g.target.elts[1])} is None"] and norm(lost[0].elt) == norm(g.target.elts[0])
                            # the KO assignment is directly in the if body (not nested under a further condition)
                            good = good and any(k in ko_if.body for k in kos)
                n_ok += 1
                ctx.check(good, "R-STATUS", "status is OK unless some tracked orphan still has no host (value None), then KO", f, c,
                          "the only licence for OK is that every orphan recorded in _comps_state has been claimed by a surviving agent")
    ctx.check(n_ok >= 2, "R-STATUS", "both report sites found (nothing orphaned / repair finished)", rd, rd.node, "")


def _block_of(fnode, st):
    for n in ast.walk(fnode):
        for fld in ("body", "orelse", "finalbody"):
            blk = getattr(n, fld, None)
            if isinstance(blk, list) and any(s is st for s in blk):
                return blk
    return [st]


# --------------------------------------------------------------------------- barriers
def _waited_def(f, name, state):
    d = local_defs(f, name)
    if len(d) != 1 or not isinstance(d[0], ast.ListComp) or len(d[0].generators) != 1:
        return False
    g = d[0].generators[0]
    v = norm(g.target)
    return norm(g.iter) == "self._agts_state" and norm(d[0].elt) == v and [norm(x) for x in g.ifs] == [f"self._agts_state[{v}] == '{state}'"]


def _barrier(ctx, repo):
    rr = repo.func(ORC, "AgentsMgt._on_repair_ready")
    rd = repo.func(ORC, "AgentsMgt._on_repair_done")
    ar = repo.func(ORC, "AgentsMgt._agents_removal")
    for f in (rr, rd, ar):
        ctx.touch(f)
    mp = rr.params[2]
    ff = FuncFacts(rr.node)
    sends = [c for c in ast.walk(rr.node) if isinstance(c, ast.Call) and is_self_call(c, "_send_mgt_msg") and len(c.args) == 2 and call_name(c.args[1]) == "RepairRunMessage"]
    ok = len(sends) == 1
    if ok:
        fs = fact_set(ff, sends[0])
        ok = ("current_agt_state == 'repair_setup'", True) in fs and ("waited", False) in fs and _waited_def(rr, "waited", "repair_setup")
        lp = [g for g in ff.guards_at(sends[0]) if g.kind == "for"]
        ok = ok and len(lp) == 1 and isinstance(lp[0].test, ast.Name) and _waited_def(rr, lp[0].test.id, "repair_ready") and norm(sends[0].args[0]) == norm(lp[0].node.target)
        if ok:
            st = [s for s in lp[0].node.body if isinstance(s, ast.Assign) and norm(s.targets[0]) == f"self._agts_state[{norm(lp[0].node.target)}]"]
            ok = len(st) == 1 and isinstance(st[0].value, ast.Constant) and st[0].value.value == "repair_run"
        # own state set to repair_ready before computing who is still waited
        top = _block_of(rr.node, ff.stmt(next(n for n in ast.walk(rr.node) if isinstance(n, ast.Assign) and norm(n.targets[0]) == "waited")))
        i_set = [i for i, s in enumerate(top) if isinstance(s, ast.Assign) and norm(s.targets[0]) == f"self._agts_state[{mp}.agent]" and isinstance(s.value, ast.Constant) and s.value.value == "repair_ready"]
        i_w = [i for i, s in enumerate(top) if isinstance(s, ast.Assign) and norm(s.targets[0]) == "waited"]
        ok = ok and len(i_set) == 1 and len(i_w) == 1 and i_set[0] < i_w[0]
    ctx.check(ok, "R-BARRIER", "repair_run is sent, to every ready agent, exactly when no candidate is still in repair_setup", rr, sends[0] if sends else rr.node,
              "all repair computations must exist before any starts: a run request sent while a candidate is still building its part leaves messages without destination")
    ffd = FuncFacts(rd.node)
    mp = rd.params[2]
    dumps = [c for c in ast.walk(rd.node) if isinstance(c, ast.Call) and is_self_call(c, "_dump_repair_metrics")]
    ok = len(dumps) == 1
    if ok:
        fs = fact_set(ffd, dumps[0])
        ok = ("current_agt_state == 'repair_run'", True) in fs and ("waited", False) in fs and _waited_def(rd, "waited", "repair_run")
        top = _block_of(rd.node, ffd.stmt(next(n for n in ast.walk(rd.node) if isinstance(n, ast.Assign) and norm(n.targets[0]) == "waited")))
        i_set = [i for i, s in enumerate(top) if isinstance(s, ast.Assign) and norm(s.targets[0]) == f"self._agts_state[{mp}.agent]" and isinstance(s.value, ast.Constant) and s.value.value == "repair_done"]
        i_w = [i for i, s in enumerate(top) if isinstance(s, ast.Assign) and norm(s.targets[0]) == "waited"]
        i_upd = [i for i, s in enumerate(top) if isinstance(s, ast.Expr) and "self._comps_state.update" in norm(s)]
        i_if = [i for i, s in enumerate(top) if isinstance(s, ast.If) and norm(s.test) == "waited"]
        ok = ok and len(i_set) == 1 and len(i_w) == 1 and i_set[0] < i_w[0] and len(i_upd) == 1 and len(i_if) == 1 and i_upd[0] < i_if[0]
    ctx.check(ok, "R-BARRIER", "the repair is closed (status, resume) exactly when no candidate is still in repair_run, after recording the last report", rd, dumps[0] if dumps else rd.node,
              "the status must be computed when every candidate has reported, and must include the report just received")
    # setup sent to every candidate agent
    ffa = FuncFacts(ar.node)
    sends = [c for c in ast.walk(ar.node) if isinstance(c, ast.Call) and is_self_call(c, "_send_mgt_msg") and len(c.args) == 2]
    ok = len(sends) == 1
    if ok:
        lp = [g for g in ffa.guards_at(sends[0]) if g.kind == "for"]
        ok = len(lp) == 1 and not [g for g in ffa.guards_at(sends[0]) if g.kind == "if" and any(n is g.node for n in ast.walk(lp[0].node))]
        if ok:
            cv = norm(lp[0].node.target)
            src = resolve_local(ar, lp[0].test)
            ok = isinstance(src, ast.Call) and call_name(src) == "_removal_candidate_agents" and [norm(a) for a in src.args] == [ar.params[1], "self.discovery"]
            m = resolve_local(ar, sends[0].args[1])
            md = [s.value for s in lp[0].node.body if isinstance(s, ast.Assign) and norm(s.targets[0]) == norm(sends[0].args[1])]
            m = md[0] if md else m
            info = [s.value for s in lp[0].node.body if isinstance(s, ast.Assign) and isinstance(m, ast.Call) and m.args and norm(s.targets[0]) == norm(m.args[0])]
            ok = ok and isinstance(m, ast.Call) and call_name(m) == "SetupRepairMessage" and len(info) == 1 and call_name(info[0]) == "_removal_candidate_agt_info" \
                and [norm(a) for a in info[0].args] == [cv, ar.params[1], "self.graph", "self.discovery"] and norm(sends[0].args[0]) == cv
            st = [s for s in lp[0].node.body if isinstance(s, ast.Assign) and norm(s.targets[0]) == f"self._agts_state[{cv}]"]
            ok = ok and len(st) == 1 and isinstance(st[0].value, ast.Constant) and st[0].value.value == "repair_setup"
    ctx.check(ok, "R-BARRIER", "every candidate agent receives its repair information and enters repair_setup", ar, sends[0] if sends else ar.node,
              "candidates = surviving replica holders of the orphans; each gets the info computed for it from the same departed set")


# --------------------------------------------------------------------------- activation
def _activate(ctx, repo):
    f = repo.func(AG, "ResilientAgent._on_repair_computation_finished")
    ctx.touch(f)
    ff = FuncFacts(f.node)
    cp = f.params[1]
    rc = [s for s in f.node.body if isinstance(s, ast.Assign) and norm(s.value) == f"self._repair_computations[{cp}]"]
    if len(rc) != 1:
        raise AnalysisError("_on_repair_computation_finished: repair registration lookup not found")
    rv = norm(rc[0].targets[0])
    adds = [c for c in ast.walk(f.node) if isinstance(c, ast.Call) and is_self_call(c, "add_computation")]
    ok = len(adds) == 1
    if ok:
        fs = fact_set(ff, adds[0])
        ok = fs == {(f"{rv}.computation.current_value == 1", True)}
        pub = next((k.value for k in adds[0].keywords if k.arg == "publish"), adds[0].args[1] if len(adds[0].args) > 1 else None)
        okp = isinstance(pub, ast.Constant) and pub.value is True
        comp = resolve_local(f, adds[0].args[0])
        okb = isinstance(comp, ast.Call) and call_name(comp) == "build_computation" and len(comp.args) == 1
        if okb:
            cd = resolve_local(f, comp.args[0])
            okb = norm(cd) == f"self.replication_comp.replicas[{rv}.candidate]"
        ctx.check(okp, "R-ACTIVATE", "the activated computation is published in discovery", f, adds[0], "the directory must learn the new host: otherwise the computation is hosted but unknown (or believed on the departed agent)")
        ctx.check(okb, "R-ACTIVATE", "the activated computation is built from the replica this agent holds for that candidate", f, adds[0],
                  "the new host must have held the replica: the definition deployed must be replicas[<candidate of this repair variable>]")
    ctx.check(ok, "R-ACTIVATE", "an orphan is deployed here iff this agent's repair variable ended at 1", f, adds[0] if adds else f.node,
              "deploying under any other condition hosts the computation on several agents or on none")
    rem = [s for s in f.node.body if isinstance(s, ast.Expr) and isinstance(s.value, ast.Call) and norm(s.value.func) == "self.replication_comp.remove_replica" and norm(s.value.args[0]) == f"{rv}.candidate"]
    ctx.check(len(rem) == 1, "R-ACTIVATE", "the replica of the candidate is dropped on every path", f, rem[0] if rem else f.node,
              "selected or not, the replica is obsolete once the repair variable has finished: a stale replica makes this agent a candidate again in a later event")
    # report
    calls = [c for c in ast.walk(f.node) if isinstance(c, ast.Call) and is_self_call(c, "_on_repair_done")]
    ok = len(calls) == 1
    if ok:
        fs = fact_set(ff, calls[0])
        ok = any(t.startswith("all(") and "status == 'finished'" in t and "self._repair_computations.values()" in t and p for t, p in fs)
        sel = resolve_local(f, calls[0].args[0])
        ok = ok and isinstance(sel, ast.ListComp) and len(sel.generators) == 1
        if ok:
            g = sel.generators[0]
            v = norm(g.target)
            ok = norm(g.iter) == "self._repair_computations.values()" and norm(sel.elt) == f"{v}.candidate" and [norm(x) for x in g.ifs] == [f"{v}.computation.current_value == 1"]
    ctx.check(ok, "R-ACTIVATE", "once all repair variables have finished the agent reports exactly the candidates whose variable is 1", f, calls[0] if calls else f.node,
              "the orchestrator marks as hosted what is reported here: the report must use the same predicate as the deployment")
    st = [s for s in f.node.body if isinstance(s, ast.Assign) and norm(s.targets[0]) == f"{rv}.status" and isinstance(s.value, ast.Constant) and s.value.value == "finished"]
    ctx.check(len(st) == 1, "R-ACTIVATE", "the repair variable is marked finished unconditionally", f, st[0] if st else f.node, "the all-finished test counts these marks")
    # routed from the finished notification
    cf = repo.func(AG, "ResilientAgent._on_computation_finished")
    ffc = FuncFacts(cf.node)
    cs = [c for c in ast.walk(cf.node) if isinstance(c, ast.Call) and is_self_call(c, "_on_repair_computation_finished")]
    ok = len(cs) == 1 and norm(cs[0].args[0]) == cf.params[1] and any(t == f"{cf.params[1]} in self._repair_computations" and p for t, p in {(norm(a), b) for a, b in facts_at(ffc, cs[0])} | {x for a, b in facts_at(ffc, cs[0]) for x in [(norm(v), b) for v in (a.values if isinstance(a, ast.BoolOp) else [])]})
    ctx.check(ok, "R-ACTIVATE", "finished() of a repair computation triggers the activation step", cf, cs[0] if cs else cf.node, "")
    # forwarding to the orchestrator
    oa = repo.func(OA, "OrchestratedAgent._on_repair_done")
    mg = repo.func(OA, "OrchestrationComputation.on_repair_done")
    ok = any(isinstance(c, ast.Call) and norm(c.func) == "self._mgt_computation.on_repair_done" and [norm(a) for a in c.args] == oa.params[1:3] for c in ast.walk(oa.node)) and len(oa.params) == 3
    snd = [c for c in ast.walk(mg.node) if isinstance(c, ast.Call) and call_name(c) == "RepairDoneMessage"]
    mts = repo.message_types()
    fields = mts.get((ORC, "RepairDoneMessage"), (None, [], None))
    ok = ok and len(snd) == 1 and [norm(a) for a in snd[0].args] == ["self.agent.name"] + mg.params[1:3] and fields[0] == "repair_done" and fields[1] == ["agent", "selected_computations", "metrics"]
    ctx.check(ok, "R-ACTIVATE", "the report travels as RepairDoneMessage(agent, selected_computations, metrics)", mg, snd[0] if snd else mg.node, f"declared fields {fields[:2]}")
    call = calls[0] if calls else None
    ctx.check(call is not None and len(call.args) + len(call.keywords) == len(oa.params) - 1, "R-ACTIVATE", "the agent calls the report hook with the arity of the orchestrated override", f, call or f.node, "")


# --------------------------------------------------------------------------- repair dcop
def _repair_dcop(ctx, repo):
    f = repo.func(AG, "ResilientAgent.setup_repair")
    ctx.touch(f)
    ff = FuncFacts(f.node)
    ad = [c for c in ast.walk(f.node) if isinstance(c, ast.Call) and norm(c.func) == "AlgorithmDef.build_with_default_param"]
    ok = len(ad) == 1
    if ok:
        mode = next((k.value for k in ad[0].keywords if k.arg == "mode"), ad[0].args[2] if len(ad[0].args) > 2 else None)
        ok = isinstance(mode, ast.Constant) and mode.value == "min"
    ctx.check(ok, "R-REPAIRDCOP", "the repair DCOP is solved as a minimisation", f, ad[0] if ad else f.node,
              "its hard constraints cost 10000 when violated and 0 when satisfied, its soft constraints are costs: under any other objective "
              "violating 'hosted exactly once' is the preferred outcome (in particular the objective of the user's DCOP must not be inherited)")
    # constraints of each repair computation
    nodes = [c for c in ast.walk(f.node) if isinstance(c, ast.Call) and norm(c.func).endswith("VariableComputationNode") and len(c.args) == 2]
    ok = len(nodes) == 1
    if ok:
        lp = [g for g in ff.guards_at(nodes[0]) if g.kind == "for"]
        ok = len(lp) == 1 and norm(lp[0].test) == "candidate_binvars.items()"
        if ok:
            tgt = lp[0].node.target
            (cv, av), vv = [norm(e) for e in tgt.elts[0].elts], norm(tgt.elts[1])
            cons = resolve_local(f, nodes[0].args[1])
            cd = [s.value for s in lp[0].node.body if isinstance(s, ast.Assign) and norm(s.targets[0]) == norm(nodes[0].args[1])]
            cons = cd[0] if cd else cons
            ok = norm(nodes[0].args[0]) == vv and isinstance(cons, ast.List)
            if ok:
                want = {"comm", "hosting", "capacity", "hosted"}
                got = set()
                for e in cons.elts:
                    r = e
                    if isinstance(e, ast.Name):
                        dl = [s.value for s in lp[0].node.body if isinstance(s, ast.Assign) and norm(s.targets[0]) == e.id] or local_defs(f, e.id)
                        r = dl[0] if dl else e
                    if isinstance(r, ast.Call):
                        nm = call_name(r)
                        if nm == "create_agent_comp_comm_constraint":
                            if [norm(a) for a in r.args] == [av, cv, f"{f.params[1]}[{cv}]", "comm_func", "orphaned_binvars"]:
                                got.add("comm")
                        elif nm == "create_agent_hosting_constraint":
                            if [norm(a) for a in r.args] == ["own_name", "self.agent_def.hosting_cost", "candidate_binvars"]:
                                got.add("hosting")
                        elif nm == "create_agent_capacity_constraint":
                            if [norm(a) for a in r.args] == ["own_name", "remaining_capacity", "footprint_func", "candidate_binvars"]:
                                got.add("capacity")
                    elif isinstance(r, ast.Subscript) and norm(r) == f"hosted_cs[{cv}]":
                        got.add("hosted")
                ok = got == want and len(cons.elts) == 4
    ctx.check(ok, "R-REPAIRDCOP", "each repair variable carries the hosted (exactly-one), capacity, hosting and communication constraints built for it", f, nodes[0] if nodes else f.node,
              "without the hosted constraint nothing forces an orphan to be hosted once; without the capacity constraint nothing bounds what an agent accepts")
    t = norm(f.node)
    hs = [s for s in ast.walk(f.node) if isinstance(s, ast.Assign) and norm(s.targets[0]).startswith("hosted_cs[")]
    ok = len(hs) == 1 and isinstance(hs[0].value, ast.Call) and call_name(hs[0].value) == "create_computation_hosted_constraint"
    if ok:
        lp = [g for g in ff.guards_at(hs[0]) if g.kind == "for"]
        ok = len(lp) == 1 and norm(lp[0].test) == f"{f.params[1]}.items()"
        cv, iv = [norm(e) for e in lp[0].node.target.elts]
        vb = [s for s in lp[0].node.body if isinstance(s, ast.Assign) and norm(s.targets[0]) == "v_binvar"]
        ok = ok and [norm(a) for a in hs[0].value.args] == [cv, "v_binvar"] and norm(hs[0].targets[0]) == f"hosted_cs[{cv}]" and len(vb) == 1
        if ok:
            c = vb[0].value
            ok = isinstance(c, ast.Call) and call_name(c) == "create_binary_variables" and len(c.args) == 2 and isinstance(c.args[1], ast.Tuple)
            if ok:
                comps, agts = c.args[1].elts
                un = [s for s in lp[0].node.body if isinstance(s, ast.Assign) and isinstance(s.targets[0], ast.Tuple) and norm(s.value) == iv]
                first = norm(un[0].targets[0].elts[0]) if un else None
                ok = norm(comps) == f"[{cv}]" and norm(agts) in (f"{iv}[0]", first or "")
            own = [s for s in lp[0].node.body if isinstance(s, ast.Assign) and norm(s.targets[0]) == f"candidate_binvars[{cv}, own_name]"]
            ok = ok and len(own) == 1 and norm(own[0].value) == f"v_binvar[{cv}, own_name]" and "own_name = self.name" in t
            # the hosted constraint is created before v_binvar is re-bound for the neighbours
            later = [s for s in ast.walk(lp[0].node) if isinstance(s, ast.Assign) and norm(s.targets[0]) == "v_binvar" and s is not vb[0]]
            ok = ok and all(s.lineno > hs[0].lineno and s.lineno > own[0].lineno for s in later)
    ctx.check(ok, "R-REPAIRDCOP", "one binary variable per (orphan, candidate agent of slot 0); the hosted constraint spans them; this agent hosts its own", f, hs[0] if hs else f.node,
              "the exactly-one constraint must range over all candidate hosts of the orphan, and this agent decides only its own variable")
    rc = local_defs(f, "remaining_capacity")
    ok = len(rc) == 1 and norm(rc[0]) == "self.agent_def.capacity - sum((c.footprint() for c in self.computations()))"
    ctx.check(ok, "R-REPAIRDCOP", "capacity constraint uses the capacity left by what the agent hosts now", f, f.node, "")
    fp = [n for n in ast.walk(f.node) if isinstance(n, ast.FunctionDef) and n.name == "footprint_func"]
    ok = len(fp) == 1 and any(isinstance(r, ast.Return) and norm(r.value) == f"self.replication_comp.hosted_replicas[{fp[0].args.args[0].arg}][1]" for r in ast.walk(fp[0]))
    ctx.check(ok, "R-REPAIRDCOP", "footprint of a candidate = footprint recorded with its replica", f, fp[0] if fp else f.node, "")
    # repair_run starts every registered repair computation
    rr = repo.func(AG, "ResilientAgent.repair_run")
    ctx.touch(rr)
    lp = [l for l in rr.node.body if isinstance(l, ast.For)]
    ok = len(lp) == 1 and norm(resolve_local(rr, lp[0].iter)) == "list(self._repair_computations.values())" and any(isinstance(c, ast.Call) and norm(c.func) == f"{norm(lp[0].target)}.computation.start" for c in ast.walk(lp[0])) \
        and not any(isinstance(n, (ast.If, ast.Break, ast.Continue)) for n in ast.walk(lp[0]))
    ctx.check(ok, "R-REPAIRDCOP", "repair_run starts every repair computation (iterating a copy: finishing removes entries)", rr, lp[0] if lp else rr.node, "")
    regs = [s for s in ast.walk(f.node) if isinstance(s, ast.Assign) and norm(s.targets[0]) == "self._repair_computations[computation.name]"]
    ok = len(regs) == 1 and isinstance(regs[0].value, ast.Call) and call_name(regs[0].value) == "RepairComputationRegistration" and len(regs[0].value.args) == 3 and norm(regs[0].value.args[0]) == "computation"
    if ok:
        lp2 = [g for g in ff.guards_at(regs[0]) if g.kind == "for"]
        cvn = norm(lp2[0].node.target.elts[0].elts[0]) if lp2 else None
        ok = norm(regs[0].value.args[2]) == cvn
    ctx.check(ok, "R-REPAIRDCOP", "each repair computation is registered with the orphan it decides", f, regs[0] if regs else f.node,
              "the activation step deploys `registration.candidate`")


# --------------------------------------------------------------------------- protocol
def _proto(ctx, repo):
    mts = repo.message_types()
    oc = repo.cls(OA, "OrchestrationComputation")
    mg = repo.cls(ORC, "AgentsMgt")
    ht_a = repo.handler_table(oc)
    ht_o = repo.handler_table(mg)
    mod = repo.module(ORC)

    def msg_type(cname):
        if (ORC, cname) in mts:
            return mts[(ORC, cname)][0], mts[(ORC, cname)][1]
        c = mod.classes.get(cname)
        if c is None:
            return None, []
        ini = c.methods.get("__init__")
        t = None
        for n in ast.walk(ini.node):
            if isinstance(n, ast.Call) and isinstance(n.func, ast.Attribute) and n.func.attr == "__init__" and n.args and isinstance(n.args[0], ast.Constant):
                t = n.args[0].value
        props = [m for m, fi in c.methods.items() if fi.is_property()]
        return t, props
    chain = [("AgentRemovedMessage", "agent_removed", ht_a, []),
             ("SetupRepairMessage", "setup_repair", ht_a, ["repair_info"]),
             ("RepairReadyMessage", "repair_ready", ht_o, ["agent", "computations"]),
             ("RepairRunMessage", "repair_run", ht_a, []),
             ("RepairDoneMessage", "repair_done", ht_o, ["agent", "selected_computations", "metrics"])]
    for cname, tname, table, fields in chain:
        t, have = msg_type(cname)
        ctx.check(t == tname, "R-PROTO", f"{cname} carries type '{tname}'", mod, mod.classes[cname].node if cname in mod.classes else mod.assigns.get(cname), f"found type {t!r}")
        h = table.get(tname)
        ctx.check(h is not None, "R-PROTO", f"'{tname}' has a handler on the receiving side", (h or oc), (h.node if h else oc.node), "a repair message without handler stops the repair: the barrier it feeds never opens")
        if h is not None:
            ctx.touch(h)
            mp = h.params[2] if len(h.params) > 2 else None
            reads = {n.attr for n in ast.walk(h.node) if isinstance(n, ast.Attribute) and isinstance(n.value, ast.Name) and n.value.id == mp and n.attr not in ("type", "content")}
            ctx.check(reads <= set(have) | {"size"}, "R-PROTO", f"handler of '{tname}' reads only declared fields", h, h.node, f"reads {sorted(reads)}, declared {sorted(have)}")
    # agent side handlers do what the chain needs
    sr = ht_a.get("setup_repair")
    if sr is not None:
        t = norm(sr.node)
        mp = sr.params[2]
        ok = f"self.agent.setup_repair({mp}.repair_info)" in t
        snd = [c for c in ast.walk(sr.node) if isinstance(c, ast.Call) and call_name(c) == "RepairReadyMessage"]
        ok = ok and len(snd) == 1 and norm(snd[0].args[0]) == "self.agent.name" and any(isinstance(c, ast.Call) and is_self_call(c, "send_to_orchestrator") and c.args and c.args[0] is snd[0] for c in ast.walk(sr.node))
        order = [s for s in sr.node.body if "setup_repair(" in norm(s) or "send_to_orchestrator" in norm(s)]
        ok = ok and len(order) == 2 and "setup_repair(" in norm(order[0])
        ctx.check(ok, "R-PROTO", "setup_repair: the agent builds its repair computations, then reports repair_ready", sr, sr.node, "ready must mean that the computations exist")
    rr = ht_a.get("repair_run")
    if rr is not None:
        ctx.check("self.agent.repair_run()" in norm(rr.node), "R-PROTO", "repair_run: the agent starts its repair computations", rr, rr.node, "")
    ar = ht_a.get("agent_removed")
    if ar is not None:
        ctx.check("self.agent.stop()" in norm(ar.node), "R-PROTO", "agent_removed: the agent stops", ar, ar.node, "a removed agent that keeps running still hosts its computations: they would run twice after the repair")


# --------------------------------------------------------------------------- state literals
def _states(ctx, repo):
    mg = repo.cls(ORC, "AgentsMgt")
    written, compared = {}, {}
    for f in mg.methods.values():
        for n in ast.walk(f.node):
            if isinstance(n, ast.Assign) and isinstance(n.targets[0], ast.Subscript) and is_self_attr(n.targets[0].value, "_agts_state") and isinstance(n.value, ast.Constant):
                written.setdefault(n.value.value, (f, n))
            if isinstance(n, ast.Compare) and len(n.ops) == 1 and isinstance(n.ops[0], (ast.Eq, ast.NotEq)) and isinstance(n.comparators[0], ast.Constant) and isinstance(n.comparators[0].value, str):
                l = n.left
                if (isinstance(l, ast.Subscript) and is_self_attr(l.value, "_agts_state")) or (isinstance(l, ast.Name) and l.id == "current_agt_state"):
                    compared.setdefault(n.comparators[0].value, (f, n))
    if len(written) < 5:
        raise AnalysisError(f"agent-state table: only {len(written)} literals written")
    for lit, (f, n) in sorted(compared.items()):
        ctx.check(lit in written, "R-STATES", f"compared state '{lit}' is written somewhere", f, n, f"no statement ever puts an agent in state '{lit}': the test can never hold and the barrier it guards never opens")
    for lit, (f, n) in sorted(written.items()):
        ctx.check(lit in compared or lit in ("running", "ready"), "R-STATES", f"written state '{lit}' is tested somewhere (or terminal)", f, n, f"state '{lit}' is never tested")


_O = "pydcop/infrastructure/orchestrator.py"
_A = "pydcop/infrastructure/agents.py"
_OA = "pydcop/infrastructure/orchestratedagents.py"
_R = "pydcop/reparation/removal.py"
_U = "pydcop/replication/dist_ucs_hostingcosts.py"
VARIANTS = [
    ("remove_replica_keeps_hosted_record", _U, "        self.replicas.pop(computation)\n        self._hosted_replicas.pop(computation)\n", "        self.replicas.pop(computation)\n", "break", "R-REREPLICATE"),
    ("unregister_replica_guarded_by_computation_table", "pydcop/infrastructure/discovery.py", "        if replica not in self._replicas_data:\n            self.logger.info('Attempting to unregister an unknown '", "        if replica not in self._computations_data:\n            self.logger.info('Attempting to unregister an unknown '", "break", "R-REREPLICATE"),
    ("removed_agent_probed_by_name", _U, "            if len(without) != len(self._replication_computations_cache):\n", "            if agent in self._replication_computations_cache:\n", "break", "R-REREPLICATE"),
    ("lost_replicas_not_recreated", _U, "                self._answer_lost_requests(agent)\n\n                # Re-launch replication for the computation(s) that have lost a\n                # replica.\n                self._replicate_on_agent_lost(agent)\n", "                self._answer_lost_requests(agent)\n", "break", "R-REREPLICATE"),
    ("lost_requests_keyed_by_computation", _U, "            for rq_agt, rq_comp in self._pending_requests\n            if rq_agt == agent\n", "            for rq_agt, rq_comp in self._pending_requests\n            if rq_comp == agent\n", "break", "R-REREPLICATE"),
    ("orphans_one_per_agent", _R, "    orphaned = []\n    for agt in departed:\n        orphaned += discovery.agent_computations(agt)\n    return orphaned",
     "    hosted = {discovery.computation_agent(c): c\n              for c in discovery.computations()}\n    return [hosted[agt] for agt in departed if agt in hosted]", "break", "R-ORPHANS"),
    ("repair_mode_inherited", _A, "            {'stop_cycle': 20, 'threshold': 0.2},\n            mode='min',", "            {'stop_cycle': 20, 'threshold': 0.2},\n            mode=self.replication_comp.replicas[candidate_comp].algo.mode,", "break", "R-REPAIRDCOP"),
    ("status_always_ok", _O, "                if lost_orphaned:\n                    self.logger.error('Repair process is finished but they '\n                                      'are still some orphaned computations !'\n                                      ' %s', lost_orphaned)\n                    repair_status = \"KO\"\n",
     "                if lost_orphaned:\n                    self.logger.error('Repair process is finished but they '\n                                      'are still some orphaned computations !'\n                                      ' %s', lost_orphaned)\n", "break", "R-STATUS"),
    ("lost_test_on_value_not_none", _O, "                lost_orphaned = [c for c, s in self._comps_state.items()\n                                 if s is None]", "                lost_orphaned = [c for c, s in self._comps_state.items()\n                                 if s is None and c in msg.selected_computations]", "break", "R-STATUS"),
    ("orphans_not_seeded", _O, "        self._comps_state.update({c: None for c in orphaned})\n", "", "break", "R-STATUS"),
    ("done_barrier_any", _O, "            waited = [a for a in self._agts_state\n                      if self._agts_state[a] == 'repair_run']\n            self._comps_state.update(", "            waited = [a for a in self._agts_state\n                      if self._agts_state[a] == 'repair_setup']\n            self._comps_state.update(", "break", "R-BARRIER"),
    ("report_before_recording", _O, "            self._comps_state.update(\n                {c: msg.agent for c in msg.selected_computations})\n\n            if waited:", "            if waited:", "break", "R-"),
    ("run_before_all_ready", _O, "            if waited:\n                self.logger.info(\n                    'Agent %s ready for repair with computations %s, '\n                    'waiting for %s', msg.agent, msg.computations, waited)\n            else:\n                ready =",
     "            if False:\n                pass\n            else:\n                ready =", "break", "R-BARRIER"),
    ("deploy_unconditional", _A, "        if repair_comp.computation.current_value == 1:\n            self.logger.info('Reparation: computation %s selected on %s',", "        if repair_comp.computation.current_value is not None:\n            self.logger.info('Reparation: computation %s selected on %s',", "break", "R-ACTIVATE"),
    ("deploy_not_published", _A, "            comp = build_computation(comp_def)\n            self.add_computation(comp, publish=True)\n        else:\n            self.logger.info('Reparation: computation %s NOT selected on '",
     "            comp = build_computation(comp_def)\n            self.add_computation(comp, publish=False)\n        else:\n            self.logger.info('Reparation: computation %s NOT selected on '", "break", "R-ACTIVATE"),
    ("replica_kept_when_selected", _A, "        # Remove replica: it will be re-replicated by its new host.\n        self.replication_comp.remove_replica(repair_comp.candidate)\n", "        # Remove replica: it will be re-replicated by its new host.\n        if repair_comp.computation.current_value != 1:\n            self.replication_comp.remove_replica(repair_comp.candidate)\n", "break", "R-ACTIVATE"),
    ("report_all_candidates", _A, "                [c.candidate for c in self._repair_computations.values()\n                 if c.computation.current_value == 1]", "                [c.candidate for c in self._repair_computations.values()]", "break", "R-ACTIVATE"),
    ("hosted_constraint_left_out", _A, "            constraints = [comm_c, hosting_c, capacity_c, hosted_cs[comp]]", "            constraints = [comm_c, hosting_c, capacity_c]", "break", "R-REPAIRDCOP"),
    ("done_args_swapped", _OA, "            RepairDoneMessage(self.agent.name, selected_computation, metrics)", "            RepairDoneMessage(self.agent.name, metrics, selected_computation)", "break", "R-ACTIVATE"),
    ("ready_before_setup", _OA, "        repair_computation = self.agent.setup_repair(msg.repair_info)\n        computations = [c.name for c in repair_computation.values()]\n\n        self.send_to_orchestrator(RepairReadyMessage(self.agent.name, computations))",
     "        self.send_to_orchestrator(RepairReadyMessage(self.agent.name, []))\n        repair_computation = self.agent.setup_repair(msg.repair_info)", "break", "R-PROTO"),
    ("state_literal_typo", _O, "                    self._agts_state[agt] = 'repair_run'", "                    self._agts_state[agt] = 'repair_running'", "break", "R-"),
    ("removed_agent_keeps_running", _OA, "            \"agent_removed\": self._on_stop_request,", "            \"agent_removed\": self._on_pause,", "break", "R-PROTO"),
    ("n_orphans_extend", _R, "        orphaned += discovery.agent_computations(agt)", "        orphaned.extend(discovery.agent_computations(agt))", "neutral"),
    ("n_mode_positional_log", _A, "        self.logger.info('Repair setup done one %s, %s computations created, '", "        self.logger.info('Repair setup done on %s, %s computations created, '", "neutral"),
]
