"""C11 - relations evaluate and slice consistently.

Decided (structure, all relation kinds of pydcop.dcop.relations plus
ExpressionFunction / func_args):

* R-ORDER     no hash-order dependence of positional meaning: a value whose
              iteration order is that of a set (set displays / comprehensions /
              set(), and results of functions returning them) never reaches a
              positional use (stored as an ordered field, enumerate / zip /
              index / join) without passing through sorted();
* R-COPYSTATE derived copies carry the evaluation-relevant state: every
              slice/partial method that builds an instance of its own class binds
              every optional constructor parameter other than `name`, from the
              matching field; ExpressionFunction.partial merges (not replaces)
              the fixed variables;
* R-POSITIONAL positional evaluation follows dimension order: in the list branch
              of every get_value_for_assignment the values are paired with the
              class's own dimension list, index by index; __call__ routes
              positional arguments to the list form and keywords to the dict form;
* R-REMAINING a slice is over exactly the remaining variables, in dimension
              order: remaining = [v for v in <dimension list> if v.name not in
              partial_assignment]; the matrix slicer appends exactly one index or
              one full slice per dimension; no deletion at an enumerate()
              position inside the loop (index drift when extra variables are
              ignored);
* R-IMMUT     relations are values: no method other than __init__ stores into
              self (frozen exception: the transient `_matrix` scratch field of
              NAryMatrixRelation._simple_repr).

Not decided: equality of the values computed by the three call forms, or of a
slice and the original on every completion.
"""
import ast

from ..model import walk_no_nested, norm, call_name, is_self_attr, FuncInfo
from ..facts import FuncFacts, facts_at, stmt_paths, count_paths
from ..report import Ctx, AnalysisError
from ..flow import bound_arg, resolve_local, local_defs

REL = "pydcop.dcop.relations"
EXP = "pydcop.utils.expressionfunction"
VAR = "pydcop.utils.various"
KINDS = ["ZeroAryRelation", "UnaryFunctionRelation", "UnaryBooleanRelation", "NAryFunctionRelation", "NAryMatrixRelation", "NeutralRelation", "ConditionalRelation"]


# --------------------------------------------------------------------------- set-order taint
def _returns_set(repo, f: FuncInfo, seen=None):
    """slots of the return value that carry set iteration order: True (whole value), a set of tuple indices, or False"""
    seen = seen or set()
    if f.fq in seen:
        return False
    seen = seen | {f.fq}
    res = False
    for r in walk_no_nested(f.node):
        if isinstance(r, ast.Return) and r.value is not None:
            v = r.value
            if isinstance(v, ast.Tuple):
                idx = {i for i, e in enumerate(v.elts) if _tainted_expr(repo, f, e, {}, seen)}
                if idx:
                    res = idx if res is False else res
            elif _tainted_expr(repo, f, v, _local_taint(repo, f, seen), seen):
                res = True
    return res


def _tainted_expr(repo, f, e, tainted, seen=frozenset()):
    if isinstance(e, (ast.Set, ast.SetComp)):
        return True
    if isinstance(e, ast.Call):
        nm = call_name(e)
        if nm in ("sorted", "len", "sum", "min", "max", "any", "all", "frozenset") and nm != "frozenset":
            return False
        if nm in ("set", "frozenset"):
            return True
        if nm in ("list", "tuple", "reversed", "iter") and e.args:
            return _tainted_expr(repo, f, e.args[0], tainted, seen)
        if isinstance(e.func, ast.Attribute) and e.func.attr in ("union", "intersection", "difference", "symmetric_difference", "copy") and _tainted_expr(repo, f, e.func.value, tainted, seen):
            return True
        tgt = repo.resolve_expr(f.module, e.func)
        if tgt is None and isinstance(e.func, ast.Attribute) and isinstance(e.func.value, ast.Name):
            # method on a local object of a class of the same module (visitor.get_vars())
            for c in f.module.classes.values():
                if e.func.attr in c.methods:
                    tgt = c.methods[e.func.attr]
        if isinstance(tgt, FuncInfo):
            r = _returns_set(repo, tgt, set(seen))
            return r is True
        return False
    if isinstance(e, ast.BinOp) and isinstance(e.op, (ast.Sub, ast.BitAnd, ast.BitOr, ast.BitXor)):
        return _tainted_expr(repo, f, e.left, tainted, seen) or _tainted_expr(repo, f, e.right, tainted, seen)
    if isinstance(e, (ast.ListComp, ast.GeneratorExp)):
        return any(_tainted_expr(repo, f, g.iter, tainted, seen) for g in e.generators)
    if isinstance(e, ast.Name):
        return e.id in tainted
    if isinstance(e, ast.Attribute) and is_self_attr(e):
        return ("self." + e.attr) in tainted
    return False


def _local_taint(repo, f, seen=frozenset()):
    tainted = {}
    for _ in range(3):
        for n in walk_no_nested(f.node):
            if isinstance(n, ast.Assign):
                tv = _tainted_expr(repo, f, n.value, tainted, seen)
                for t in n.targets:
                    if isinstance(t, ast.Tuple) and isinstance(n.value, ast.Call):
                        tgt = repo.resolve_expr(f.module, n.value.func)
                        r = _returns_set(repo, tgt, set(seen)) if isinstance(tgt, FuncInfo) else False
                        if isinstance(r, set):
                            for i, e in enumerate(t.elts):
                                if i in r and isinstance(e, ast.Name):
                                    tainted[e.id] = n
                    elif isinstance(t, ast.Name):
                        if tv:
                            tainted[t.id] = n
                        elif t.id in tainted and tainted[t.id] is not n and n.lineno > tainted[t.id].lineno:
                            # re-bound to a clean value
                            pass
                    elif is_self_attr(t) and tv:
                        tainted["self." + t.attr] = n
    return tainted


def _order_rule(ctx, repo):
    n = 0
    for modname in (EXP, VAR, REL):
        m = repo.module(modname)
        ctx.touch(m)
        for f in repo.all_functions(m):
            tainted = _local_taint(repo, f)
            # a tainted local re-bound by sorted() before use is clean: evaluate uses in source order
            for node in ast.walk(f.node):
                bad = None
                if isinstance(node, ast.Assign):
                    for t in node.targets:
                        if is_self_attr(t) and not _is_pure_set(node.value) and _tainted_expr(repo, f, node.value, _taint_at(repo, f, node)):
                            bad = (node, f"field self.{t.attr} receives a sequence in set iteration order")
                elif isinstance(node, ast.Call):
                    nm = call_name(node)
                    ta = _taint_at(repo, f, node)
                    if nm in ("enumerate", "zip") and any(_tainted_expr(repo, f, a, ta) for a in node.args):
                        bad = (node, f"{nm}() over a sequence in set iteration order")
                    elif nm == "join" and node.args and _tainted_expr(repo, f, node.args[0], ta):
                        bad = (node, "join() over a sequence in set iteration order")
                elif isinstance(node, ast.Subscript) and isinstance(node.ctx, ast.Load) and not isinstance(node.slice, ast.Slice):
                    ta = _taint_at(repo, f, node)
                    if isinstance(node.value, ast.Call) and call_name(node.value) in ("list", "tuple") and _tainted_expr(repo, f, node.value, ta):
                        bad = (node, "indexing a sequence in set iteration order")
                if bad:
                    ctx.bad("R-ORDER", f"{f.qualname}: positional use of a set-ordered value", f, bad[0],
                            bad[1] + ": the meaning of a position then depends on the process hash seed (PYTHONHASHSEED); normalise with sorted() first")
                    n += 1
    # the anchored instance: ExpressionFunction.exp_vars
    ini = repo.func(EXP, "ExpressionFunction.__init__")
    ws = [s for s in walk_no_nested(ini.node) if isinstance(s, ast.Assign) and any(is_self_attr(t, "exp_vars") for t in s.targets)]
    ok = len(ws) == 1
    if ok:
        v = ws[0].value
        src_tainted = isinstance(v, ast.Call) and call_name(v) == "sorted" and v.args and _tainted_expr(repo, ini, v.args[0], _local_taint(repo, ini))
        ok = src_tainted
    ctx.check(ok, "R-ORDER", "ExpressionFunction.exp_vars = sorted(<names found in the expression (a set)>)", ini, ws[0] if ws else ini.node,
              "the names come out of the AST analysis as a set; the argument order of the generated function and variable_names must not follow set iteration order")
    vn = repo.func(EXP, "ExpressionFunction.variable_names")
    r = [x for x in walk_no_nested(vn.node) if isinstance(x, ast.Return)]
    ok = len(r) == 1 and isinstance(r[0].value, ast.ListComp) and norm(r[0].value.generators[0].iter) == "self.exp_vars" and norm(r[0].value.elt) == norm(r[0].value.generators[0].target)
    ctx.check(ok, "R-ORDER", "variable_names keeps the order of exp_vars", vn, r[0] if r else vn.node, "")
    fa = repo.func(VAR, "func_args")
    ctx.touch(fa)
    lc = [x for x in ast.walk(fa.node) if isinstance(x, ast.ListComp)]
    ok = any(norm(x.generators[0].iter) == "original_args" and norm(x.elt) == norm(x.generators[0].target) for x in lc)
    ctx.check(ok, "R-ORDER", "func_args of a functools.partial keeps the order of the original arguments", fa, fa.node, "")
    return n


def _is_pure_set(e):
    """the expression is itself a set (kept as a set: no positional meaning)"""
    return isinstance(e, (ast.Set, ast.SetComp)) or (isinstance(e, ast.Call) and call_name(e) in ("set", "frozenset")) or \
        (isinstance(e, ast.BinOp) and isinstance(e.op, (ast.Sub, ast.BitAnd, ast.BitOr, ast.BitXor))) or isinstance(e, ast.Name)


def _taint_at(repo, f, node):
    """taint of locals considering only assignments that precede `node` in source order, last assignment wins"""
    tainted = {}
    line = getattr(node, "lineno", 10 ** 9)
    assigns = sorted([n for n in walk_no_nested(f.node) if isinstance(n, ast.Assign) and n.lineno < line or (isinstance(n, ast.Assign) and n is node)], key=lambda n: n.lineno)
    for n in assigns:
        if n is node:
            continue
        tv = _tainted_expr(repo, f, n.value, tainted)
        for t in n.targets:
            if isinstance(t, ast.Tuple) and isinstance(n.value, ast.Call):
                tgt = repo.resolve_expr(f.module, n.value.func)
                r = _returns_set(repo, tgt) if isinstance(tgt, FuncInfo) else False
                for i, e in enumerate(t.elts):
                    if isinstance(e, ast.Name):
                        if isinstance(r, set) and i in r:
                            tainted[e.id] = True
                        else:
                            tainted.pop(e.id, None)
            elif isinstance(t, ast.Name):
                if tv:
                    tainted[t.id] = True
                else:
                    tainted.pop(t.id, None)
            elif is_self_attr(t):
                if tv:
                    tainted["self." + t.attr] = True
                else:
                    tainted.pop("self." + t.attr, None)
    return tainted


# --------------------------------------------------------------------------- copy state
def _copystate(ctx, repo):
    targets = [(REL, k, m) for k in KINDS for m in ("slice",)] + [(EXP, "ExpressionFunction", "partial")]
    n = 0
    for mod, cname, mname in targets:
        cls = repo.cls(mod, cname)
        f = cls.methods.get(mname)
        if f is None:
            continue
        ctx.touch(f)
        ini = repo.lookup_method(cls, "__init__")
        a = ini.node.args
        pos = [x.arg for x in a.args][1:]
        ndef = len(a.defaults)
        optional = pos[len(pos) - ndef:] if ndef else []
        optional += [x.arg for x, d in zip(a.kwonlyargs, a.kw_defaults) if d is not None]
        for c in ast.walk(f.node):
            if isinstance(c, ast.Call) and isinstance(c.func, ast.Name) and c.func.id == cname:
                n += 1
                for p in optional:
                    if p == "name":
                        continue
                    b = bound_arg(c, ini, p)
                    ok = b is not None
                    if ok:
                        txt = norm(resolve_local(f, b))
                        ok = f"self._{p}" in txt or f"self.{p}" in txt or (cname == "NAryMatrixRelation" and p == "matrix" and "self._m[" in txt)
                    ctx.check(ok, "R-COPYSTATE", f"{cname}.{mname}: the derived {cname} receives `{p}` from self", f, c,
                              f"constructor parameter `{p}` is left to its default (or does not come from this instance): the derived relation "
                              "evaluates / slices differently from the original (e.g. positional instead of by-name argument mapping, ZeroAry instead of neutral result)")
                if a.kwarg is not None:
                    # **kwargs state (ExpressionFunction fixed_vars): must merge the instance's with the new ones
                    star = [k.value for k in c.keywords if k.arg is None]
                    ok = len(star) == 1
                    if ok:
                        d = star[0]
                        defs = local_defs(f, d.id) if isinstance(d, ast.Name) else []
                        own_kw = f.node.args.kwarg.arg if f.node.args.kwarg else ""
                        ok = len(defs) == 1 and ((norm(defs[0]) in (f"dict(self._{a.kwarg.arg})", f"self._{a.kwarg.arg}.copy()", f"{{**self._{a.kwarg.arg}}}") and
                                                  any(isinstance(u, ast.Call) and norm(u.func) == f"{d.id}.update" and u.args and norm(u.args[0]) == own_kw for u in ast.walk(f.node)))
                                                 or norm(defs[0]) == f"{{**self._{a.kwarg.arg}, **{own_kw}}}")
                        if not ok and isinstance(d, ast.Dict):
                            ok = norm(d) == f"{{**self._{a.kwarg.arg}, **{own_kw}}}"
                    ctx.check(ok, "R-COPYSTATE", f"{cname}.{mname}: previously fixed variables are merged with the new ones (copy, then update)", f, c,
                              "replacing instead of merging forgets the variables fixed by an earlier slice: two-step slicing then fails or leaves them free")
    return n


# --------------------------------------------------------------------------- positional evaluation
DIMS = {"NAryFunctionRelation": "self._variables", "NAryMatrixRelation": "self._variables", "ConditionalRelation": "self.dimensions"}


def _positional(ctx, repo):
    for cname in KINDS:
        cls = repo.cls(REL, cname)
        g = cls.methods.get("get_value_for_assignment")
        c = cls.methods.get("__call__")
        if g is None or c is None:
            raise AnalysisError(f"{cname}: get_value_for_assignment / __call__ missing")
        ctx.touch(g)
        ctx.touch(c)
        ap = g.params[1] if len(g.params) > 1 else None
        if cname in DIMS:
            dims = DIMS[cname]
            ff = FuncFacts(g.node)
            pairs = []
            for n in ast.walk(g.node):
                fs = {(norm(t), p) for t, p in facts_at(ff, n)} if isinstance(n, (ast.Call, ast.Subscript)) else set()
                in_list = (f"isinstance({ap}, list)", True) in fs
                if not in_list:
                    continue
                if isinstance(n, ast.Call) and call_name(n) == "zip" and any(norm(a) == ap for a in n.args):
                    others = [norm(a) for a in n.args if norm(a) != ap]
                    pairs.append((n, others == [dims]))
                elif isinstance(n, ast.Call) and call_name(n) == "enumerate" and n.args and norm(n.args[0]) == ap:
                    # {dims[i].name: val for i, val in enumerate(assignment)}
                    comp = next((x for x in ast.walk(g.node) if isinstance(x, (ast.DictComp, ast.ListComp)) and any(gen.iter is n for gen in x.generators)), None)
                    okc = False
                    if comp is not None:
                        iv = norm(comp.generators[0].target.elts[0])
                        okc = any(isinstance(s, ast.Subscript) and norm(s.value) == dims and norm(s.slice) == iv for s in ast.walk(comp))
                    pairs.append((n, okc))
                elif isinstance(n, ast.Subscript) and norm(n.value) == ap and isinstance(n.ctx, ast.Load):
                    iv = norm(n.slice)
                    # same index used on the dimension list in the same loop body
                    loop = next((gd.node for gd in reversed(ff.guards_at(n)) if gd.kind == "for"), None)
                    okc = loop is not None and any(isinstance(s, ast.Subscript) and norm(s.value) == dims and norm(s.slice) == iv for s in ast.walk(loop))
                    pairs.append((n, okc))
            ctx.check(bool(pairs) and all(ok for _, ok in pairs), "R-POSITIONAL", f"{cname}: positional values are paired with {dims}, index by index", g,
                      next((n for n, ok in pairs if not ok), g.node),
                      "positional evaluation must follow dimension order: pairing the values with any other variable order makes positional and keyword evaluation disagree")
        # __call__ routing
        t = norm(c.node)
        if cname in ("NAryFunctionRelation", "NAryMatrixRelation", "ConditionalRelation"):
            ffc = FuncFacts(c.node)
            calls = [x for x in ast.walk(c.node) if isinstance(x, ast.Call) and norm(x.func) == "self.get_value_for_assignment"]
            okl = okd = False
            for x in calls:
                fs = {(norm(a), b) for a, b in facts_at(ffc, x)}
                if norm(x.args[0]) == "list(args)" and (("not kwargs", True) in fs or ("kwargs", False) in fs):
                    okl = True
                if norm(x.args[0]) == "kwargs" and (("not kwargs", False) in fs or ("kwargs", True) in fs):
                    okd = True
            ctx.check(okl and okd, "R-POSITIONAL", f"{cname}.__call__: positional arguments -> list form, keywords -> dict form", c, c.node,
                      "the three call forms must reach the same evaluation")
    # the dimension list is what `dimensions` returns
    ab = repo.cls(REL, "AbstractBaseRelation")
    dm = ab.methods.get("dimensions")
    ctx.check(dm is not None and "return self._variables" in norm(dm.node), "R-POSITIONAL", "dimensions is the relation's own variable list", dm or ab, (dm or ab).node, "")
    # NAryFunctionRelation: keeps the given order
    ini = repo.func(REL, "NAryFunctionRelation.__init__")
    ok = any(isinstance(s, ast.Assign) and is_self_attr(s.targets[0], "_variables") and norm(s.value) == "list(variables)" for s in walk_no_nested(ini.node))
    argl = {norm(a.targets[0]) for a in ast.walk(ini.node) if isinstance(a, ast.Assign) and isinstance(a.targets[0], ast.Name) and norm(a.value) == "func_args(f)"}
    loops = [l for l in ast.walk(ini.node) if isinstance(l, ast.For) and isinstance(l.iter, ast.Call) and call_name(l.iter) == "enumerate" and len(l.iter.args) == 1 and norm(l.iter.args[0]) in argl]
    ok = ok and len(loops) == 1
    if ok:
        i, vn = [norm(e) for e in loops[0].target.elts]
        ok = [norm(s) for s in loops[0].body] == [f"self._var_mapping[self._variables[{i}].name] = {vn}"]
    ctx.check(ok, "R-POSITIONAL", "NAryFunctionRelation: i-th variable <-> i-th function argument", ini, loops[0] if loops else ini.node, "")
    kw = [s for s in ast.walk(ini.node) if isinstance(s, ast.Assign) and is_self_attr(s.targets[0], "_var_mapping") and isinstance(s.value, ast.DictComp)]
    ffi = FuncFacts(ini.node)
    def _under_kwargs(node):
        fs = {(norm(a), b) for a, b in facts_at(ffi, node)}
        if ("not f_kwargs", False) in fs or ("f_kwargs", True) in fs:
            return True
        # through a local that is empty exactly when f_kwargs is set: `x = [] if f_kwargs else func_args(f)` ... `if x: <positional> else: <by name>`
        for t_, p_ in fs:
            if p_ is False and t_ in argl:
                ds = [a for a in ast.walk(ini.node) if isinstance(a, ast.Assign) and norm(a.targets[0]) == t_]
                empt = [a for a in ds if isinstance(a.value, (ast.List, ast.Tuple)) and not a.value.elts]
                rest = [a for a in ds if a not in empt]
                def f_of(a):
                    return {(norm(x), y) for x, y in facts_at(ffi, a)}
                if len(empt) == 1 and (("f_kwargs", True) in f_of(empt[0]) or ("not f_kwargs", False) in f_of(empt[0])) and all(("f_kwargs", False) in f_of(a) or ("not f_kwargs", True) in f_of(a) for a in rest):
                    return True
        return False
    ok = any(_under_kwargs(s) and norm(s.value) == "{v.name: v.name for v in variables}" for s in kw)
    ctx.check(ok, "R-POSITIONAL", "NAryFunctionRelation: with f_kwargs the mapping is by name", ini, ini.node, "")


# --------------------------------------------------------------------------- remaining variables
def _remaining(ctx, repo):
    for cname, dims in (("NAryFunctionRelation", "self._variables"), ("NeutralRelation", "self._variables")):
        f = repo.func(REL, f"{cname}.slice")
        pa = f.params[1]
        d = local_defs(f, "remaining_vars")
        ok = len(d) == 1 and isinstance(d[0], ast.ListComp) and norm(d[0].generators[0].iter) == dims and norm(d[0].elt) == norm(d[0].generators[0].target) and \
            [norm(x) for x in d[0].generators[0].ifs] == [f"{norm(d[0].generators[0].target)}.name not in {pa}"]
        cons = [c for c in ast.walk(f.node) if isinstance(c, ast.Call) and call_name(c) == cname]
        ok = ok and len(cons) == 1 and any(norm(a) == "remaining_vars" for a in cons[0].args)
        ctx.check(ok, "R-REMAINING", f"{cname}.slice: remaining variables = dimensions not in the partial assignment, in dimension order", f, cons[0] if cons else f.node,
                  "the slice must be over exactly the variables that are still free")
    # NAryFunctionRelation: sliced arguments go through the variable->argument mapping
    f = repo.func(REL, "NAryFunctionRelation.slice")
    pa = f.params[1]
    d = local_defs(f, "slicing_dict")
    ok = len(d) == 1 and isinstance(d[0], ast.DictComp) and norm(d[0].generators[0].iter) == pa
    if ok:
        v = norm(d[0].generators[0].target)
        ok = norm(d[0].key) == f"self._var_mapping[{v}]" and norm(d[0].value) == f"{pa}[{v}]"
    ctx.check(ok, "R-REMAINING", "NAryFunctionRelation.slice: fixed values are handed to the function under its own argument names", f, f.node, "")
    # matrix
    sm = repo.func(REL, "NAryMatrixRelation._slice_matrix")
    ctx.touch(sm)
    loops = [l for l in sm.node.body if isinstance(l, ast.For) and norm(l.iter) == "self._variables"]
    ok = len(loops) == 1
    if ok:
        l = loops[0]
        v = norm(l.target)
        o = count_paths(l.body, lambda s: 1 if isinstance(s, ast.Expr) and isinstance(s.value, ast.Call) and norm(s.value.func) == "slices.append" else 0)
        ok = o.k.get("fall") == (1, 1) and len(o.k) == 1
        for p in stmt_paths(l.body):
            apps = [s for s in p.stmts if isinstance(s, ast.Expr) and isinstance(s.value, ast.Call) and norm(s.value.func) == "slices.append"]
            rec = [s for s in p.stmts if isinstance(s, ast.Expr) and isinstance(s.value, ast.Call) and norm(s.value.func) == "slice_vars.append"]
            fixed = p.has_fact(f"{v}.name in s_vars", True)
            free = p.has_fact(f"{v}.name in s_vars", False)
            if fixed:
                arg = apps[0].value.args[0] if apps else None
                if isinstance(arg, ast.Name):
                    idx = [s.value for s in p.stmts if isinstance(s, ast.Assign) and norm(s.targets[0]) == arg.id]
                    arg = idx[0] if len(idx) == 1 else None
                ok = ok and not rec and arg is not None and norm(arg).startswith(f"{v}.domain.index(")
            elif free:
                ok = ok and len(apps) == 1 and norm(apps[0].value.args[0]) == "slice(None)" and len(rec) == 1 and norm(rec[0].value.args[0]) == v
            else:
                ok = False
        r = [x for x in walk_no_nested(sm.node) if isinstance(x, ast.Return)]
        ok = ok and len(r) == 1 and norm(r[0].value) == "(slice_vars, tuple(slices))"
    ctx.check(ok, "R-REMAINING", "matrix slicer: one index (fixed variable) or one full slice (free variable, recorded as remaining) per dimension, in dimension order", sm, loops[0] if loops else sm.node,
              "the index tuple is applied positionally to the array: an entry missing or doubled shifts every later dimension")
    # index drift: positions taken from enumerate() over one sequence are only valid in a copy of it until the first deletion
    n_enum = 0
    for mn in (REL, EXP, VAR):
        for f in repo.all_functions(repo.module(mn)):
            for l in walk_no_nested(f.node):
                if not (isinstance(l, ast.For) and isinstance(l.iter, ast.Call) and call_name(l.iter) == "enumerate" and isinstance(l.target, ast.Tuple) and isinstance(l.target.elts[0], ast.Name)):
                    continue
                n_enum += 1
                i = l.target.elts[0].id
                for x in ast.walk(l):
                    hit = None
                    if isinstance(x, ast.Delete):
                        hit = next((t for t in x.targets if isinstance(t, ast.Subscript) and isinstance(t.slice, ast.Name) and t.slice.id == i), None)
                    elif isinstance(x, ast.Call) and isinstance(x.func, ast.Attribute) and x.func.attr in ("pop", "insert") and x.args and isinstance(x.args[0], ast.Name) and x.args[0].id == i:
                        hit = x
                    if hit is not None:
                        ctx.touch(f)
                        ctx.bad("R-REMAINING", f"{f.qualname}: `{norm(x)}` at the enumerate() position of another sequence", f, x,
                                f"`{i}` counts positions in `{norm(l.iter.args[0])}`; after the first deletion every later position is shifted by one: with two "
                                "variables to drop, the wrong entry (a variable that must be sliced) is removed or an IndexError is raised")
    ctx.check(n_enum >= 2, "R-REMAINING", "enumerate() loops of the relation modules examined for index drift", repo.func(REL, "NAryMatrixRelation._slice_matrix"), sm.node, f"only {n_enum} loops seen")
    sl = repo.func(REL, "NAryMatrixRelation.slice")
    t = norm(sl.node)
    ok = "sliced_vars, sliced_values = zip(*partial_assignment.items())" in t and "NAryMatrixRelation(slice_vars, self._m[s], self.name)" in t and \
        "slice_vars, s = self._slice_matrix(sliced_vars, sliced_values, ignore_extra_vars=ignore_extra_vars)" in t
    ctx.check(ok, "R-REMAINING", "matrix slice: names and values taken pairwise from the assignment; result over the remaining variables with the sliced array", sl, sl.node, "")
    # conditional
    cs = repo.func(REL, "ConditionalRelation.slice")
    ctx.touch(cs)
    ffs = FuncFacts(cs.node)
    pa = cs.params[1]
    t = norm(cs.node)
    ok = "cond_var_names = [v.name for v in self._condition.dimensions]" in t and "true_names = [v.name for v in self._relation_if_true.dimensions]" in t and \
        f"cond_args = {{v_name: v_val for v_name, v_val in {pa}.items() if v_name in cond_var_names}}" in t
    evals = [c for c in ast.walk(cs.node) if isinstance(c, ast.Call) and norm(c.func) == "self._condition" and any(k.arg is None and norm(k.value) == "cond_args" for k in c.keywords)]
    ok = ok and len(evals) == 1 and ("len(cond_args) == len(self._condition.dimensions)", True) in {(norm(a), b) for a, b in facts_at(ffs, evals[0])}
    ctx.check(ok, "R-REMAINING", "conditional slice: the condition is evaluated only when all its variables are assigned, on exactly its own variables", cs, evals[0] if evals else cs.node, "")
    sd = [s for s in ast.walk(cs.node) if isinstance(s, ast.Assign) and norm(s.targets[0]) == "slice_dict"]
    ok = len(sd) == 2 and all(norm(s.value) == f"{{k: v for k, v in {pa}.items() if k in true_names}}" for s in sd)
    ctx.check(ok, "R-REMAINING", "conditional slice: the consequence is sliced on exactly its own assigned variables", cs, sd[0] if sd else cs.node, "")
    # the consequence is used unsliced only when none of its variables is assigned (a variable may be shared with the condition)
    bare = [x for x in ast.walk(cs.node) if (isinstance(x, ast.Return) and x.value is not None and norm(x.value) == "self._relation_if_true")
            or (isinstance(x, ast.Assign) and norm(x.value) == "self._relation_if_true")]
    for x in bare:
        fs = {(norm(a), b) for a, b in facts_at(ffs, x)}
        ctx.check(("slice_dict", False) in fs, "R-REMAINING", "conditional slice: the consequence is kept unsliced only when none of its own variables is assigned", cs, x,
                  "the dimensions of a ConditionalRelation are the union of condition and consequence: a variable used by both is assigned here but stays a dimension of the result "
                  "(e.g. condition on x, consequence on x,y, slice {x: 1} gives a relation over x,y)")
    ctx.check(len(bare) >= 2, "R-REMAINING", "conditional slice: unsliced uses of the consequence found", cs, cs.node, f"{len(bare)} found")
    nr = [c for c in ast.walk(cs.node) if isinstance(c, ast.Call) and call_name(c) == "NeutralRelation"]
    ok = len(nr) == 1
    if ok:
        rv = resolve_local(cs, nr[0].args[0])
        rd = [s.value for s in ast.walk(cs.node) if isinstance(s, ast.Assign) and norm(s.targets[0]) == norm(nr[0].args[0])]
        rv = rd[0] if rd else rv
        ok = isinstance(rv, ast.ListComp) and norm(rv.generators[0].iter) == "self._relation_if_true.dimensions" and [norm(x) for x in rv.generators[0].ifs] == [f"{norm(rv.generators[0].target)}.name not in {pa}"]
    ctx.check(ok, "R-REMAINING", "conditional slice (false condition, neutral): over the consequence's remaining variables", cs, nr[0] if nr else cs.node, "")


# --------------------------------------------------------------------------- immutability
def _immut(ctx, repo):
    n = 0
    classes = [repo.cls(REL, k) for k in KINDS] + [repo.cls(REL, "AbstractBaseRelation"), repo.cls(EXP, "ExpressionFunction")]
    for cls in classes:
        for f in cls.methods.values():
            if f.name in ("__init__", "__setstate__"):
                continue
            for node in ast.walk(f.node):
                tg = node.targets if isinstance(node, ast.Assign) else [node.target] if isinstance(node, (ast.AugAssign, ast.AnnAssign)) else []
                for t in tg:
                    for e in (t.elts if isinstance(t, ast.Tuple) else [t]):
                        base = e.value if isinstance(e, ast.Subscript) else e
                        if is_self_attr(base):
                            n += 1
                            frozen = cls.name == "NAryMatrixRelation" and f.name == "_simple_repr" and base.attr == "_matrix"
                            ctx.check(frozen, "R-IMMUT", f"{cls.name}.{f.name}: stores into self.{base.attr}", f, node,
                                      "relations are values shared between computations: a method that changes the instance changes the constraint for everyone holding it")
            ctx.ok("R-IMMUT", f"{cls.name}.{f.name}", f, f.node, sample=False)
    return n


def check(ctx: Ctx):
    repo = ctx.repo
    ctx.decided = ("no set-ordered value reaches a positional use in expressionfunction / various / relations; derived copies bind every optional "
                   "constructor parameter from self (fixed variables merged); positional values are paired with the dimension list; __call__ routes "
                   "positional / keyword forms; remaining variables are the free dimensions in order; the matrix slicer emits one entry per dimension; "
                   "no method stores into self.")
    ctx.undecided = "numeric agreement of the three call forms and of slices with the original on every completion."
    ctx.rule("R-ORDER", "set-ordered values are sorted before any positional use")
    ctx.rule("R-COPYSTATE", "slice/partial forward every optional constructor parameter (except name) from self; fixed variables are merged")
    ctx.rule("R-POSITIONAL", "positional evaluation pairs values with the dimension list; __call__ routes list/dict forms")
    ctx.rule("R-REMAINING", "a slice is over exactly the free dimensions, in dimension order")
    ctx.rule("R-IMMUT", "no method other than __init__ stores into self")
    for k in KINDS:
        ctx.touch(repo.cls(REL, k))
    _order_rule(ctx, repo)
    n = _copystate(ctx, repo)
    if n < 5:
        ctx.defer(f"R-COPYSTATE: only {n} self-constructing calls found in slice/partial methods (floor 5)")
    _positional(ctx, repo)
    _remaining(ctx, repo)
    _immut(ctx, repo)
    ctx.floor("R-POSITIONAL", 8)
    ctx.floor("R-REMAINING", 7)
    ctx.floor("R-IMMUT", 60)


_R = "pydcop/dcop/relations.py"
_E = "pydcop/utils/expressionfunction.py"
VARIANTS = [
    ("conditional_shared_var_unsliced", _R, "                if slice_dict:\n                    return self._relation_if_true.slice(slice_dict)\n                else:\n                    return self._relation_if_true\n",
     "                if len(partial_assignment) > len(cond_args):\n                    return self._relation_if_true.slice(slice_dict)\n                else:\n                    return self._relation_if_true\n", "break", "R-REMAINING"),
    ("matrix_extra_vars_index_drift", _R, "        s_vars = []\n        s_values = []\n", "        s_vars = list(sliced_vars)\n        s_values = list(sliced_values)\n        for i, v in enumerate(sliced_vars):\n            if v not in [x.name for x in self._variables] and ignore_extra_vars:\n                del s_vars[i]\n                del s_values[i]\n        sliced_vars, sliced_values = [], []\n", "break", "R-REMAINING"),
    ("slice_drops_f_kwargs", _R, "            return NAryFunctionRelation(\n                slice_f, remaining_vars, name=self.name, f_kwargs=self._f_kwargs\n            )", "            return NAryFunctionRelation(slice_f, remaining_vars, name=self.name)", "break", "R-COPYSTATE"),
    ("conditional_list_wrong_order", _R, "            cond_args = {\n                v.name: v_val\n                for v, v_val in zip(self.dimensions, assignment)\n                if v in self._condition.dimensions\n            }",
     "            names = [v for v in self._condition.dimensions] + [v for v in self._relation_if_true.dimensions if v not in self._condition.dimensions]\n            cond_args = {\n                v.name: v_val\n                for v, v_val in zip(names, assignment)\n                if v in self._condition.dimensions\n            }", "break", "R-POSITIONAL"),
    ("conditional_slice_drops_neutral", _R, "                name=self._name,\n                return_neutral=self._return_neutral,\n", "                name=self._name,\n", "break", "R-COPYSTATE"),
    ("exp_vars_unsorted", _E, "        self.exp_vars = sorted(exp_vars)", "        self.exp_vars = list(exp_vars)", "break", "R-ORDER"),
    ("partial_replaces_fixed", _E, "        fixed = dict(self._fixed_vars)\n        fixed.update(kwargs)\n        return ExpressionFunction(self.expression, self._source_file, **fixed)", "        return ExpressionFunction(self.expression, self._source_file, **kwargs)", "break", "R-COPYSTATE"),
    ("partial_drops_source", _E, "        return ExpressionFunction(self.expression, self._source_file, **fixed)", "        return ExpressionFunction(self.expression, **fixed)", "break", "R-COPYSTATE"),
    ("matrix_list_reversed", _R, "            assignt = {self._variables[i].name: val for i, val in enumerate(var_values)}", "            assignt = {self._variables[-1 - i].name: val for i, val in enumerate(var_values)}", "break", "R-POSITIONAL"),
    ("remaining_keeps_sliced", _R, "            remaining_vars = [\n                v for v in self._variables if v.name not in partial_assignment\n            ]\n            slicing_dict", "            remaining_vars = [\n                v for v in self._variables\n            ]\n            slicing_dict", "break", "R-REMAINING"),
    ("matrix_slicer_skips_free", _R, "            else:\n                slices.append(slice(None))\n                slice_vars.append(v)", "            else:\n                slice_vars.append(v)", "break", "R-REMAINING"),
    ("slice_mutates_self", _R, "        slice_vars, s = self._slice_matrix(\n            sliced_vars, sliced_values, ignore_extra_vars=ignore_extra_vars\n        )\n        u = NAryMatrixRelation(slice_vars, self._m[s], self.name)", "        slice_vars, s = self._slice_matrix(\n            sliced_vars, sliced_values, ignore_extra_vars=ignore_extra_vars\n        )\n        self._variables = slice_vars\n        u = NAryMatrixRelation(slice_vars, self._m[s], self.name)", "break", "R-IMMUT"),
    ("call_routes_kwargs_to_list", _R, "    def __call__(self, *args, **kwargs):\n        if not kwargs:\n            if len(args) == 1 and type(args[0]) is dict:\n                return self(**args[0])\n            return self.get_value_for_assignment(list(args))\n        else:\n            return self.get_value_for_assignment(kwargs)\n\n    def __repr__(self):\n        return \"NAryFunctionRelation",
     "    def __call__(self, *args, **kwargs):\n        if not kwargs:\n            if len(args) == 1 and type(args[0]) is dict:\n                return self(**args[0])\n            return self.get_value_for_assignment(list(args))\n        else:\n            return self.get_value_for_assignment(list(kwargs.values()))\n\n    def __repr__(self):\n        return \"NAryFunctionRelation", "break", "R-POSITIONAL"),
    ("n_remaining_loop_renamed", _R, "            remaining_vars = [\n                v for v in self._variables if v.name not in partial_assignment\n            ]\n            slicing_dict", "            remaining_vars = [\n                var for var in self._variables if var.name not in partial_assignment\n            ]\n            slicing_dict", "neutral"),
    ("n_exp_vars_sorted_list", _E, "        self.exp_vars = sorted(exp_vars)", "        self.exp_vars = sorted(list(exp_vars))", "neutral"),
]
