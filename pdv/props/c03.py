"""C03 - MGM and MGM2 never worsen the global cost between cycles.

Decided: the exclusive-mover licence of every value change (strict best gain
among all neighbours, or equal gain + lexical tie-break won; MGM2 pair: go
handshake + best gain among all neighbours but the partner), best-response
provenance of the value moved to, agreement of the cost model on the 'current'
and 'best' sides (same constraint set, own variable cost at the candidate),
reset of the per-cycle tables.
"""
import ast

from ..model import walk_no_nested, norm, call_name, is_self_attr
from ..facts import FuncFacts, facts_at, count_paths, calls_hit
from ..report import Ctx, AnalysisError
from .. import moderules as M
from .. import mgmrules as G

MGM, MGM2 = G.MGM, G.MGM2


def resolve_self_field(repo, cls, e):
    """`self.x` -> 'x'; `self.p` where p is a property returning self.y -> 'y'"""
    if not (isinstance(e, ast.Attribute) and isinstance(e.value, ast.Name) and e.value.id == "self"):
        return None
    m = repo.lookup_method(cls, e.attr)
    if m is not None and any(norm(d) == "property" for d in m.node.decorator_list):
        rets = [r for r in walk_no_nested(m.node) if isinstance(r, ast.Return) and r.value is not None]
        if len(rets) == 1:
            return resolve_self_field(repo, cls, rets[0].value) or e.attr
    return e.attr


def check(ctx: Ctx):
    repo = ctx.repo
    ctx.decided = ("every value change of MGM / MGM2 is licensed: full set of neighbour gains received, own gain strictly best in "
                   "the direction of the objective or equal and lexical tie-break won (own name in the tie list, first after "
                   "sorting); MGM2 coordinated change needs go=True from the partner, a local go decision taken against all "
                   "neighbours but the partner; the value moved to is the best response computed this cycle (or the offer's "
                   "value) and is the current value when no improvement exists; the local cost model has the same terms on the "
                   "current and candidate sides, with the variable's own cost taken at the candidate; per-cycle tables are "
                   "cleared before the next cycle.")
    ctx.undecided = ("the inequality on the global cost itself; random partner choices; all schedules. Known findings: MGM2's pair "
                     "gain double-counts the shared constraints' current cost and MGM2 ignores variable costs.")
    ctx.rule("R-EXCLUSIVE", "a variable changes value only with the strictly best gain among all its neighbours, or on an equal gain when it wins the lexical tie-break")
    ctx.rule("R-PAIR", "an MGM2 coordinated change needs the partner's go, a local go taken against every other neighbour, and an accepted offer")
    ctx.rule("R-BESTRESP", "the value moved to is the best response computed in this cycle / the accepted offer's value")
    ctx.rule("R-COSTMODEL", "current cost and candidate cost use the same constraint set and neighbour terms; the variable's own cost is taken at the candidate value")
    ctx.rule("R-WIRE", "MGM2 offers sent over a serialising transport keep each gain attached to its move")
    ctx.rule("R-RESET", "gains, values, offers and commitment flags are cleared at the end of each cycle")
    from .. import reprrules as RR
    RR.check_zipped_pairs(ctx, "R-WIRE", [repo.cls(MGM2, "Mgm2OfferMessage")], min_pairs=1)

    # ================================ MGM ======================================
    hg = repo.func(MGM, "MgmComputation._handle_gain_message")
    bt = repo.func(MGM, "MgmComputation._break_ties")
    hv = repo.func(MGM, "MgmComputation._handle_value_message")
    cb = repo.func(MGM, "MgmComputation._compute_best_value")
    for f in (hg, bt, hv, cb):
        ctx.touch(f)

    def gains_all(call):
        a = call.args[0] if call.args else None
        d = G.local_defs(hg)
        if isinstance(a, ast.Name) and len(d.get(a.id, [])) == 1:
            a = d[a.id][0].value
        if isinstance(a, (ast.ListComp, ast.GeneratorExp)) and a.generators[0].ifs:
            return False
        t = norm(a) if a is not None else ""
        return "gains.values()" in t or "self._neighbors_gains.values()" in t
    ffg = FuncFacts(hg.node)
    # find the flag/best names without reporting (C04 reports polarity)
    class _Mute:
        def __getattr__(self, k):
            return lambda *a, **kw: None
    flag, best = G.check_gain_arbitration_inline(_Mute(), hg, "x", "self._gain", gains_all)
    if not flag:
        ctx.bad("R-EXCLUSIVE", "MGM: strict-best flag", hg, hg.node, "no objective-aware 'strictly best gain' decision found")
    n_moves = 0
    for c in walk_no_nested(hg.node):
        if isinstance(c, ast.Call) and is_self_attr(c.func, "value_selection"):
            n_moves += 1
            fs = G.facts(ffg, c)
            ok = ("len(self._neighbors_gains) == len(self._neighbors)", True) in fs and flag is not None and (flag, True) in fs
            ctx.check(ok, "R-EXCLUSIVE", "MGM: unilateral move needs all gains and the strictly best one", hg, c,
                      "a value change in _handle_gain_message must be dominated by 'all neighbour gains received' and the strict-best test")
            ctx.check(norm(c.args[0]) == "self._new_value", "R-BESTRESP", "MGM: moves to the best response of this cycle", hg, c, "the value selected must be self._new_value")
    G.check_move_cost(ctx, hg, "R-BESTRESP", "self._new_value", "self._gain")
    # ties
    ffb = FuncFacts(bt.node)
    for c in walk_no_nested(bt.node):
        if isinstance(c, ast.Call) and is_self_attr(c.func, "value_selection"):
            n_moves += 1
            fs = G.facts(ffb, c)
            won = [t for t, p in fs if p and t in ("ties[0] == self.name", "ties[0][1] == self.name")]
            ctx.check(len(won) == 1, "R-EXCLUSIVE", "MGM: tie move only when the tie-break is won", bt, c, "a tie move needs `ties[0] == self.name` (sorted candidates, own name first)")
            ctx.check(norm(c.args[0]) == "self._new_value", "R-BESTRESP", "MGM: tie move goes to the best response", bt, c, "")
    G.check_move_cost(ctx, bt, "R-BESTRESP", "self._new_value", "self._gain")
    ties = [n for n in ast.walk(bt.node) if isinstance(n, ast.Assign) and norm(n.targets[0]) == "ties"]
    for n in ties:
        v = n.value
        okt = isinstance(v, ast.Call) and call_name(v) == "sorted" and isinstance(v.args[0], ast.BinOp) and isinstance(v.args[0].op, ast.Add)
        if okt:
            lst, own = v.args[0].left, v.args[0].right
            okt = isinstance(lst, ast.ListComp) and norm(lst.generators[0].iter) == "self._neighbors_gains.items()" and len(lst.generators[0].ifs) == 1 \
                and norm(lst.generators[0].ifs[0]) == f"gain == {bt.params[1]}" and "self.name" in norm(own)
        ctx.check(okt, "R-EXCLUSIVE", "MGM: tie list = neighbours with the same best gain + self, sorted", bt, n,
                  "all tied neighbours and the variable itself must take part in the (deterministic, symmetric) tie-break")
    if n_moves < 3:
        ctx.bad("R-EXCLUSIVE", "MGM: move sites", hg, hg.node, f"expected 3 value-change sites, found {n_moves}")
    # random tie-break: when the branch can be taken (break_mode compared with a string), the number this variable enters the draw
    # with must be the one it announced in its gain message; otherwise every tied variable ranks itself with a private number
    sg_ = repo.func(MGM, "MgmComputation._send_gain")
    ctx.touch(sg_)
    mcls = repo.cls(MGM, "MgmComputation")
    rb = [i for i in ast.walk(bt.node) if isinstance(i, ast.If) and "self.break_mode" in norm(i.test)]
    live = [i for i in rb if isinstance(i.test, ast.Compare) and any(isinstance(x, ast.Constant) and isinstance(x.value, str) for x in [i.test.left] + i.test.comparators)]
    if not live:
        ctx.note("MGM: the random tie-break branch is unreachable on this tree (break_mode is compared with the `random` module): the lexical tie-break is always used")
        ctx.ok("R-EXCLUSIVE", "MGM: random tie-break unreachable, lexical order used", bt, rb[0] if rb else bt.node)
    else:
        mk_ = [c for c in walk_no_nested(sg_.node) if isinstance(c, ast.Call) and call_name(c) == "MgmGainMessage"]
        sent = None
        if len(mk_) == 1 and len(mk_[0].args) >= 2:
            sent = resolve_self_field(repo, mcls, mk_[0].args[1])
        own = None
        for t_ in ast.walk(live[0]):
            if isinstance(t_, ast.Tuple) and len(t_.elts) == 2 and norm(t_.elts[1]) == "self.name":
                own = resolve_self_field(repo, mcls, t_.elts[0])
        ctx.check(sent is not None and own is not None and sent == own, "R-EXCLUSIVE", "MGM: random tie-break ranks this variable with the number it announced", bt, live[0],
                  f"the gain message carries `{sent}` but the draw uses `{own}`: neighbours rank this variable by one number and the variable ranks itself by another, "
                  "so several tied neighbours can all believe they won and move together (the global cost may then increase)")
    # reset
    txt = norm(hg.node)
    cl = [c for c in walk_no_nested(hg.node) if isinstance(c, ast.Call) and norm(c.func) in ("self._neighbors_gains.clear", "self._neighbors_values.clear")]
    wv = [c for c in walk_no_nested(hg.node) if isinstance(c, ast.Call) and is_self_attr(c.func, "_wait_for_values")]
    okr = len(cl) == 2 and len(wv) == 1 and all(x.lineno < wv[0].lineno for x in cl) and all(
        G.facts(ffg, x) == {("len(self._neighbors_gains) == len(self._neighbors)", True)} for x in cl + wv)
    ctx.check(okr, "R-RESET", "MGM: gains and values cleared, then next cycle", hg, cl[0] if cl else hg.node,
              "after the arbitration both per-cycle tables must be cleared before entering the next value phase")
    # cost model
    G.check_mgm_costmodel(ctx, cb, hv, "R-COSTMODEL")

    # ================================ MGM2 =====================================
    hg2 = repo.func(MGM2, "Mgm2Computation._handle_gain_messages")
    go2 = repo.func(MGM2, "Mgm2Computation._handle_go_message")
    ho2 = repo.func(MGM2, "Mgm2Computation._handle_offer_messages")
    hr2 = repo.func(MGM2, "Mgm2Computation._handle_response_message")
    fb2 = repo.func(MGM2, "Mgm2Computation._find_best_offer")
    cc2 = repo.func(MGM2, "Mgm2Computation._compute_cost")
    ca2 = repo.func(MGM2, "Mgm2Computation._clear_agent")
    for f in (hg2, go2, ho2, hr2, fb2, cc2, ca2):
        ctx.touch(f)
    ff2 = FuncFacts(hg2.node)
    n2 = 0
    for c in walk_no_nested(hg2.node):
        if isinstance(c, ast.Call) and is_self_attr(c.func, "value_selection"):
            n2 += 1
            fs = G.facts(ff2, c)
            strict = ("self._is_better_gain(self._potential_gain, max_neighbors)", True) in fs
            tie = ("self._potential_gain == max_neighbors", True) in fs and ("ties[0] == self.name", True) in fs
            ok = (strict or tie) and ("self._committed", False) in fs and ("self._potential_gain == 0", False) in fs
            ctx.check(ok, "R-EXCLUSIVE", "MGM2: unilateral move needs the strictly best gain or a won tie, and no commitment", hg2, c,
                      "a unilateral change must be dominated by not committed, non-null gain and (strict best | equal gain + tie-break won)")
            ctx.check(norm(c.args[0]) == "self._potential_value", "R-BESTRESP", "MGM2: moves to the potential value", hg2, c, "")
    G.check_move_cost(ctx, hg2, "R-BESTRESP", "self._potential_value", "self._potential_gain")
    tl = [n for n in ast.walk(hg2.node) if isinstance(n, ast.Assign) and norm(n.targets[0]) == "ties"]
    okt = len(tl) == 1 and isinstance(tl[0].value, ast.Call) and call_name(tl[0].value) == "sorted" and "self._neighbors_gains.items()" in norm(tl[0].value) \
        and "== max_neighbors" in norm(tl[0].value) and "[self.name]" in norm(tl[0].value)
    ctx.check(okt, "R-EXCLUSIVE", "MGM2: tie list = neighbours with the same best gain + self, sorted", hg2, tl[0] if tl else hg2.node, "")
    # committed: go decision
    G.check_go_decision(ctx, hg2, "R-PAIR")
    G.check_go_order(ctx, hg2, "R-PAIR")
    n_es = G.check_enter_state_last(ctx, [m_ for m_ in repo.cls(MGM2, "Mgm2Computation").methods.values()], "R-PAIR")
    if n_es < 8:
        ctx.defer(f"MGM2: only {n_es} paths entering a state found (8 confirmed by reading)")
    G.check_offer_slots(ctx, repo, "R-PAIR")
    ffg2 = FuncFacts(go2.node)
    mv = [c for c in walk_no_nested(go2.node) if isinstance(c, ast.Call) and is_self_attr(c.func, "value_selection")]
    okg = len(mv) == 1 and {(f"{go2.params[2]}.go", True), ("self._can_move", True)} <= G.facts(ffg2, mv[0]) and norm(mv[0].args[0]) == "self._potential_value"
    ctx.check(okg, "R-PAIR", "MGM2: coordinated change needs the partner's go and the local go", go2, mv[0] if mv else go2.node,
              "the coordinated value change must be dominated by msg.go and self._can_move")
    G.check_move_cost(ctx, go2, "R-BESTRESP", "self._potential_value", "self._potential_gain")
    # acceptance -> commitment on both sides
    t = norm(hr2.node)
    ffr = FuncFacts(hr2.node)
    cmt = [n for n in walk_no_nested(hr2.node) if isinstance(n, ast.Assign) and norm(n.targets[0]) == "self._committed"]
    okc = len(cmt) == 2 and all(((norm(a.value) == "True") == ((f"{hr2.params[2]}.accept", True) in G.facts(ffr, a))) for a in cmt)
    pv = [n for n in walk_no_nested(hr2.node) if isinstance(n, ast.Assign) and norm(n.targets[0]) in ("self._potential_value", "self._potential_gain")]
    okc = okc and {norm(n.targets[0]): norm(n.value) for n in pv} == {"self._potential_value": f"{hr2.params[2]}.value", "self._potential_gain": f"{hr2.params[2]}.gain"} \
        and all((f"{hr2.params[2]}.accept", True) in G.facts(ffr, n) for n in pv)
    ctx.check(okc, "R-PAIR", "MGM2 offerer: committed iff the offer was accepted, with the partner's value and the pair gain", hr2, cmt[0] if cmt else hr2.node,
              "an offerer commits (value, gain from the answer) only on an accept answer from its partner")
    chk = [r for r in walk_no_nested(hr2.node) if isinstance(r, ast.Raise)]
    ctx.check(len(chk) == 2 and f"{hr2.params[1]} != self._partner.name" in t and "not self._is_offerer" in t, "R-PAIR", "MGM2: answers only from the chosen partner, only to offerers", hr2,
              chk[0] if chk else hr2.node, "an answer from anybody but the partner, or to a non-offerer, is a protocol error")
    # responder side: accept only the partner of the best offer
    acc = [c for c in walk_no_nested(ho2.node) if isinstance(c, ast.Call) and call_name(c) == "Mgm2ResponseMessage" and c.args and norm(c.args[0]) == "True"]
    ffo = FuncFacts(ho2.node)
    oka = len(acc) == 1 and [norm(a) for a in acc[0].args] == ["True", "val_p", "gain"] and any("sender == self._partner.name" in t_ and p for t_, p in G.facts(ffo, acc[0])) \
        and any(t_ == "self._is_offerer" and not p for t_, p in G.facts(ffo, acc[0]))
    ctx.check(oka, "R-PAIR", "MGM2 responder: accepts only its chosen partner, never when it is itself an offerer", ho2, acc[0] if acc else ho2.node,
              "an accept answer carries (True, partner value, pair gain) and goes only to the partner of the accepted offer")
    # cost model (pair): own delta must use the same constraint set on both sides
    gg = [n for n in ast.walk(fb2.node) if isinstance(n, ast.Assign) and norm(n.targets[0]) == "global_gain"]
    okm = False
    if len(gg) == 1:
        t_ = norm(gg[0].value)
        cost_def = [n for n in ast.walk(fb2.node) if isinstance(n, ast.Assign) and norm(n.targets[0]) == "cost"]
        on_concerned = bool(cost_def) and "concerned" in norm(cost_def[0].value)
        cur_same = "self.current_cost" not in t_  # the current side must be costed on `concerned` too
        okm = on_concerned and cur_same and "partner_local_gain" in t_
    ctx.check(okm, "R-COSTMODEL", "MGM2: pair gain = own delta on the non-shared constraints + partner gain", fb2, gg[0] if gg else fb2.node,
              "the own delta subtracts a cost computed on the non-shared constraints from self.current_cost, which covers *all* constraints: "
              "the current cost of the shared constraints is counted twice (it is already inside the partner's gain)")
    sh = [n for n in ast.walk(fb2.node) if isinstance(n, ast.Assign) and norm(n.targets[0]) in ("shared", "concerned")]
    oks = len(sh) == 2 and "find_dependent_relations(current_partner, self._constraints)" in norm(sh[0].value) and "rel not in shared" in norm(sh[1].value)
    ctx.check(oks, "R-COSTMODEL", "MGM2: non-shared = own constraints that do not involve the partner", fb2, sh[0] if sh else fb2.node, "")
    vc = "consider_variable_cost" in norm(cc2.node) or "cost_for_val" in norm(cc2.node)
    cc_ret = [r for r in walk_no_nested(cc2.node) if isinstance(r, ast.Return)]
    ctx.check(vc, "R-COSTMODEL", "MGM2: local cost includes the variables' own costs", cc2, cc_ret[0] if cc_ret else cc2.node,
              "Mgm2Computation._compute_cost sums the constraints only: moves are evaluated without the variable's own value cost, "
              "which is part of the global cost")
    # reset
    want = {"self._neighbors_values.clear()", "self._neighbors_gains.clear()", "self._offers.clear()", "self._partner = None", "self._committed = False",
            "self._is_offerer = False", "self._potential_gain = 0", "self._potential_value = None", "self._can_move = False"}
    got = {norm(s) for s in ca2.node.body}
    ctx.check(want <= got, "R-RESET", "MGM2: per-cycle state cleared", ca2, ca2.node, f"_clear_agent must reset {sorted(want - got)}")
    for f in (hg2, go2):
        calls = [norm(s) for s in ast.walk(f.node) if isinstance(s, ast.Expr)]
        o = count_paths(f.node.body, calls_hit(lambda c: is_self_attr(c.func, "_clear_agent")))
        ok = all(v == (1, 1) for k, v in o.k.items() if k in ("fall", "return")) or (f is hg2 and all(v[1] <= 1 for v in o.k.values()))
        ctx.check(ok, "R-RESET", f"{f.name}: state cleared once before the next cycle", f, f.node, f"{o.k}")
    # ---- the gain announced is the gain arbitrated with ----------------------------------------
    ctx.rule("R-ANNOUNCE", "the gain a variable sends to its neighbours is the one it later compares with theirs: nothing changes it between the send and the arbitration")
    from ..facts import stmt_paths as _sp
    n_ann = 0
    for (mod_, cn_, fld_) in (("pydcop.algorithms.mgm2", "Mgm2Computation", "_potential_gain"), ("pydcop.algorithms.mgm", "MgmComputation", "_gain")):
        cls_ = repo.cls(mod_, cn_)
        arb = {"Mgm2Computation": ("_handle_gain_messages", "_handle_go_message", "_clear_agent", "__init__"), "MgmComputation": ("__init__",)}[cn_]
        for f_ in cls_.methods.values():
            if not any(isinstance(c, ast.Call) and is_self_attr(c.func, "_send_gain") for c in ast.walk(f_.node)):
                continue
            for p_ in _sp(f_.node.body):
                i_send = p_.index(lambda st: any(isinstance(c, ast.Call) and is_self_attr(c.func, "_send_gain") for c in walk_no_nested(st)))
                if i_send < 0:
                    continue
                n_ann += 1
                late = [st for st in p_.stmts[i_send + 1:] if any(isinstance(n, (ast.Assign, ast.AugAssign)) and any(is_self_attr(t, fld_) for t in (n.targets if isinstance(n, ast.Assign) else [n.target])) for n in walk_no_nested(st))]
                ctx.check(not late, "R-ANNOUNCE", f"{cn_}.{f_.name}: {fld_} is final when the gain is sent", f_, late[0] if late else p_.stmts[i_send],
                          f"self.{fld_} is changed after _send_gain() on this path: neighbours arbitrate against the announced (old) gain while this variable decides with the new one - "
                          "two neighbours can then both believe they hold the best gain and move together")
        sg = cls_.methods.get("_send_gain")
        ok_ = sg is not None and any(isinstance(c, ast.Call) and isinstance(c.func, ast.Name) and c.func.id.endswith("GainMessage") and c.args and norm(c.args[0]) == f"self.{fld_}" for c in ast.walk(sg.node))
        ctx.check(ok_, "R-ANNOUNCE", f"{cn_}._send_gain sends self.{fld_}", sg or cls_, (sg or cls_).node, "")
    ctx.check(n_ann >= 3, "R-ANNOUNCE", "announcement paths enumerated", repo.cls("pydcop.algorithms.mgm2", "Mgm2Computation"), None, f"{n_ann}")
    ctx.floor("R-EXCLUSIVE", 8)


_M = "pydcop/algorithms/mgm.py"
_M2 = "pydcop/algorithms/mgm2.py"
VARIANTS = [
    ("mgm2_go_decision_stored_after_entering_go_state", _M2, ["                self._can_move = True\n                self.post_msg(self._partner.name, Mgm2GoMessage(True))\n", "                self._can_move = False\n                self.post_msg(self._partner.name, Mgm2GoMessage(False))\n            self._enter_state(\"go?\")\n"],
     ["                go = True\n", "                go = False\n            self.post_msg(self._partner.name, Mgm2GoMessage(go))\n            self._enter_state(\"go?\")\n            self._can_move = go\n"], "break", "R-PAIR"),
    ("n_mgm2_go_decision_named", _M2, ["                self._can_move = True\n                self.post_msg(self._partner.name, Mgm2GoMessage(True))\n", "                self._can_move = False\n                self.post_msg(self._partner.name, Mgm2GoMessage(False))\n            self._enter_state(\"go?\")\n"],
     ["                go = True\n", "                go = False\n            self._can_move = go\n            self.post_msg(self._partner.name, Mgm2GoMessage(go))\n            self._enter_state(\"go?\")\n"], "neutral"),
    ("mgm2_accepted_offer_unpacked_in_offerer_order", _M2, "                val_p, self._potential_value, partner_name = random.choice(best_offers)", "                self._potential_value, val_p, partner_name = random.choice(best_offers)", "break", "R-PAIR"),
    ("mgm_random_tiebreak_enabled_with_private_number", _M, "        if self.break_mode == random:", "        if self.break_mode == \"random\":", "break", "R-EXCLUSIVE"),
    ("n_mgm_random_tiebreak_enabled_and_repaired", _M, ["        if self.break_mode == random:", "                + [(self.random_nb, self.name)]"], ["        if self.break_mode == \"random\":", "                + [(self.__random__, self.name)]"], "neutral"),
    ("mgm2_offer_keys_sorted_values_not", _M2, "                var_values, gains = zip(*self.offers.items())\n                r[\"var_values\"] = var_values\n                r[\"gains\"] = gains\n",
     "                r[\"var_values\"] = sorted(self.offers)\n                r[\"gains\"] = list(self.offers.values())\n", "break", "R-WIRE"),
    ("mgm2_gain_sent_before_accept", _M2, "        if msg.accept:\n            self._potential_value = msg.value\n            self._potential_gain = msg.gain", "        self._send_gain()\n        if msg.accept:\n            self._potential_value = msg.value\n            self._potential_gain = msg.gain", "break", "R-ANNOUNCE"),
    ("mgm_move_without_best", _M, "            if is_best:\n", "            if is_best or self._gain != 0:\n", "break", "R-EXCLUSIVE"),
    ("mgm_tie_always_moves", _M, "            if ties[0] == self.name:\n                if self.logger.isEnabledFor(logging.INFO):\n                    self.logger.info(\n                        f\"Won lexic ties", "            if ties[-1] == self.name or ties[0] == self.name:\n                if self.logger.isEnabledFor(logging.INFO):\n                    self.logger.info(\n                        f\"Won lexic ties", "break", "R-EXCLUSIVE"),
    ("mgm_tie_list_without_self", _M, "                    if gain == max_gain\n                ]\n                + [self.name]\n            )\n            if ties[0] == self.name:", "                    if gain == max_gain\n                ]\n            )\n            if not ties or ties[0] > self.name:", "break", "R-EXCLUSIVE"),
    ("mgm_moves_to_random", _M, "                self.value_selection(self._new_value, self.current_cost - self._gain)\n            elif self._gain == max_neighbors:", "                self.value_selection(random.choice(self.variable.domain), self.current_cost - self._gain)\n            elif self._gain == max_neighbors:", "break", "R-BESTRESP"),
    ("mgm_gains_not_cleared", _M, "            self._neighbors_gains.clear()\n            self._neighbors_values.clear()\n            self._wait_for_values()", "            self._neighbors_values.clear()\n            self._wait_for_values()", "break", "R-RESET"),
    ("mgm_owncost_current_again", _M, "            + self.variable.cost_for_val(x),", "            + self.variable.cost_for_val(self.current_value),", "break", "R-COSTMODEL"),
    ("mgm_owncost_dropped", _M, "            lambda x: functools.reduce(operator.add, [f(x) for f in reduced_cs])\n            + self.variable.cost_for_val(x),", "            lambda x: functools.reduce(operator.add, [f(x) for f in reduced_cs]),", "break", "R-COSTMODEL"),
    ("mgm2_unilateral_when_committed", _M2, "        if self._committed:\n            neigh_gains = [", "        if self._committed and self._partner is not None and self._is_offerer:\n            neigh_gains = [", "break", "R-EXCLUSIVE"),
    ("mgm2_go_without_local_go", _M2, "        if msg.go:\n            if self._can_move:\n", "        if msg.go:\n            if self._can_move or self._committed:\n", "break", "R-PAIR"),
    ("mgm2_go_ignores_partner", _M2, "        if msg.go:\n            if self._can_move:\n", "        if True:\n            if self._can_move:\n", "break", "R-PAIR"),
    ("mgm2_go_msg_disagrees", _M2, "                self._can_move = False\n                self.post_msg(self._partner.name, Mgm2GoMessage(False))", "                self._can_move = False\n                self.post_msg(self._partner.name, Mgm2GoMessage(True))", "break", "R-PAIR"),
    ("mgm2_commit_on_reject", _M2, "        else:\n            self._committed = False\n            if self.logger.isEnabledFor(logging.INFO):\n                self.logger.info(\n                    f\"Offer refused", "        else:\n            self._committed = True\n            if self.logger.isEnabledFor(logging.INFO):\n                self.logger.info(\n                    f\"Offer refused", "break", "R-PAIR"),
    ("mgm2_tie_without_self", _M2, "                    [k for k, v in self._neighbors_gains.items() if v == max_neighbors]\n                    + [self.name]\n                )", "                    [k for k, v in self._neighbors_gains.items() if v == max_neighbors]\n                )", "break", "R-EXCLUSIVE"),
    ("mgm2_clear_forgets_commit", _M2, "        self._committed = False\n        self._is_offerer = False\n        self._potential_gain = 0\n        self._potential_value = None\n        self.__nb_received_offers__ = 0", "        self._is_offerer = False\n        self._potential_gain = 0\n        self._potential_value = None\n        self.__nb_received_offers__ = 0", "break", "R-RESET"),
    ("mgm2_accept_any_sender", _M2, "                elif self._partner and sender == self._partner.name:", "                elif self._partner:", "break", "R-PAIR"),
]
