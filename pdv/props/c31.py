"""C31 - agent definitions honour their cost model, also when mass-created.

Decided: R-KWBIND on the AgentDef(...) calls of create_agents, lookup/fallback
structure of route / hosting_cost, extra attribute access, sibling agreement of
the three index branches, immutability of the definition's tables.
"""
import ast

from ..model import walk_no_nested, is_self_attr, norm, call_name
from ..facts import FuncFacts, facts_at, count_paths
from ..report import Ctx, AnalysisError
from .. import reprrules as R

MOD = "pydcop.dcop.objects"
MUTATING = {"pop", "popitem", "update", "clear", "setdefault", "append", "extend", "remove", "insert", "add", "discard", "sort", "reverse"}


def _lookup_form(ctx, f, table_field, key_param, default_names, rule, what):
    """The function returns table[key] whenever the key is present and the
    default otherwise.  Accepted idioms:
        try: return self.T[k]   except KeyError: return <default>
        if k in self.T: return self.T[k] ... return <default>
        return self.T.get(k, <default>)
    A falsy-sensitive form (`self.T.get(k) or d`, `self.T[k] or d`) is rejected:
    a specific cost of 0 would be replaced by the default."""
    rets0 = [r for r in walk_no_nested(f.node) if isinstance(r, ast.Return) and r.value is not None]
    ff = FuncFacts(f.node)
    # single-exit form: `x = <outcome>` on each branch and one final `return x`: every assignment of x is an outcome
    outs = []
    for r in rets0:
        if isinstance(r.value, ast.Name):
            asg = [a for a in walk_no_nested(f.node) if isinstance(a, ast.Assign) and len(a.targets) == 1 and isinstance(a.targets[0], ast.Name) and a.targets[0].id == r.value.id]
            if asg:
                outs += [(a, a.value) for a in asg]
                continue
        outs.append((r, r.value))
    specific, default = [], []
    for r, v in outs:
        if isinstance(v, ast.BoolOp) or isinstance(v, ast.IfExp) and not _ifexp_ok(v, table_field, key_param):
            ctx.bad(rule, f"{what}: truthiness fallback", f, r,
                    "the specific value must be returned whenever the key is present, even when it is 0 / falsy")
            continue
        if isinstance(v, ast.Subscript) and is_self_attr(v.value, table_field) and norm(v.slice) == key_param:
            ok = ff.in_except(r) is False and any(g.kind == "try" for g in ff.guards_at(r)) or \
                any(p and norm(t) in (f"{key_param} in self.{table_field}",) for t, p in facts_at(ff, r))
            ctx.check(ok, rule, f"{what}: specific value", f, r, "table lookup must be protected by try/KeyError or a membership test")
            specific.append(r)
        elif isinstance(v, ast.Call) and isinstance(v.func, ast.Attribute) and v.func.attr == "get" and is_self_attr(v.func.value, table_field):
            okg = len(v.args) == 2 and norm(v.args[0]) == key_param and norm(v.args[1]) in default_names
            ctx.check(okg, rule, f"{what}: get(key, default)", f, r, "dict.get must be given the key and the default")
            specific.append(r)
            default.append(r)
        elif norm(v) in default_names:
            okd = ff.in_except(r, "KeyError") or any((not p) and norm(t) == f"{key_param} in self.{table_field}" for t, p in facts_at(ff, r)) \
                or any(p and norm(t) == f"{key_param} not in self.{table_field}" for t, p in facts_at(ff, r)) \
                or (specific and r.lineno > specific[-1].lineno)
            ctx.check(bool(okd), rule, f"{what}: default only when the key is absent", f, r,
                      "the default may only be returned when the table has no entry for the key")
            default.append(r)
        elif isinstance(v, ast.Constant):
            pass  # e.g. route to self = 0, checked separately
        else:
            ctx.bad(rule, f"{what}: unrecognised return", f, r, f"cannot relate `{norm(v)}` to the table value or the default")
    ctx.check(bool(specific) and bool(default), rule, f"{what}: both outcomes present", f, f.node,
              "the function must be able to return both the specific table value and the default")


def _ifexp_ok(v, table_field, key_param):
    t = norm(v.test)
    return t == f"{key_param} in self.{table_field}" and norm(v.body) == f"self.{table_field}[{key_param}]"


def check(ctx: Ctx):
    repo = ctx.repo
    ctx.decided = ("route(): self-test precedes the table lookup and returns 0, specific route wins whenever present, "
                   "default otherwise; hosting_cost() symmetrical; __getattr__ reads only the extra-attribute table and "
                   "raises AttributeError; constructor stores each table from its own parameter and no method mutates "
                   "them afterwards (tables may be shared between mass-created agents); create_agents: every explicit "
                   "keyword binds a declared AgentDef parameter to the homonymous argument, the three index branches "
                   "build agents with the same argument set, unsupported indexes raise.")
    ctx.undecided = "numeric equality of costs for concrete tables; behaviour of user supplied non-dict tables."
    ctx.rule("R-LOOKUP", "specific table value whenever the key is present (0 included), default otherwise")
    ctx.rule("R-SELF0", "the route from an agent to itself is 0 and is decided before the table lookup")
    ctx.rule("R-GETATTR", "__getattr__ serves exactly the extra attributes and raises AttributeError otherwise")
    ctx.rule("R-IMMUT", "AgentDef never mutates the tables it was given (they may be shared by several agents)")
    ctx.rule("R-STORE", "each constructor parameter is stored in its own field; a missing table becomes a fresh empty dict")
    ctx.rule("R-KWBIND", "every explicit keyword of a forwarding AgentDef(...) call binds a declared parameter, to the forwarder's homonymous argument")
    ctx.rule("R-SIBLING", "the index branches of create_agents build agents with the same arguments and name them from prefix+index")

    ad = repo.cls(MOD, "AgentDef")
    init = repo.func(MOD, "AgentDef.__init__")
    route = repo.func(MOD, "AgentDef.route")
    hc = repo.func(MOD, "AgentDef.hosting_cost")
    ga = repo.func(MOD, "AgentDef.__getattr__")
    ca = repo.func(MOD, "create_agents")
    for f in (init, route, hc, ga, ca):
        ctx.touch(f)

    # ---- constructor stores ----------------------------------------------
    want = {"_name": "name", "_attr": init.node.args.kwarg.arg if init.node.args.kwarg else None,
            "_default_hosting_cost": "default_hosting_cost", "_hosting_costs": "hosting_costs",
            "_default_route": "default_route", "_routes": "routes"}
    for fld, p in want.items():
        srcs = R.field_params(repo, ad, fld)
        ctx.check(srcs == {p}, "R-STORE", f"AgentDef.{fld} <- {p}", init, init.node,
                  f"field {fld} must be filled from parameter '{p}' only, found {sorted(srcs)}")
    for fld in ("_hosting_costs", "_routes"):
        for n in walk_no_nested(init.node):
            if isinstance(n, ast.Assign) and any(is_self_attr(t, fld) for t in n.targets):
                p = want[fld]
                v = n.value
                ok = isinstance(v, ast.IfExp) and norm(v.test) in (f"{p} is not None", f"{p} is None") and \
                    ({norm(v.body), norm(v.orelse)} == {p, "{}"} or {norm(v.body), norm(v.orelse)} == {p, "dict()"} or
                     {norm(v.body), norm(v.orelse)} == {f"dict({p})", "{}"})
                ok = ok and ((norm(v.test) == f"{p} is not None") == (norm(v.body) != "{}" and norm(v.body) != "dict()"))
                ctx.check(ok, "R-STORE", f"AgentDef.{fld} default", init, n, f"{fld} must be the given table, or a fresh empty dict when None")
    # parameter defaults: route 1, hosting cost 0
    dmap = dict(zip(init.params[len(init.params) - len(init.node.args.defaults):], init.node.args.defaults))
    ctx.check(norm(dmap.get("default_route", ast.Constant(None))) == "1" and norm(dmap.get("default_hosting_cost", ast.Constant(None))) == "0",
              "R-STORE", "defaults: route 1, hosting cost 0", init, init.node, "documented defaults are default_route=1 and default_hosting_cost=0")

    # ---- route / hosting_cost ---------------------------------------------
    kp = route.params[1]
    first = [s for s in route.node.body if not (isinstance(s, ast.Expr) and isinstance(s.value, ast.Constant))][0]
    ok0 = isinstance(first, ast.If) and norm(first.test) in (f"self.name == {kp}", f"{kp} == self.name", f"self._name == {kp}", f"{kp} == self._name") \
        and len(first.body) == 1 and isinstance(first.body[0], ast.Return) and norm(first.body[0].value) == "0"
    ctx.check(ok0, "R-SELF0", "route(self) == 0 first", route, first, "route() must return 0 for the agent itself before consulting the table")
    _lookup_form(ctx, route, "_routes", kp, ("self.default_route", "self._default_route"), "R-LOOKUP", "route")
    _lookup_form(ctx, hc, "_hosting_costs", hc.params[1], ("self.default_hosting_cost", "self._default_hosting_cost"), "R-LOOKUP", "hosting_cost")
    # the default properties return their fields
    for prop, fld in (("default_route", "_default_route"), ("default_hosting_cost", "_default_hosting_cost"),
                      ("routes", "_routes"), ("hosting_costs", "_hosting_costs"), ("name", "_name")):
        ctx.check(R.property_field(repo, ad, prop) == fld, "R-LOOKUP", f"property {prop} -> {fld}", ad.methods.get(prop) or ad, (ad.methods.get(prop) or ad).node,
                  f"property {prop} must return self.{fld}")

    # ---- __getattr__ -----------------------------------------------------
    item = ga.params[1]
    rets = [r for r in walk_no_nested(ga.node) if isinstance(r, ast.Return)]
    okg = len(rets) == 1 and norm(rets[0].value) == f"self._attr[{item}]"
    ffg = FuncFacts(ga.node)
    raises = [r for r in walk_no_nested(ga.node) if isinstance(r, ast.Raise)]
    okr = len(raises) >= 1 and all(isinstance(r.exc, ast.Call) and call_name(r.exc) == "AttributeError" and ffg.in_except(r, "KeyError") for r in raises)
    ctx.check(okg and okr, "R-GETATTR", "AgentDef.__getattr__", ga, ga.node,
              "__getattr__ must return self._attr[item] and convert KeyError into AttributeError")
    ea = ad.methods.get("extra_attr")
    if ea:
        rv = [norm(r.value) for r in walk_no_nested(ea.node) if isinstance(r, ast.Return)]
        ctx.check("self._attr" in rv, "R-GETATTR", "extra_attr returns the table", ea, ea.node, "extra_attr() must return the extra attributes")

    # ---- immutability ------------------------------------------------------
    tables = ("_routes", "_hosting_costs", "_attr")
    n_mut = 0
    for m in ad.methods.values():
        for n in walk_no_nested(m.node):
            if isinstance(n, ast.Call) and isinstance(n.func, ast.Attribute) and n.func.attr in MUTATING and \
                    any(is_self_attr(n.func.value, t) for t in tables):
                n_mut += 1
                ctx.bad("R-IMMUT", f"{m.name}: {norm(n.func)}", m, n, "in-place mutation of a table that callers (create_agents) share between agents")
            if isinstance(n, (ast.Assign, ast.AugAssign, ast.Delete)):
                tg = n.targets if isinstance(n, (ast.Assign, ast.Delete)) else [n.target]
                for t in tg:
                    if isinstance(t, ast.Subscript) and any(is_self_attr(t.value, tt) for tt in tables):
                        n_mut += 1
                        ctx.bad("R-IMMUT", f"{m.name}: store into {norm(t.value)}", m, n, "in-place mutation of a shared table")
            # mutation of the parameters themselves in __init__
            if m is init and isinstance(n, ast.Call) and isinstance(n.func, ast.Attribute) and n.func.attr in MUTATING \
                    and isinstance(n.func.value, ast.Name) and n.func.value.id in ("routes", "hosting_costs", "kwargs"):
                n_mut += 1
                ctx.bad("R-IMMUT", f"__init__ mutates argument {n.func.value.id}", m, n, "constructor mutates a caller-owned table")
    if n_mut == 0:
        ctx.ok("R-IMMUT", "no in-place mutation in AgentDef", ad, ad.node)

    # ---- create_agents -------------------------------------------------------
    calls = [c for c in walk_no_nested(ca.node) if isinstance(c, ast.Call) and call_name(c) == "AgentDef"]
    if len(calls) < 3:
        raise AnalysisError("create_agents: expected 3 AgentDef(...) construction sites")
    iparams = init.params[1:]
    fwd = {"default_route": "default_route", "routes": "routes", "default_hosting_cost": "default_hosting_costs",
           "hosting_costs": "hosting_costs"}
    sig = None
    for c in calls:
        kws = {k.arg: norm(k.value) for k in c.keywords if k.arg is not None}
        star = [norm(k.value) for k in c.keywords if k.arg is None]
        for k in kws:
            ctx.check(k in iparams, "R-KWBIND", f"AgentDef({k}=...)", ca, c,
                      f"keyword '{k}' is not a parameter of AgentDef.__init__: it is swallowed by **kwargs as a bogus extra attribute and the real parameter keeps its default")
        for p, src in fwd.items():
            ctx.check(kws.get(p) == src, "R-KWBIND", f"AgentDef({p}={src})", ca, c,
                      f"AgentDef parameter '{p}' must receive create_agents' argument '{src}', found {kws.get(p)}")
        ctx.check(star == [ca.node.args.kwarg.arg] if ca.node.args.kwarg else False, "R-KWBIND", "extra attributes forwarded", ca, c,
                  "**kwargs of create_agents must be forwarded as the agents' extra attributes")
        nm_arg = c.args[0] if len(c.args) == 1 else None
        if isinstance(nm_arg, ast.Name):
            nm_defs = [a.value for a in walk_no_nested(ca.node) if isinstance(a, ast.Assign) and len(a.targets) == 1 and norm(a.targets[0]) == nm_arg.id]
            lp = [l for l in walk_no_nested(ca.node) if isinstance(l, ast.For) and any(x is c for x in ast.walk(l))]
            nm_here = [d for d in nm_defs if lp and any(x is d for x in ast.walk(lp[-1]))]
            nm_arg = nm_here[0] if len(nm_here) == 1 else None
        ctx.check(nm_arg is not None and any(isinstance(x, ast.Name) and x.id == ca.params[0] for x in ast.walk(nm_arg)), "R-SIBLING", "agent named by the computed name", ca, c,
                  "the agent must be constructed with the name computed for its index (prefix + index)")
        s = (tuple(sorted(kws.items())), tuple(star))
        if sig is None:
            sig = s
        ctx.check(s == sig, "R-SIBLING", "same arguments in every branch", ca, c, "the index branches must build agents with identical arguments")
    # branch dispatch, by cases on the kind of `indexes` (tuple of iterables / range / other iterable / anything else): whatever the arrangement of
    # the tests, each kind runs one loop that stores one AgentDef per index into a table created empty, and returns that table; anything else raises
    from ..facts import exec_under
    ip = ca.params[1]
    KINDS_ = {"tuple": (True, False, True), "range": (False, True, True), "iterable": (False, False, True), "other": (False, False, False)}
    n_ok = 0
    for kind, (is_t, is_r, has_it) in KINDS_.items():
        def atom(e, is_t=is_t, is_r=is_r, has_it=has_it):
            t = norm(e)
            if t == f"isinstance({ip}, tuple)":
                return is_t
            if t == f"isinstance({ip}, range)":
                return is_r
            if t in (f"hasattr({ip}, '__iter__')", f"isinstance({ip}, Iterable)", f"isinstance({ip}, CollectionIterable)"):
                return has_it
            return None
        body = [s_ for s_ in ca.node.body if not (isinstance(s_, ast.Expr) and isinstance(s_.value, ast.Constant))]
        eff, k = exec_under(body, atom, opaque=True)
        if kind == "other":
            ctx.check(k == "raise", "R-SIBLING", "index kind dispatch", ca, eff[-1] if eff else ca.node,
                      "create_agents must dispatch tuple-of-iterables, range and plain iterable, and reject anything else")
            continue
        loops = [x for x in eff if isinstance(x, ast.For)]
        okk = k == "return" and len(loops) == 1 and isinstance(eff[-1], ast.Return) and isinstance(eff[-1].value, ast.Name)
        if okk:
            tbl = eff[-1].value.id
            inits = [x for x in eff if isinstance(x, ast.Assign) and norm(x.targets[0]) == tbl]
            st_ = [x for x in ast.walk(loops[0]) if isinstance(x, ast.Assign) and isinstance(x.targets[0], ast.Subscript) and norm(x.targets[0].value) == tbl]
            src = norm(loops[0].iter)
            okk = len(inits) == 1 and norm(inits[0].value) == "{}" and eff.index(inits[0]) < eff.index(loops[0]) and len(st_) == 1 and isinstance(st_[0].value, ast.Call) and call_name(st_[0].value) == "AgentDef" \
                and (src == ip or (kind == "tuple" and src == f"itertools.product(*{ip})"))
        ctx.check(okk, "R-SIBLING", f"index kind dispatch: {kind}", ca, loops[0] if loops else ca.node,
                  f"for a {kind} index create_agents must run one loop over the indexes that stores one AgentDef per index into a fresh table and return that table (outcome {k})")
        n_ok += 1 if okk else 0
    ctx.floor("R-KWBIND", 12)


_F = "pydcop/dcop/objects.py"
VARIANTS = [
    ("kw_misspelt", _F, "                default_hosting_cost=default_hosting_costs,\n                hosting_costs=hosting_costs,\n                **kwargs,\n            )\n    elif isinstance(indexes, range):",
     "                default_hosting_costs=default_hosting_costs,\n                hosting_costs=hosting_costs,\n                **kwargs,\n            )\n    elif isinstance(indexes, range):", "break", "R-KWBIND"),
    ("branch_forgets_routes", _F, "            name = f\"{name_prefix}{i:0{digit_count}d}\"\n            agents[name] = AgentDef(\n                name,\n                default_route=default_route,\n                routes=routes,\n",
     "            name = f\"{name_prefix}{i:0{digit_count}d}\"\n            agents[name] = AgentDef(\n                name,\n                default_route=default_route,\n", "break"),
    ("kwargs_not_forwarded", _F, "                hosting_costs=hosting_costs,\n                **kwargs,\n            )\n    else:", "                hosting_costs=hosting_costs,\n            )\n    else:", "break", "R-KWBIND"),
    ("swapped_defaults", _F, "                default_route=default_route,\n                routes=routes,\n                default_hosting_cost=default_hosting_costs,\n                hosting_costs=hosting_costs,\n                **kwargs,\n            )\n    elif hasattr",
     "                default_route=default_hosting_costs,\n                routes=routes,\n                default_hosting_cost=default_route,\n                hosting_costs=hosting_costs,\n                **kwargs,\n            )\n    elif hasattr", "break", "R-KWBIND"),
    ("hosting_or_default", _F, "        try:\n            return self._hosting_costs[computation]\n        except KeyError:\n            return self.default_hosting_cost",
     "        return self._hosting_costs.get(computation) or self.default_hosting_cost", "break", "R-LOOKUP"),
    ("route_self_after_lookup", _F, "        if self.name == other_agt:\n            return 0\n        try:\n            return self._routes[other_agt]\n        except KeyError:\n            return self.default_route",
     "        try:\n            return self._routes[other_agt]\n        except KeyError:\n            pass\n        if self.name == other_agt:\n            return 0\n        return self.default_route", "break", "R-SELF0"),
    ("route_default_swapped", _F, "        except KeyError:\n            return self.default_route", "        except KeyError:\n            return self.default_hosting_cost", "break", "R-LOOKUP"),
    ("init_pops_self_route", _F, "        self._routes = routes if routes is not None else {}\n", "        self._routes = routes if routes is not None else {}\n        self._routes.pop(name, None)\n", "break", "R-IMMUT"),
    ("init_fields_crossed", _F, "        self._default_hosting_cost = default_hosting_cost\n", "        self._default_hosting_cost = default_route\n", "break", "R-STORE"),
    ("getattr_reads_dict", _F, "            return self._attr[item]\n        except KeyError:\n            raise AttributeError", "            return self.__dict__[item]\n        except KeyError:\n            raise AttributeError", "break", "R-GETATTR"),
    ("default_route_changed", _F, "        default_route: float = 1,\n        routes: Dict[str, float] = None,\n        default_hosting_cost: float = 0,\n        hosting_costs: Dict[str, float] = None,\n        **kwargs: Union[str, int, float],\n    ) -> None:\n        \"\"\"Build an AgentDef",
     "        default_route: float = 0,\n        routes: Dict[str, float] = None,\n        default_hosting_cost: float = 0,\n        hosting_costs: Dict[str, float] = None,\n        **kwargs: Union[str, int, float],\n    ) -> None:\n        \"\"\"Build an AgentDef", "break", "R-STORE"),
    ("n_get_with_default", _F, "        try:\n            return self._hosting_costs[computation]\n        except KeyError:\n            return self.default_hosting_cost",
     "        return self._hosting_costs.get(computation, self.default_hosting_cost)", "neutral"),
    ("n_membership", _F, "        try:\n            return self._routes[other_agt]\n        except KeyError:\n            return self.default_route",
     "        if other_agt in self._routes:\n            return self._routes[other_agt]\n        return self.default_route", "neutral"),
]
