"""C14 - YAML round trip of a DCOP.

Decided (structure of pydcop.dcop.yamldcop and the helpers it relies on):

* R-API       yamldcop / dcop / objects / relations import only names that exist
              in the pinned environment (a module that fails at import cannot load
              anything);
* R-STRFIRST  file-name normalisation tests `str` before iterability;
* R-KEYS      writer/reader agreement, section by section: every key the dumper
              writes is a key the loader reads for that section; the constraint
              `type` literals written are the ones compared; top-level keys;
* R-SECTIONS  dcop_yaml emits domains, variables, constraints and agents from the
              DCOP's own collections; load_dcop rebuilds all of them;
* R-EMIT      a conditionally emitted section is skipped only when *every* field
              it carries is at its default: each attribute written in the emitted
              value appears in the guard of the emission;
* R-MATRIX    extensional constraints: the dumper uses one variable list for the
              header and for every row; the loader addresses cell i with
              variable i's domain; the default matrix has independent rows
              (deepcopy per cell of every level);
* R-AGENTS    the loader hands default/specific hosting costs, default route and
              both directions of the route table to AgentDef by declared keyword;
* R-SCALAR    a substring test on a loaded YAML scalar is guarded by
              isinstance(..., str).

Not decided: equality of the loaded objects with the dumped ones.
"""
import ast

from ..model import walk_no_nested, norm, call_name, is_self_attr
from ..facts import FuncFacts, facts_at, count_paths
from ..report import Ctx, AnalysisError
from ..flow import bound_arg, local_defs, resolve_local
from .. import apirules

Y = "pydcop.dcop.yamldcop"
REL = "pydcop.dcop.relations"
OBJ = "pydcop.dcop.objects"


def _str_keys_written(fnode):
    """string keys of dict displays and of subscript stores in a function"""
    out = set()
    for n in ast.walk(fnode):
        if isinstance(n, ast.Dict):
            for k in n.keys:
                if isinstance(k, ast.Constant) and isinstance(k.value, str):
                    out.add(k.value)
        elif isinstance(n, ast.Assign):
            for t in n.targets:
                if isinstance(t, ast.Subscript) and isinstance(t.slice, ast.Constant) and isinstance(t.slice.value, str):
                    out.add(t.slice.value)
    return out


def _str_keys_read(fnode):
    """string constants used as subscripts (load) or in `"k" in x` tests"""
    out = set()
    for n in ast.walk(fnode):
        if isinstance(n, ast.Subscript) and isinstance(n.ctx, ast.Load) and isinstance(n.slice, ast.Constant) and isinstance(n.slice.value, str):
            out.add(n.slice.value)
        elif isinstance(n, ast.Compare) and len(n.ops) == 1 and isinstance(n.ops[0], (ast.In, ast.NotIn, ast.Eq, ast.NotEq)) and isinstance(n.left, ast.Constant) and isinstance(n.left.value, str):
            out.add(n.left.value)
        elif isinstance(n, ast.Compare) and len(n.ops) == 1 and isinstance(n.ops[0], (ast.Eq, ast.NotEq)) and isinstance(n.comparators[0], ast.Constant) and isinstance(n.comparators[0].value, str):
            out.add(n.comparators[0].value)
    return out


def check(ctx: Ctx):
    repo = ctx.repo
    ctx.decided = ("importability of the YAML layer; str-before-iterable file-name normalisation; writer/reader key agreement for every section; all "
                   "sections emitted and rebuilt; conditional sections skipped only when all their fields are default; extensional matrix "
                   "addressing and independent default rows; AgentDef keywords; scalar type guards.")
    ctx.undecided = "equivalence of the loaded DCOP with the dumped one on concrete inputs (value equality of constraints, costs, routes)."
    ctx.rule("R-API", "imports of yamldcop, dcop, objects, relations resolve in this environment")
    ctx.rule("R-STRFIRST", "a file name given as str is not iterated character by character")
    ctx.rule("R-KEYS", "keys written by each dumper are read by the matching loader")
    ctx.rule("R-SECTIONS", "dcop_yaml emits and load_dcop rebuilds domains, variables, constraints, agents")
    ctx.rule("R-EMIT", "every attribute written in a conditionally emitted value appears in the guard of the emission")
    ctx.rule("R-MATRIX", "extensional constraints: one variable order for header and rows; cell i addressed through variable i; independent default rows")
    ctx.rule("R-AGENTS", "loader -> AgentDef: keywords bind declared parameters; costs, default route and symmetric routes handed over")
    ctx.rule("R-SCALAR", "substring tests on loaded scalars are guarded by isinstance(str)")
    y = repo.module(Y)
    ctx.touch(y)
    for mn in (Y, "pydcop.dcop.dcop", OBJ, REL, "pydcop.utils.expressionfunction", "pydcop.utils.simple_repr"):
        apirules.check_imports(ctx, repo.module(mn), "R-API")
        apirules.check_module_attrs(ctx, repo.module(mn), "R-API")
    ctx.floor("R-API", 20)

    # ---- str first ------------------------------------------------------------------------------
    lf = repo.func(Y, "load_dcop_from_file")
    ctx.touch(lf)
    p = lf.params[0]
    ok = False
    node = lf.node
    for st in lf.node.body:
        if isinstance(st, ast.If) and any(isinstance(s, ast.Assign) and norm(s.targets[0]) == p and norm(s.value) == f"[{p}]" for s in st.body):
            node = st
            t = st.test
            if isinstance(t, ast.BoolOp) and isinstance(t.op, ast.Or):
                ok = norm(t.values[0]) == f"isinstance({p}, str)"
            elif norm(t) == f"isinstance({p}, str)":
                ok = True
    ctx.check(ok, "R-STRFIRST", "load_dcop_from_file wraps a single str file name in a list (str tested first)", lf, node,
              "a str is iterable: without the str test first, 'dcop.yaml' is read as the files 'd', 'c', 'o', ...")
    loops = [l for l in lf.node.body if isinstance(l, ast.For) and norm(l.iter) == p]
    ok = len(loops) == 1 and any(isinstance(s, ast.AugAssign) and norm(s.target) == "content" and "read_text" in norm(s.value) for s in loops[0].body) and \
        any(isinstance(c, ast.Call) and call_name(c) == "load_dcop" and norm(c.args[0]) == "content" for c in ast.walk(lf.node))
    ctx.check(ok, "R-STRFIRST", "the content of every file is concatenated in order and parsed once", lf, loops[0] if loops else lf.node, "")

    # relative `source:` files of intentional constraints resolve against the directory of the FIRST file (the main one)
    md = [a for a in ast.walk(lf.node) if isinstance(a, (ast.Assign, ast.AugAssign)) and any(norm(t) == "main_dir" for t in (a.targets if isinstance(a, ast.Assign) else [a.target]))]
    ffl = FuncFacts(lf.node)
    inloop = [a for a in md if loops and any(n is a for n in ast.walk(loops[0]))]
    ok = bool(loops) and len(inloop) == 1 and norm(inloop[0].value) in ("p.parent", "pathlib.Path(filename).parent") and \
        ("main_dir is None", True) in {(norm(t), q) for t, q in facts_at(ffl, inloop[0])} and \
        all(norm(a.value) == "None" for a in md if a not in inloop) and \
        any(isinstance(c, ast.Call) and call_name(c) == "load_dcop" and len(c.args) > 1 and norm(c.args[1]) == "main_dir" for c in ast.walk(lf.node))
    ctx.check(ok, "R-STRFIRST", "main_dir is the directory of the first file only, and is what load_dcop receives", lf, inloop[0] if inloop else lf.node,
              "relative source files of intentional constraints are resolved against main_dir: taking it from a later file (e.g. the agents file in another directory) "
              "loads a different python file or none")

    # ---- keys --------------------------------------------------------------------------------------
    pairs = [("_yaml_domains", "_build_domains", "domains"), ("_yaml_variables", "_build_variables", "variables"),
             ("_yaml_constraints", "_build_constraints", "constraints"), ("yaml_agents", "_build_agents", "agents")]
    for w, r, section in pairs:
        fw, fr = repo.func(Y, w), repo.func(Y, r)
        ctx.touch(fw)
        ctx.touch(fr)
        kw, kr = _str_keys_written(fw.node), _str_keys_read(fr.node)
        if any(isinstance(c, ast.Call) and call_name(c) == "AgentDef" and any(k.arg is None for k in c.keywords) for c in ast.walk(fr.node)):
            # per-agent attributes are forwarded as **kwargs: they are read by AgentDef's own parameters
            ini_ = repo.func(OBJ, "AgentDef.__init__")
            kr = kr | set(ini_.params[1:]) | set(ini_.kwonly)
            if ini_.has_varkw:
                # any other per-agent key becomes an attribute of the same name: the dumper must write an attribute under its own name
                for d_ in ast.walk(fw.node):
                    if isinstance(d_, ast.Dict):
                        for k_, v_ in zip(d_.keys, d_.values):
                            if isinstance(k_, ast.Constant) and isinstance(v_, ast.Attribute) and isinstance(v_.value, ast.Name) and v_.value.id == "agt" and k_.value not in kr:
                                ctx.check(k_.value == v_.attr, "R-KEYS", f"agents: extra attribute `{v_.attr}` is written under its own name", fw, d_,
                                          f"AgentDef restores extra attributes by key name: `{k_.value}` would come back as agt.{k_.value}, not agt.{v_.attr}")
                                if k_.value == v_.attr:
                                    kr = kr | {k_.value}
        missing = sorted(k for k in kw if k not in kr)
        ctx.check(not missing, "R-KEYS", f"{section}: every key written by {w} is read by {r}", fw, fw.node,
                  f"written but never read: {missing} (written {sorted(kw)}, read {sorted(kr)})", text=f"{w} keys")
        ctx.check(section in kw or section == "agents", "R-KEYS", f"{section}: the dumper emits the section under its own name", fw, fw.node, "", text=f"{w} section")
        ctx.check(section in kr, "R-KEYS", f"{section}: the loader looks the section up under the same name", fr, fr.node, "", text=f"{r} section")
    fw = repo.func(Y, "yaml_agents")
    kw = _str_keys_written(fw.node)
    ctx.check({"agents", "routes", "hosting_costs", "capacity", "default", "computations"} <= kw, "R-KEYS", "agents: capacity, routes (+default) and hosting costs (default, computations) are written", fw, fw.node,
              f"keys written: {sorted(kw)}", text="yaml_agents required keys")
    fw = repo.func(Y, "_yaml_constraints")
    kw = _str_keys_written(fw.node)
    lits = {n.value for d in ast.walk(fw.node) if isinstance(d, ast.Dict) for k, n in zip(d.keys, d.values) if isinstance(k, ast.Constant) and k.value == "type" and isinstance(n, ast.Constant)}
    fr = repo.func(Y, "_build_constraints")
    cmp_lits = {n.comparators[0].value for n in ast.walk(fr.node) if isinstance(n, ast.Compare) and norm(n.left) == "c['type']" and isinstance(n.comparators[0], ast.Constant)}
    ctx.check(lits and lits <= cmp_lits, "R-KEYS", "constraints: every `type` literal written is one the loader dispatches on", fw, fw.node, f"written {sorted(lits)}, dispatched {sorted(cmp_lits)}", text="constraint type literals")
    ctx.check({"function", "variables", "values", "type"} <= kw, "R-KEYS", "constraints: function | (variables, values) written with the type", fw, fw.node, f"{sorted(kw)}", text="constraint keys")
    fw = repo.func(Y, "_yaml_variables")
    ctx.check({"domain", "initial_value"} <= _str_keys_written(fw.node), "R-KEYS", "variables: domain and initial value written", fw, fw.node, "", text="variable keys")
    fw = repo.func(Y, "_yaml_domains")
    ctx.check({"values", "type"} <= _str_keys_written(fw.node), "R-KEYS", "domains: values and type written", fw, fw.node, "", text="domain keys")
    dy = repo.func(Y, "dcop_yaml")
    ld = repo.func(Y, "load_dcop")
    ctx.check({"name", "objective"} <= _str_keys_written(dy.node) and {"name", "objective"} <= _str_keys_read(ld.node), "R-KEYS", "top level: name and objective written and read", dy, dy.node, "", text="top keys")

    # ---- sections ----------------------------------------------------------------------------------
    ctx.touch(dy)
    want = [("_yaml_domains", "dcop.domains.values()"), ("_yaml_variables", "dcop.variables.values()"), ("_yaml_constraints", "dcop.constraints.values()"), ("yaml_agents", "dcop.agents.values()")]
    # the pieces of the returned string, in order: `s = a; s += b; ...; return s` or `return a + b + ...` (or '\n'.join([...]), folded by the front end)
    def _flat(e):
        return _flat(e.left) + _flat(e.right) if isinstance(e, ast.BinOp) and isinstance(e.op, ast.Add) else [e]
    ret = [r for r in walk_no_nested(dy.node) if isinstance(r, ast.Return)]
    pieces = []
    if len(ret) == 1 and isinstance(ret[0].value, ast.Name):
        for s in dy.node.body:
            if isinstance(s, ast.Assign) and norm(s.targets[0]) == ret[0].value.id:
                pieces = _flat(s.value)
            elif isinstance(s, ast.AugAssign) and norm(s.target) == ret[0].value.id and isinstance(s.op, ast.Add):
                pieces += _flat(s.value)
    elif len(ret) == 1 and ret[0].value is not None and dy.node.body[-1] is ret[0]:
        pieces = _flat(ret[0].value)
    got = [(x.func.id, norm(x.args[0]) if x.args else "") for x in pieces if isinstance(x, ast.Call) and isinstance(x.func, ast.Name)]
    ctx.check(all(w in got for w in want) and len(ret) == 1 and len(got) == len(set(got)), "R-SECTIONS", "dcop_yaml appends domains, variables, constraints and agents of the DCOP", dy, dy.node,
              f"found {got}")
    ctx.touch(ld)
    t = norm(ld.node)
    need = ["dcop.domains = _build_domains(loaded)", "dcop.variables = _build_variables(loaded, dcop)", "dcop._constraints = _build_constraints(loaded, dcop, main_dir)", "dcop._agents_def = _build_agents(loaded)"]
    order = [t.find(x) for x in need]
    ctx.check(all(o >= 0 for o in order) and order == sorted(order), "R-SECTIONS", "load_dcop rebuilds domains, then variables, then constraints, and the agents", ld, ld.node,
              "variables need the domains, constraints need the variables")

    # ---- conditional emission ----------------------------------------------------------------------
    n_emit = 0
    for fn, obj in (("yaml_agents", "agt"), ("_yaml_variables", "v")):
        f = repo.func(Y, fn)
        ff = FuncFacts(f.node)
        for st in ast.walk(f.node):
            if isinstance(st, ast.If) and not st.orelse:
                for s in st.body:
                    if isinstance(s, ast.Assign) and isinstance(s.targets[0], ast.Subscript):
                        emitted = {n.attr for n in ast.walk(s.value) if isinstance(n, ast.Attribute) and isinstance(n.value, ast.Name) and n.value.id == obj}
                        guard = {n.attr for n in ast.walk(st.test) if isinstance(n, ast.Attribute) and isinstance(n.value, ast.Name) and n.value.id == obj}
                        if not emitted:
                            continue
                        n_emit += 1
                        disj = isinstance(st.test, ast.BoolOp) and isinstance(st.test.op, ast.And) and len(emitted) > 1
                        ctx.check(emitted <= guard and not disj, "R-EMIT", f"{fn}: emission of {sorted(emitted)} is skipped only when all of them are default", f, st,
                                  f"the value written carries {sorted(emitted)} but the guard only looks at {sorted(guard)}: an object whose other field is set loses it on the way to YAML")
    ctx.floor("R-EMIT", 3)
    ya = repo.func(Y, "yaml_agents")
    t = norm(ya.node)
    ctx.check("if agt_dict:" in t and "res['agents'] = agt_dict" in t and "res['routes'] = routes" in t and "res['hosting_costs'] = hosting_costs" in t, "R-EMIT", "yaml_agents: the three agent sections reach the output", ya, ya.node, "")

    # ---- extensional matrix ------------------------------------------------------------------------
    yc = repo.func(Y, "_yaml_constraints")
    ctx.touch(yc)
    vd = [s for s in ast.walk(yc.node) if isinstance(s, ast.Assign) and norm(s.targets[0]) == "variables"]
    ok = len(vd) == 1 and norm(vd[0].value) == "[v.name for v in r.dimensions]"
    joins = [c for c in ast.walk(yc.node) if isinstance(c, ast.Call) and isinstance(c.func, ast.Attribute) and c.func.attr == "join" and c.args and isinstance(c.args[0], (ast.ListComp, ast.GeneratorExp))]
    rowj = [c for c in joins if norm(c.args[0].generators[0].iter) == "variables"]
    ok = ok and len(rowj) == 1 and norm(rowj[0].args[0].elt) == f"str(assignment[{norm(rowj[0].args[0].generators[0].target)}])"
    d = [x for x in ast.walk(yc.node) if isinstance(x, ast.Dict) and any(isinstance(k, ast.Constant) and k.value == "variables" for k in x.keys)]
    ok = ok and len(d) == 1 and norm(dict(zip([k.value for k in d[0].keys], d[0].values))["variables"]) == "variables"
    ev = [s for s in ast.walk(yc.node) if isinstance(s, ast.Assign) and norm(s.targets[0]) == "val"]
    ok = ok and len(ev) == 1 and norm(ev[0].value) == "r(**assignment)" and any(isinstance(l, ast.For) and norm(l.iter) == "generate_assignment_as_dict(r.dimensions)" for l in ast.walk(yc.node))
    ctx.check(ok, "R-MATRIX", "dump: every full assignment is evaluated and written with its values in the order of the `variables` header", yc, vd[0] if vd else yc.node,
              "the loader reads the i-th token of a row as a value of the i-th listed variable")
    bc = repo.func(Y, "_build_constraints")
    ctx.touch(bc)
    loops = [l for l in ast.walk(bc.node) if isinstance(l, ast.For) and norm(l.iter) == "enumerate(vals_def[:-1])"]
    ok = len(loops) == 1
    if ok:
        i, vdn = [norm(e) for e in loops[0].target.elts]
        body = [norm(s) for s in loops[0].body]
        ok = body == [f"iv, _ = vars[{i}].domain.to_domain_value({vdn}.strip())", "val_position = val_position[iv]"]
        t = norm(bc.node)
        ok = ok and "iv, _ = vars[-1].domain.to_domain_value(val_def.strip())" in t and "val_position[iv] = value" in t and "vars = [dcop.variable(v) for v in c['variables']]" in t \
            and "values = assignment_matrix(vars, default)" in t and "NAryMatrixRelation(vars, values, name=c_name)" in t and "val_position = values" in t
    ctx.check(ok, "R-MATRIX", "load: token i of a row selects, through variable i's domain, the i-th level of the matrix built over the listed variables", bc, loops[0] if loops else bc.node,
              "pairing token i with another variable's domain writes the value into the wrong cell")
    tdv = repo.func(OBJ, "Domain.to_domain_value")
    ctx.touch(tdv)
    vp = tdv.params[1]
    loops = [l for l in tdv.node.body if isinstance(l, ast.For) and norm(l.iter) == "enumerate(self._values)" and isinstance(l.target, ast.Tuple) and len(l.target.elts) == 2]
    ok = len(loops) == 1 and not [a for a in ast.walk(tdv.node) if isinstance(a, (ast.Assign, ast.AugAssign, ast.NamedExpr)) and vp in {n.id for n in ast.walk(a) if isinstance(n, ast.Name) and isinstance(n.ctx, ast.Store)}]
    if ok:
        i, v = [norm(e) for e in loops[0].target.elts]
        ifs = [st for st in loops[0].body if isinstance(st, ast.If)]
        ok = len(ifs) == 1 and len(loops[0].body) == 1 and norm(ifs[0].test) in (f"str({v}) == {vp}", f"{vp} == str({v})") and [norm(x) for x in ifs[0].body] == [f"return ({i}, {v})"] \
            and not ifs[0].orelse and not loops[0].orelse and isinstance(tdv.node.body[-1], ast.Raise)
    ctx.check(ok, "R-MATRIX", "a token denotes the domain value whose str() is exactly the token (first exact match, else an error)", tdv, loops[0] if loops else tdv.node,
              "dcop_yaml writes str(value): any looser match (case folding, stripping, prefix) maps two distinct values of a domain to one cell")
    am = repo.func(REL, "assignment_matrix")
    ctx.touch(am)
    loops = [l for l in am.node.body if isinstance(l, ast.For) and norm(l.iter) == f"reversed({am.params[0]})"]
    ok = len(loops) == 1
    node = am.node
    if ok:
        l = loops[0]
        node = l
        # what becomes an element of the new level
        elts = []
        for n in ast.walk(l):
            if isinstance(n, ast.Call) and isinstance(n.func, ast.Attribute) and n.func.attr == "append" and n.args:
                elts.append(n.args[0])
            elif isinstance(n, (ast.ListComp,)):
                elts.append(n.elt)
            elif isinstance(n, ast.BinOp) and isinstance(n.op, ast.Mult) and isinstance(n.left, ast.List):
                elts.extend(n.left.elts)
        ok = bool(elts) and all(isinstance(e, ast.Call) and call_name(e) == "deepcopy" and norm(e.args[0]) == "current" for e in elts)
        ok = ok and any(isinstance(s, ast.Assign) and norm(s.targets[0]) == "current" for s in l.body)
    ctx.check(ok, "R-MATRIX", "default matrix: every cell of every level is an independent deep copy of the level below", am, node,
              "with shared (shallow-copied or repeated) sub-lists, writing the value of one assignment overwrites the same cell for every value of the leading variables (3 variables or more)")

    # ---- agents ------------------------------------------------------------------------------------
    ba = repo.func(Y, "_build_agents")
    ctx.touch(ba)
    calls = [c for c in ast.walk(ba.node) if isinstance(c, ast.Call) and call_name(c) == "AgentDef"]
    ini = repo.func(OBJ, "AgentDef.__init__")
    ok = len(calls) == 1
    if ok:
        c = calls[0]
        declared = ini.params[1:] + ini.kwonly
        bad = [k.arg for k in c.keywords if k.arg and k.arg not in declared]
        ok = not bad
        want = {"default_hosting_cost": "d", "hosting_costs": "p", "default_route": "default_route", "routes": "routes_a"}
        for pn, val in want.items():
            b = bound_arg(c, ini, pn)
            ok = ok and b is not None and norm(b) == val
        ok = ok and any(k.arg is None and norm(k.value) == "agents_list[a]" for k in c.keywords) and norm(c.args[0]) == "a"
    ctx.check(ok, "R-AGENTS", "AgentDef(a, default_hosting_cost=, hosting_costs=, default_route=, routes=, **extra attributes)", ba, calls[0] if calls else ba.node,
              "a keyword that is not a declared parameter lands in AgentDef's extra attributes and the cost / route silently keeps its default")
    t = norm(ba.node)
    ok = "routes_a = {a2: v for (a1, a2), v in routes.items() if a1 == a}" in t and "routes_a.update({a1: v for (a1, a2), v in routes.items() if a2 == a})" in t
    ctx.check(ok, "R-AGENTS", "an agent's routes are collected from both directions of the route table", ba, ba.node, "routes are symmetric and may be written under either end")
    ok = "d = default_cost" in t and "if a in default_agt_costs:" in t and "d = default_agt_costs[a]" in t and "p = {c: hosting_costs[b, c] for b, c in hosting_costs if b == a}" in t and \
        "default_agt_costs[a] = a_costs['default']" in t and "hosting_costs[a, c] = a_costs['computations'][c]" in t
    ctx.check(ok, "R-AGENTS", "hosting costs: the agent's own default overrides the global one; specific costs keyed by (agent, computation)", ba, ba.node, "")
    ok = "default_route = loaded['routes']['default']" in t and "routes[a1, a2] = a1_routes[a2]" in t
    ctx.check(ok, "R-AGENTS", "routes: default and per-pair costs read", ba, ba.node, "")

    # every listed route / hosting cost is stored: the store is reached exactly once on every non-raising pass of its loop body
    for txt, what in (("routes[a1, a2]", "route"), ("hosting_costs[a, c]", "hosting cost")):
        st = [a for a in ast.walk(ba.node) if isinstance(a, ast.Assign) and norm(a.targets[0]) == txt]
        okk = len(st) == 1
        if okk:
            lp = next((l for l in ast.walk(ba.node) if isinstance(l, ast.For) and any(x is st[0] for x in ast.walk(l))
                       and not any(isinstance(i, ast.For) and i is not l and any(x is st[0] for x in ast.walk(i)) for i in ast.walk(l))), None)
            okk = lp is not None
            if okk:
                k = count_paths(lp.body, lambda s_: 1 if s_ is st[0] else 0).k
                okk = k.get("fall") == (1, 1) and "continue" not in k and "break" not in k and "return" not in k
        ctx.check(okk, "R-AGENTS", f"every listed {what} is stored (no pass of the loop skips the store)", ba, st[0] if st else ba.node,
                  f"a {what} that is listed in the file must reach the table whatever its value: skipping one (e.g. because it equals a default that may be read later in the same loop) "
                  "makes the loaded agent answer with the default")
    # ---- absent key <=> None: a key the loader defaults to None when absent is omitted by the dumper exactly when the value is None
    none_keys = {}
    for lf_ in ("_build_variables",):
        f_ = repo.func(Y, lf_)
        for a in ast.walk(f_.node):
            if isinstance(a, ast.Assign) and isinstance(a.value, ast.IfExp) and isinstance(a.value.orelse, ast.Constant) and a.value.orelse.value is None and isinstance(a.value.body, ast.Subscript) \
                    and isinstance(a.value.body.slice, ast.Constant) and norm(a.value.test) == f"{a.value.body.slice.value!r} in {norm(a.value.body.value)}":
                none_keys[a.value.body.slice.value] = a
    n_none = 0
    for fn in ("_yaml_variables",):
        f_ = repo.func(Y, fn)
        ff_ = FuncFacts(f_.node)
        for a in ast.walk(f_.node):
            if isinstance(a, ast.Assign) and isinstance(a.targets[0], ast.Subscript) and isinstance(a.targets[0].slice, ast.Constant) and a.targets[0].slice.value in none_keys:
                n_none += 1
                e = norm(a.value)
                fs = {(norm(t_), p_) for t_, p_ in facts_at(ff_, a)}
                ctx.check((f"{e} is not None", True) in fs or (f"{e} is None", False) in fs, "R-EMIT", f"`{a.targets[0].slice.value}` is written whenever it is not None", f_, a,
                          f"the loader gives None when the key is absent, so the key may be omitted only for None: a truthiness guard also drops 0, False and '' (legal domain values), which come back as None")
    ctx.check(n_none >= 1 and "initial_value" in none_keys, "R-EMIT", "keys defaulting to None on load are recognised on both sides", bd if False else repo.func(Y, "_yaml_variables"), repo.func(Y, "_yaml_variables").node, f"none-default keys {sorted(none_keys)}, emissions {n_none}")

    # ---- scalar guards -----------------------------------------------------------------------------
    bd = repo.func(Y, "_build_domains")
    ctx.touch(bd)
    ffd = FuncFacts(bd.node)
    n = 0
    for c in ast.walk(bd.node):
        if isinstance(c, ast.Compare) and len(c.ops) == 1 and isinstance(c.ops[0], (ast.In, ast.NotIn)) and isinstance(c.left, ast.Constant) and isinstance(c.left.value, str) and isinstance(c.comparators[0], ast.Subscript):
            n += 1
            tgt = norm(c.comparators[0])
            fs = {(norm(a), b) for a, b in facts_at(ffd, c)}
            ctx.check((f"isinstance({tgt}, str)", True) in fs, "R-SCALAR", f"_build_domains: substring test on {tgt} only for a str", bd, c,
                      "domain values come from YAML with their own types: `'..' in 5` raises TypeError for a single-valued int domain")
    ctx.check(n >= 1, "R-SCALAR", "range syntax test found", bd, bd.node, "")
    t = norm(bd.node)
    ctx.check("domains[d_name] = VariableDomain(d_name, d_type, values)" in t and "d_type = d['type'] if 'type' in d else ''" in t, "R-KEYS", "domains rebuilt with name, type, values", bd, bd.node, "", text="domain rebuild")


_Y = "pydcop/dcop/yamldcop.py"
_R = "pydcop/dcop/relations.py"
VARIANTS = [
    ("route_equal_to_default_skipped", _Y, "                if (a2, a1) in routes or (a1, a2) in routes:\n", "                if a1_routes[a2] == default_route:\n                    continue\n                if (a2, a1) in routes or (a1, a2) in routes:\n", "break", "R-AGENTS"),
    ("initial_value_truthiness", _Y, "        if v.initial_value is not None:\n", "        if v.initial_value:\n", "break", "R-EMIT"),
    ("domain_value_case_insensitive", "pydcop/dcop/objects.py", "            if str(v) == val:\n                return i, v", "            if str(v).lower() == val.lower():\n                return i, v", "break", "R-MATRIX"),
    ("domain_value_mirrored", "pydcop/dcop/objects.py", "            if str(v) == val:\n                return i, v", "            if val == str(v):\n                return i, v", "neutral"),
    ("main_dir_last_file", "pydcop/dcop/yamldcop.py", "        if main_dir is None:\n            main_dir = p.parent\n", "        main_dir = p.parent\n", "break", "R-STRFIRST"),
    ("hosting_default_dropped", _Y, "        if agt.default_hosting_cost or agt.hosting_costs:", "        if agt.hosting_costs:", "break", "R-EMIT"),
    ("matrix_shallow_copy", _R, "        tmp = []\n        for _ in range(len(v.domain)):\n            tmp.append(deepcopy(current))\n        current = tmp", "        current = [current.copy() if isinstance(current, list) else current for _ in range(len(v.domain))]", "break", "R-MATRIX"),
    ("matrix_repeat", _R, "        tmp = []\n        for _ in range(len(v.domain)):\n            tmp.append(deepcopy(current))\n        current = tmp", "        current = [current] * len(v.domain)", "break", "R-MATRIX"),
    ("str_filename_iterated", _Y, "    if isinstance(filenames, str) or not isinstance(filenames, CollectionIterable):", "    if not isinstance(filenames, CollectionIterable):", "break", "R-STRFIRST"),
    ("old_collections_import", _Y, "from collections.abc import Iterable as CollectionIterable", "from collections import Iterable as CollectionIterable", "break", "R-API"),
    ("key_renamed_in_dump", _Y, "                \"default\": agt.default_hosting_cost,\n", "                \"default_cost\": agt.default_hosting_cost,\n", "break", "R-KEYS"),
    ("type_literal_changed", _Y, "            constraints_dict[r.name] = {\"type\": \"intention\", \"function\": r.expression}", "            constraints_dict[r.name] = {\"type\": \"intentional\", \"function\": r.expression}", "break", "R-KEYS"),
    ("agents_section_not_dumped", _Y, "    dcop_str += \"\\n\"\n    dcop_str += yaml_agents(dcop.agents.values())\n", "", "break", "R-SECTIONS"),
    ("row_order_sorted", _Y, "                ass_str = \" \".join([str(assignment[var]) for var in variables])", "                ass_str = \" \".join([str(assignment[var]) for var in sorted(variables)])", "break", "R-MATRIX"),
    ("loader_wrong_domain", _Y, "                            iv, _ = vars[i].domain.to_domain_value(val_def.strip())\n                            val_position = val_position[iv]", "                            iv, _ = vars[0].domain.to_domain_value(val_def.strip())\n                            val_position = val_position[iv]", "break", "R-MATRIX"),
    ("agentdef_kw_typo", _Y, "            default_hosting_cost=d,\n            hosting_costs=p,", "            default_hosting_costs=d,\n            hosting_costs=p,", "break", "R-AGENTS"),
    ("routes_one_direction", _Y, "        routes_a.update({a1: v for (a1, a2), v in routes.items() if a2 == a})\n", "", "break", "R-AGENTS"),
    ("scalar_guard_dropped", _Y, "            if len(values) == 1 and isinstance(values[0], str) and \"..\" in values[0]:", "            if len(values) == 1 and \"..\" in values[0]:", "break", "R-SCALAR"),
    ("initial_value_truthy", _Y, "        if v.initial_value is not None:\n            var_dict[v.name][\"initial_value\"] = v.initial_value", "        if v.domain and v.name:\n            var_dict[v.name][\"initial_value\"] = v.initial_value", "break", "R-EMIT"),
    ("n_hosting_guard_reordered", _Y, "        if agt.default_hosting_cost or agt.hosting_costs:", "        if agt.hosting_costs or agt.default_hosting_cost:", "neutral"),
    ("n_matrix_listcomp", _R, "        tmp = []\n        for _ in range(len(v.domain)):\n            tmp.append(deepcopy(current))\n        current = tmp", "        current = [deepcopy(current) for _ in range(len(v.domain))]", "neutral"),
]
