"""C28 - algorithm parameters are validated and completed exactly."""
import ast

from ..model import walk_no_nested, norm, call_name, is_self_attr
from ..facts import FuncFacts, facts_at, count_paths
from ..report import Ctx, AnalysisError

ALG = "pydcop.algorithms"
UT = "pydcop.commands._utils"


def _facts(ff, node):
    return {(norm(t), p) for t, p in facts_at(ff, node)}


def check(ctx: Ctx):
    repo = ctx.repo
    ctx.decided = ("prepare_algo_params stores, for every supplied name, the value *returned* by check_param_value for that "
                   "name's definition, raises ValueError for an unknown name, fills every declared but missing parameter with "
                   "its default and returns exactly that table; check_param_value converts only to the declared numeric type, "
                   "rejects other type mismatches and values outside the allowed list, and returns the converted value on every "
                   "path; build_with_default_param / build_algo_def route user parameters through prepare_algo_params with the "
                   "algorithm's own declarations; every parameter an algorithm reads is declared, declared defaults have the "
                   "declared type and belong to the allowed values, names are unique.")
    ctx.undecided = "behaviour for arbitrary user strings (e.g. int('abc') raising ValueError is Python's own behaviour)."
    ctx.rule("R-STORECHECKED", "the stored value is the return value of check_param_value(value, definition of the same name)")
    ctx.rule("R-UNKNOWN", "an undeclared parameter name raises ValueError")
    ctx.rule("R-DEFAULTS", "every declared parameter that was not supplied receives its declared default; nothing else is added")
    ctx.rule("R-CHECKVALUE", "conversion to the declared type only, rejection of bad types / values, converted value returned on every path")
    ctx.rule("R-ROUTE", "user parameters reach AlgorithmDef only through prepare_algo_params with the algorithm's declarations")
    ctx.rule("R-DECL", "declared defaults are well typed and allowed; parameter names unique; every parameter read is declared")

    pap = repo.func(ALG, "prepare_algo_params")
    cpv = repo.func(ALG, "check_param_value")
    bwd = repo.func(ALG, "AlgorithmDef.build_with_default_param")
    bad = repo.func(UT, "build_algo_def")
    for f in (pap, cpv, bwd, bad):
        ctx.touch(f)

    # ---- prepare_algo_params ---------------------------------------------------
    p_params, p_defs = pap.params[:2]
    tbl = [n for n in walk_no_nested(pap.node) if isinstance(n, ast.Assign) and isinstance(n.value, ast.DictComp) and norm(n.value.generators[0].iter) == p_defs]
    ok = len(tbl) == 1 and norm(tbl[0].value.key) == f"{norm(tbl[0].value.generators[0].target)}.name" and norm(tbl[0].value.value) == norm(tbl[0].value.generators[0].target)
    ctx.check(ok, "R-STORECHECKED", "definitions indexed by their own name", pap, tbl[0] if tbl else pap.node, "the lookup table must map each definition's name to that definition")
    defs = norm(tbl[0].targets[0]) if tbl else "all_algo_params"
    loops = [n for n in walk_no_nested(pap.node) if isinstance(n, ast.For) and norm(n.iter) in (p_params, f"{p_params}.keys()", f"{p_params}.items()")]
    if len(loops) != 1:
        ctx.bad("R-STORECHECKED", "loop over the supplied parameters", pap, pap.node, "every supplied parameter must be visited")
        return
    lp = loops[0]
    nm = norm(lp.target) if not isinstance(lp.target, ast.Tuple) else norm(lp.target.elts[0])
    ff = FuncFacts(pap.node)
    out = None
    stores = [n for n in ast.walk(lp) if isinstance(n, ast.Assign) and isinstance(n.targets[0], ast.Subscript) and norm(n.targets[0].slice) == nm]
    okst = len(stores) == 1
    if okst:
        out = norm(stores[0].targets[0].value)
        v = stores[0].value
        loc = {norm(n.targets[0]): n.value for n in ast.walk(lp) if isinstance(n, ast.Assign) and isinstance(n.targets[0], ast.Name)}
        # resolve the stored value to the check_param_value call
        seen = 0
        while isinstance(v, ast.Name) and v.id in loc and seen < 4:
            # last assignment of that name before the store
            cands = [n for n in ast.walk(lp) if isinstance(n, ast.Assign) and isinstance(n.targets[0], ast.Name) and n.targets[0].id == v.id and n.lineno < stores[0].lineno]
            v = cands[-1].value if cands else None
            seen += 1
        okst = isinstance(v, ast.Call) and call_name(v) == "check_param_value" and len(v.args) == 2

        def res(e):
            if isinstance(e, ast.Name):
                cands = [n for n in ast.walk(lp) if isinstance(n, ast.Assign) and isinstance(n.targets[0], ast.Name) and n.targets[0].id == e.id
                         and not (isinstance(n.value, ast.Call) and call_name(n.value) == "check_param_value")]
                return norm(cands[0].value) if cands else e.id
            return norm(e)
        if okst:
            okst = res(v.args[0]) == f"{p_params}[{nm}]" and res(v.args[1]) == f"{defs}[{nm}]"
        okst = okst and (f"{nm} in {defs}", True) in _facts(ff, stores[0])
    ctx.check(okst, "R-STORECHECKED", "selected[name] = check_param_value(params[name], definitions[name])", pap, stores[0] if stores else lp,
              "the value stored must be what check_param_value returns (converted and validated) for this name's own definition")
    rs = [r for r in ast.walk(lp) if isinstance(r, ast.Raise)]
    okr = len(rs) == 1 and "ValueError" in norm(rs[0].exc) and (f"{nm} in {defs}", False) in _facts(ff, rs[0])
    ctx.check(okr, "R-UNKNOWN", "unknown name -> ValueError", pap, rs[0] if rs else lp, "a parameter that the algorithm does not declare must be rejected with ValueError")
    ms = [n for n in walk_no_nested(pap.node) if isinstance(n, ast.Assign) and norm(n.value) in (f"set({defs}) - set({p_params})", f"set({defs}.keys()) - set({p_params}.keys())")]
    okm = len(ms) == 1
    if okm:
        ml = [n for n in walk_no_nested(pap.node) if isinstance(n, ast.For) and norm(n.iter) == norm(ms[0].targets[0])]
        okm = len(ml) == 1 and len(ml[0].body) == 1 and norm(ml[0].body[0]) == f"{out}[{norm(ml[0].target)}] = {defs}[{norm(ml[0].target)}].default_value"
    ctx.check(okm, "R-DEFAULTS", "declared - supplied parameters get their default", pap, ms[0] if ms else pap.node,
              "exactly the declared parameters that were not supplied must be completed with their declared default value")
    rets = [r for r in walk_no_nested(pap.node) if isinstance(r, ast.Return)]
    init = [n for n in walk_no_nested(pap.node) if isinstance(n, ast.Assign) and out and norm(n.targets[0]) == out and norm(n.value) in ("{}", "dict()")]
    ctx.check(len(rets) == 1 and out is not None and norm(rets[0].value) == out and len(init) == 1, "R-DEFAULTS", "returns the fresh table only", pap, rets[0] if rets else pap.node,
              "the result must be a fresh dict holding only declared parameters")

    # ---- check_param_value ---------------------------------------------------------
    pv, pd = cpv.params[:2]
    ffc = FuncFacts(cpv.node)
    rets = [r for r in walk_no_nested(cpv.node) if isinstance(r, ast.Return)]
    ctx.check(len(rets) >= 2 and all(norm(r.value) == pv for r in rets), "R-CHECKVALUE", "every return yields the (converted) value", cpv, rets[0] if rets else cpv.node,
              "check_param_value must return the possibly converted local value on every path")
    conv = [n for n in walk_no_nested(cpv.node) if isinstance(n, ast.Assign) and norm(n.targets[0]) == pv and isinstance(n.value, ast.Call)]
    okc = {norm(n.value.func) for n in conv} == {"int", "float"}
    for n in conv:
        want = (f"{pd}.type == '{norm(n.value.func)}'", True)
        okc = okc and want in _facts(ffc, n) and (f"is_of_type_by_str({pv}, {pd}.type)", False) in _facts(ffc, n) and norm(n.value.args[0]) == pv
    ctx.check(okc, "R-CHECKVALUE", "conversion only to the declared numeric type and only on a type mismatch", cpv, conv[0] if conv else cpv.node,
              "int()/float() conversions must be applied under the matching declared type, when the value is not already of that type")
    rs = [r for r in walk_no_nested(cpv.node) if isinstance(r, ast.Raise) and "ValueError" in norm(r.exc)]
    f1 = [r for r in rs if (f"is_of_type_by_str({pv}, {pd}.type)", False) in _facts(ffc, r)]
    f2 = [r for r in rs if (f"{pd}.values", True) in _facts(ffc, r) and (f"{pv} in {pd}.values", False) in _facts(ffc, r)]
    ctx.check(len(f1) == 1 and len(f2) == 1, "R-CHECKVALUE", "bad type / value outside the allowed list -> ValueError", cpv, rs[0] if rs else cpv.node,
              "a value of another (non convertible) type, or outside the declared values, must raise ValueError")
    okv = [r for r in rets if (f"{pd}.values", True) in _facts(ffc, r)]
    ctx.check(len(okv) == 1 and (f"{pv} in {pd}.values", True) in _facts(ffc, okv[0]), "R-CHECKVALUE", "allowed list checked on the converted value", cpv, okv[0] if okv else cpv.node,
              "when allowed values are declared the value is accepted only if it belongs to them")
    # order: conversion before the values test
    vt = [n for n in cpv.node.body if isinstance(n, ast.If) and norm(n.test) in (f"{pd}.values", f"not {pd}.values")]
    tt = [n for n in cpv.node.body if isinstance(n, ast.If) and norm(n.test) == f"not is_of_type_by_str({pv}, {pd}.type)"]
    early = [st for st in (cpv.node.body[:cpv.node.body.index(tt[0]) + 1] if tt else cpv.node.body) if any(norm(x) == f"{pd}.values" for x in ast.walk(st))]
    ctx.check(len(vt) == 1 and len(tt) == 1 and cpv.node.body.index(tt[0]) < cpv.node.body.index(vt[0]) and not early, "R-CHECKVALUE", "type conversion precedes every use of the allowed values", cpv,
              (early or vt or [cpv.node])[0], "a value given as a string ('5' for an int parameter with allowed values [5, 6]) must be converted before it is compared with the allowed values")
    it = repo.func(ALG, "is_of_type_by_str")
    ctx.check("return value.__class__.__name__ == type_str" in norm(it.node), "R-CHECKVALUE", "type test compares the class name with the declared type", it, it.node, "")

    # ---- routing -----------------------------------------------------------------------
    t = norm(bwd.node)
    ctx.check("parameters_definitions = algo_module.algo_params" in t and "load_algorithm_module(algo)" in t and "params = prepare_algo_params(params, parameters_definitions)" in t
              and "return AlgorithmDef(algo, params, mode)" in t and "params = {} if params is None else params" in t, "R-ROUTE", "build_with_default_param", bwd, bwd.node,
              "the definitions come from the algorithm's own module and the instance is built from the prepared parameters")
    top = bwd.node.body
    prep = [i for i, st in enumerate(top) if isinstance(st, ast.Assign) and norm(st) == "params = prepare_algo_params(params, parameters_definitions)"]
    rets = [x for x in walk_no_nested(bwd.node) if isinstance(x, ast.Return)]
    ctx.check(len(prep) == 1 and len(rets) == 1 and rets[0] is top[-1] and norm(rets[0].value) == "AlgorithmDef(algo, params, mode)", "R-ROUTE",
              "build_with_default_param prepares the parameters unconditionally, on the only path to the only return", bwd, top[prep[0]] if prep else bwd.node,
              "an algorithm that declares no parameter must still reject unknown names: prepare_algo_params may not be skipped for an empty declaration list")
    t = norm(bad.node)
    sp = [n for n in ast.walk(bad.node) if isinstance(n, ast.Assign) and isinstance(n.value, ast.Call) and norm(n.value.func).endswith(".split")]
    ctx.check(len(sp) == 1 and norm(sp[0].value.args[0]) == "':'" and isinstance(sp[0].targets[0], ast.Tuple) and len(sp[0].targets[0].elts) == 2, "R-ROUTE",
              "build_algo_def splits 'name:value'", bad, sp[0] if sp else bad.node, "")
    if sp:
        a, b = [norm(e) for e in sp[0].targets[0].elts]
        ctx.check(f"params[{a}] = {b}" in t, "R-ROUTE", "build_algo_def stores value under name", bad, sp[0], "the part before ':' is the name, the part after is the value")
    ctx.check("params = prepare_algo_params(params, algo_module.algo_params)" in t and "AlgorithmDef.build_with_default_param(algo=algo_name, params=params, mode=objective)" in t,
              "R-ROUTE", "build_algo_def routes through prepare_algo_params with the module's declarations", bad, bad.node, "")

    # ---- declarations ----------------------------------------------------------------------
    n_decl = 0
    for mname, m in sorted(repo.modules.items()):
        if not mname.startswith("pydcop.algorithms.") or "algo_params" not in m.assigns:
            continue
        lst = m.assigns["algo_params"]
        if not isinstance(lst, ast.List):
            continue
        ctx.touch(m)
        names = []
        for e in lst.elts:
            if not (isinstance(e, ast.Call) and call_name(e) == "AlgoParameterDef"):
                continue
            args = list(e.args) + [None] * 4
            kw = {k.arg: k.value for k in e.keywords}
            name, typ, values, default = (kw.get("name", args[0]), kw.get("type", args[1]), kw.get("values", args[2]), kw.get("default_value", args[3]))
            if not (isinstance(name, ast.Constant) and isinstance(typ, ast.Constant)):
                continue
            n_decl += 1
            names.append(name.value)
            okd = typ.value in ("int", "float", "str")
            dv = default.value if isinstance(default, ast.Constant) else (None if default is None else "?")
            if isinstance(default, ast.UnaryOp) and isinstance(default.operand, ast.Constant):
                dv = -default.operand.value
            if dv is not None and dv != "?":
                okd = okd and ((typ.value == "int" and isinstance(dv, int) and not isinstance(dv, bool)) or (typ.value == "float" and isinstance(dv, (int, float)) and not isinstance(dv, bool))
                               or (typ.value == "str" and isinstance(dv, str)))
            vals = None
            if isinstance(values, (ast.List, ast.Tuple)):
                vals = [x.value for x in values.elts if isinstance(x, ast.Constant)]
                if dv is not None and dv != "?":
                    okd = okd and dv in vals
            ctx.check(okd, "R-DECL", f"{mname.split('.')[-1]}.{name.value}: default {dv!r} is a {typ.value}" + (f" in {vals}" if vals else ""), m, e,
                      "a declared default must have the declared type and be one of the allowed values")
        ctx.check(len(names) == len(set(names)), "R-DECL", f"{mname.split('.')[-1]}: parameter names unique", m, lst, "duplicate declarations shadow each other")
        # uses
        for f in repo.all_functions(m):
            for c in ast.walk(f.node):
                lit = None
                if isinstance(c, ast.Call) and call_name(c) == "param_value" and c.args and isinstance(c.args[0], ast.Constant):
                    lit = c.args[0].value
                if isinstance(c, ast.Subscript) and norm(c.value).endswith("algo.params") and isinstance(c.slice, ast.Constant):
                    lit = c.slice.value
                if lit is not None:
                    ctx.check(lit in names, "R-DECL", f"{mname.split('.')[-1]}: reads declared parameter '{lit}'", f, c,
                              f"parameter '{lit}' is read but not declared in algo_params: prepared parameters never contain it (KeyError)")
    ctx.floor("R-DECL", 50)


_A = "pydcop/algorithms/__init__.py"
VARIANTS = [
    ("prepare_skipped_without_declarations", "pydcop/algorithms/__init__.py", "        params = prepare_algo_params(\n            params, parameters_definitions)  # type: Dict[str, Any]\n", "        if parameters_definitions:\n            params = prepare_algo_params(\n                params, parameters_definitions)  # type: Dict[str, Any]\n", "break", "R-ROUTE"),
    ("raw_value_stored", _A, "            param_val = check_param_value(param_val, param_def)\n            selected_params[param_name] = param_val", "            check_param_value(param_val, param_def)\n            selected_params[param_name] = param_val", "break", "R-STORECHECKED"),
    ("unknown_ignored", _A, "        else:\n            raise ValueError('Unknown parameter for algorithm : {}'\n                             .format(param_name))\n", "", "break", "R-UNKNOWN"),
    ("defaults_all", _A, "    missing_params = set(all_algo_params) - set(params)", "    missing_params = set(all_algo_params)", "break", "R-DEFAULTS"),
    ("defaults_from_wrong_def", _A, "        selected_params[param_name] = all_algo_params[param_name].default_value", "        selected_params[param_name] = all_algo_params[param_name].values", "break", "R-DEFAULTS"),
    ("returns_input", _A, "    return selected_params\n", "    params.update(selected_params)\n    return params\n", "break", "R-DEFAULTS"),
    ("conversion_unconditional", _A, "        if param_def.type == 'int':\n            param_val = int(param_val)", "        if param_def.type != 'str':\n            param_val = int(param_val)", "break", "R-CHECKVALUE"),
    ("values_check_on_original", _A, "    if param_def.values:\n        if param_val in param_def.values:\n            return param_val", "    if param_def.values:\n        if str(param_val) in param_def.values:\n            return param_val", "break", "R-CHECKVALUE"),
    ("bad_value_returned", _A, "        else:\n            raise ValueError('Invalid value for parameter {}, must be one of '\n                             '{}'.format(param_def.name, param_def.values))\n", "", "break", "R-CHECKVALUE"),
    ("values_before_conversion", _A, "    if not is_of_type_by_str(param_val, param_def.type):\n\n        if param_def.type == 'int':", "    if param_def.values and param_val not in param_def.values:\n        raise ValueError('Invalid value')\n    if not is_of_type_by_str(param_val, param_def.type):\n        if param_def.type == 'int':", "break", "R-CHECKVALUE"),
    ("default_wrong_type", "pydcop/algorithms/dsa.py", "    AlgoParameterDef(\"stop_cycle\", \"int\", None, 0),", "    AlgoParameterDef(\"stop_cycle\", \"int\", None, \"0\"),", "break", "R-DECL"),
    ("default_not_allowed", "pydcop/algorithms/dsa.py", "AlgoParameterDef(\"variant\", \"str\", [\"A\", \"B\", \"C\"], \"B\")", "AlgoParameterDef(\"variant\", \"str\", [\"A\", \"B\", \"C\"], \"D\")", "break", "R-DECL"),
    ("undeclared_read", "pydcop/algorithms/mgm.py", "        self.stop_cycle = computation_definition.algo.param_value(\"stop_cycle\")", "        self.stop_cycle = computation_definition.algo.param_value(\"stop_cycles\")", "break", "R-DECL"),
    ("cli_split_swapped", "pydcop/commands/_utils.py", "                params[p] = v", "                params[v] = p", "break", "R-ROUTE"),
]
