"""C17 - the pseudo-tree builder is valid for every constraint graph.

Decided (structure of pydcop.computations_graph.pseudotree):

* R-RECURSION  no function reachable from build_computation_graph is (mutually)
               recursive: the depth of a DFS tree is only bounded by the number of
               variables (long chains), so recursion overflows the stack;
* R-NEIGHBORS  a building node's neighbours are the nodes sharing a relation with
               it, each at most once, itself excluded; its relations are exactly
               the relations whose scope contains its variable;
* R-DFS        token handling: the token is copied on reception; the parent is set
               only on the first reception by a non-root node, with the pseudo
               parents = neighbours already in the token except the parent; a later
               reception from a non-child records a pseudo child and stops; a node
               becomes a child only if it has not been visited and is not a pseudo
               parent;
* R-FOREST     build_computation_graph starts a new tree until no variable is left
               and removes exactly the variables of each tree; the graph creates,
               for every root, the links and the node of every visited node
               (node creation inside the per-root loop);
* R-LINKTABLE  the four link kinds agree between the writer (ComputationPseudoTree),
               the whitelist (PseudoTreeLink) and the reader (get_dfs_relations);
               each kind is built from the matching list with source = the node.

Not decided: that the produced tree is a valid DFS pseudo-tree on concrete graphs.
"""
import ast

from ..model import walk_no_nested, norm, call_name, is_self_attr, is_self_call, FuncInfo
from ..facts import FuncFacts, facts_at, stmt_paths
from ..report import Ctx, AnalysisError
from ..flow import local_defs
from .. import ptrules

PT = "pydcop.computations_graph.pseudotree"
KINDS = {"parent": "parent", "children": "children", "pseudo_children": "pseudo_children", "pseudo_parent": "pseudo_parents"}


def _calls(repo, f: FuncInfo):
    """functions of the module called by f (plain names, self.m(), x.m() resolved by unique method name in the module)"""
    m = f.module
    out = set()
    for c in ast.walk(f.node):
        if not isinstance(c, ast.Call):
            continue
        fn = c.func
        if isinstance(fn, ast.Name):
            t = repo.resolve_name(m, fn.id)
            if isinstance(t, FuncInfo) and t.module is m:
                out.add(t)
            elif hasattr(t, "methods") and getattr(t, "module", None) is m and "__init__" in t.methods:
                out.add(t.methods["__init__"])
        elif isinstance(fn, ast.Attribute):
            if isinstance(fn.value, ast.Call) and call_name(fn.value) == "super":
                if f.cls is not None:
                    tgt = repo.lookup_method_after(f.cls, f.cls, fn.attr)
                    if tgt is not None and tgt.module is m:
                        out.add(tgt)
                continue
            if fn.attr.startswith("__"):
                continue
            cands = [k.methods[fn.attr] for k in m.classes.values() if fn.attr in k.methods]
            if isinstance(fn.value, ast.Name) and fn.value.id == "self" and f.cls is not None:
                tgt = repo.lookup_method(f.cls, fn.attr)
                if tgt is not None and tgt.module is m:
                    out.add(tgt)
                    continue
            for t in cands:
                out.add(t)
    return out


def ffc_stmt(f, node):
    """top-level statement of f that contains node"""
    return next(st for st in f.node.body if any(n is node for n in ast.walk(st)))


def check(ctx: Ctx):
    repo = ctx.repo
    ctx.decided = ("no recursion reachable from the builder; neighbour / relation collection of building nodes; token handling of the DFS; "
                   "forest loop and per-root node creation; link-kind table between writer, whitelist and reader.")
    ctx.undecided = "validity of the DFS pseudo-tree (ancestor/descendant relation of every constraint pair, acyclicity) on concrete graphs."
    ctx.rule("R-RECURSION", "no (mutual) recursion reachable from pseudotree.build_computation_graph")
    ctx.rule("R-NEIGHBORS", "building node: neighbours each once, self excluded; relations = those containing the variable")
    ctx.rule("R-DFS", "token copied; parent set once; pseudo parents from the token; back edge recorded and not propagated; child only if unvisited and not pseudo parent")
    ctx.rule("R-FOREST", "a tree per connected component until no variable is left; links and node created for every node of every tree")
    ctx.rule("R-ACCUM", "containers that collect over a whole loop (all roots, all nodes) are created before the loop")
    from .. import accumrules
    accumrules.check_accumulators(ctx, "R-ACCUM", [PT], min_loops=8)
    ctx.rule("R-LINKTABLE", "link kinds agree between writer, whitelist and reader; each kind built from its own list")
    m = repo.module(PT)
    ctx.touch(m)
    build = repo.func(PT, "build_computation_graph")
    # ---- recursion ---------------------------------------------------------------------------
    graph = {}
    stack = [build]
    while stack:
        f = stack.pop()
        if f.fq in graph:
            continue
        cs = _calls(repo, f)
        graph[f.fq] = (f, cs)
        stack.extend(cs)
    # Tarjan-free: DFS cycle detection on the small graph
    color = {}
    cycles = []

    def dfs(fq, path):
        color[fq] = 1
        for t in graph[fq][1]:
            if color.get(t.fq) == 1:
                cycles.append(path + [fq, t.fq])
            elif t.fq not in color:
                dfs(t.fq, path + [fq])
        color[fq] = 2
    dfs(build.fq, [])
    for fq, (f, cs) in sorted(graph.items()):
        ctx.touch(f)
        cyc = [c for c in cycles if fq == c[-1]]
        ctx.check(not cyc, "R-RECURSION", f"{f.qualname}: not on a call cycle", f, f.node,
                  "recursion depth grows with the depth of the DFS tree, i.e. with the number of variables on a chain: RecursionError on long chains "
                  f"(cycle: {' -> '.join(x.split(':')[1] for x in (cyc[0][cyc[0].index(fq):] if cyc else []))})", text="call cycle")
    if len(graph) < 6:
        raise AnalysisError(f"call graph from build_computation_graph has only {len(graph)} functions (floor 6)")
    pr = repo.func(PT, "_BuildingNode._propagate")
    ctx.check(any(isinstance(n, ast.While) for n in ast.walk(pr.node)) and "stack" in norm(pr.node), "R-RECURSION", "_propagate walks with an explicit stack", pr, pr.node, "")
    # ---- neighbours ---------------------------------------------------------------------------
    fn = repo.func(PT, "_find_neighbors_relations")
    ctx.touch(fn)
    ff = FuncFacts(fn.node)
    np_, rp, ap = fn.params[:3]
    loops = [l for l in fn.node.body if isinstance(l, ast.For) and norm(l.iter) == rp]
    ok = len(loops) == 1
    node_ = fn.node
    if ok:
        r = norm(loops[0].target)
        node_ = loops[0]
        ra = [c for c in ast.walk(loops[0]) if isinstance(c, ast.Call) and norm(c.func) == "node_relations.append"]
        ok = len(ra) == 1 and norm(ra[0].args[0]) == r and {(norm(a), b) for a, b in facts_at(ff, ra[0])} == {(f"{np_}.variable in {r}.dimensions", True)}
        ctx.check(ok, "R-NEIGHBORS", "relations of a node = relations whose scope contains its variable", fn, ra[0] if ra else loops[0],
                  "each node must carry exactly the constraints on its variable")
        adds = [c for c in ast.walk(loops[0]) if isinstance(c, ast.Call) and isinstance(c.func, ast.Attribute) and norm(c.func.value) == "node_neighbors" and c.func.attr in ("append", "extend", "insert")]
        ok2 = len(adds) == 1 and adds[0].func.attr == "append"
        if ok2:
            nv = norm(adds[0].args[0])
            fs = {(norm(a), b) for a, b in facts_at(ff, adds[0])}
            dedup = (f"{nv} not in node_neighbors", True) in fs or (f"{nv} in node_neighbors", False) in fs
            member = (f"{nv}.variable in dim_vars", True) in fs
            self_ex = any(isinstance(c, ast.Call) and norm(c.func) == "dim_vars.remove" and norm(c.args[0]) == f"{np_}.variable" for c in ast.walk(loops[0])) or (f"{nv} != {np_}", True) in fs or (f"{nv} is not {np_}", True) in fs
            gl = [g for g in ff.guards_at(adds[0]) if g.kind == "for" and g.node is not loops[0]]
            ok2 = dedup and member and self_ex and len(gl) == 1 and norm(gl[0].test) == ap and "dim_vars = list(" + r + ".dimensions)" in norm(loops[0])
        ctx.check(ok2, "R-NEIGHBORS", "a neighbour is recorded once, however many relations are shared, and never the node itself", fn, adds[0] if adds else loops[0],
                  "the DFS offers the token once per entry of the neighbour list: a neighbour listed twice (two shared constraints) becomes child twice and its parent becomes its own pseudo child")
    else:
        ctx.bad("R-NEIGHBORS", "loop over all relations", fn, fn.node, "")
    gd = repo.func(PT, "_generate_dfs_tree")
    ctx.touch(gd)
    pv_, pr_ = gd.params[0], gd.params[1]
    # (1) one building node per variable: a loop over `variables` that appends _BuildingNode(<loop var>) to the node list, unconditionally
    l1 = [l for l in gd.node.body if isinstance(l, ast.For) and norm(l.iter) == pv_]
    ok = len(l1) == 1 and not any(isinstance(n, (ast.If, ast.Break, ast.Continue)) for n in ast.walk(l1[0]))
    nodes_name = None
    if ok:
        mk = [c for c in ast.walk(l1[0]) if isinstance(c, ast.Call) and call_name(c) == "_BuildingNode" and [norm(a) for a in c.args] == [norm(l1[0].target)]]
        app = [c for c in ast.walk(l1[0]) if isinstance(c, ast.Call) and isinstance(c.func, ast.Attribute) and c.func.attr == "append" and isinstance(c.func.value, ast.Name)]
        ok = len(mk) == 1 and len(app) == 1
        if ok:
            nodes_name = app[0].func.value.id
            a0 = app[0].args[0]
            ok = a0 is mk[0] or (isinstance(a0, ast.Name) and any(isinstance(a, ast.Assign) and norm(a.targets[0]) == a0.id and a.value is mk[0] for a in l1[0].body))
    # (2) every node wired with the neighbours and relations found among ALL relations and ALL nodes
    if ok:
        l2 = [l for l in gd.node.body if isinstance(l, ast.For) and norm(l.iter) == nodes_name and any(isinstance(c, ast.Call) and call_name(c) == "_find_neighbors_relations" for c in ast.walk(l))]
        ok = len(l2) == 1
        if ok:
            nv_ = norm(l2[0].target)
            fc = [c for c in ast.walk(l2[0]) if isinstance(c, ast.Call) and call_name(c) == "_find_neighbors_relations"]
            ok = len(fc) == 1 and [norm(a) for a in fc[0].args] == [nv_, pr_, nodes_name] and not any(isinstance(n, (ast.If, ast.Break, ast.Continue)) for n in ast.walk(l2[0]))
            st_ = next((s_ for s_ in l2[0].body if any(n is fc[0] for n in ast.walk(s_))), None)
            if ok and isinstance(st_, ast.Assign) and isinstance(st_.targets[0], ast.Tuple) and len(st_.targets[0].elts) == 2:
                t0, t1 = [norm(e) for e in st_.targets[0].elts]
                if (t0, t1) != (f"{nv_}._neighbors", f"{nv_}.relations"):
                    body_t = [norm(s_) for s_ in l2[0].body]
                    ok = f"{nv_}._neighbors = {t0}" in body_t and f"{nv_}.relations = {t1}" in body_t
            else:
                ok = False
    # (3) the DFS starts at the root with an empty token, and the root is returned
    ht = [c for c in ast.walk(gd.node) if isinstance(c, ast.Call) and norm(c.func) == "root.handle_token"]
    ok = ok and len(ht) == 1 and len(ht[0].args) == 2 and norm(ht[0].args[0]) == "None"
    if ok:
        tk = ht[0].args[1]
        if isinstance(tk, ast.Name):
            d_ = [a.value for a in gd.node.body if isinstance(a, ast.Assign) and norm(a.targets[0]) == tk.id]
            tk = d_[0] if len(d_) == 1 else tk
        ok = isinstance(tk, ast.List) and not tk.elts
    rets_ = [r for r in walk_no_nested(gd.node) if isinstance(r, ast.Return)]
    ok = ok and len(rets_) == 1 and norm(rets_[0].value) == "root" and gd.node.body.index(ffc_stmt(gd, ht[0])) < gd.node.body.index(rets_[0]) if ok else False
    ctx.check(ok, "R-NEIGHBORS", "one building node per remaining variable, wired with its neighbours and relations among *all* relations; DFS started at the root with an empty token", gd, gd.node, "")
    reb = [a for a in ast.walk(gd.node) if isinstance(a, (ast.Assign, ast.AugAssign, ast.AnnAssign)) and any(isinstance(t_, ast.Name) and t_.id in gd.params[:2] for t_ in (a.targets if isinstance(a, ast.Assign) else [a.target]))]
    ctx.check(not reb, "R-NEIGHBORS", "the variables and the relations given to _generate_dfs_tree are used whole (never filtered or rebound)", gd, reb[0] if reb else gd.node,
              "a relation whose scope also holds an external variable (or any variable outside the list) still links the decision variables of its scope: filtering the "
              "relations on `all dimensions in variables` drops it from its nodes and can split its variables into separate trees")
    # ---- DFS ----------------------------------------------------------------------------------
    rt = repo.func(PT, "_BuildingNode._receive_token")
    ctx.touch(rt)
    sp, tp = rt.params[1], rt.params[2]
    first = [s for s in rt.node.body if not (isinstance(s, ast.Expr) and isinstance(s.value, ast.Constant))][0]
    ctx.check(isinstance(first, ast.Assign) and norm(first) == f"{tp} = {tp}[:]", "R-DFS", "the token is copied on reception", rt, first,
              "sibling branches must not see each other's nodes: pseudo parents are read from the token (ancestors only)")
    n_par = 0
    for p in stmt_paths(rt.node.body):
        par = [s for s in p.stmts if isinstance(s, ast.Assign) and is_self_attr(s.targets[0], "parent")]
        psc = [s for s in p.stmts if any(isinstance(c, ast.Call) and norm(c.func) == "self.pseudo_children.append" for c in ast.walk(s))]
        if par:
            n_par += 1
            okp = p.has_fact("self.parent is None", True) and (p.has_fact("self.root", False) or p.has_fact("not self.root", True)) and p.has_fact(f"{sp} is None", False) and norm(par[0].value) == sp
            pp = [s for s in p.stmts if isinstance(s, ast.Assign) and is_self_attr(s.targets[0], "pseudo_parents")]
            okp = okp and len(pp) == 1 and isinstance(pp[0].value, ast.ListComp) and norm(pp[0].value.generators[0].iter) == "self._neighbors" and \
                sorted(norm(x) for c in pp[0].value.generators[0].ifs for x in (c.values if isinstance(c, ast.BoolOp) else [c])) == sorted([f"n in {tp}", f"n != {sp}"])
            okp = okp and p.exit == "return" and norm(p.exit_stmt.value) == tp and any(isinstance(s, ast.Expr) and norm(s.value) == f"{tp}.append(self)" for s in p.stmts)
            ctx.check(okp, "R-DFS", "first reception by a non-root node: parent = sender, pseudo parents = neighbours in the token except the sender, token extended and propagated", rt, par[0],
                      "a node has one parent; its other already-visited neighbours are ancestors (back edges)")
        if psc:
            okb = (p.has_fact(f"{sp} in self.children", False)) and p.exit == "return" and norm(p.exit_stmt.value) == "None" and not par and not p.has_fact(f"{sp} is None", True)
            ctx.check(okb, "R-DFS", "later reception from a node that is not a child: pseudo child recorded, token not propagated", rt, psc[0],
                      "a back edge must not restart the propagation, and a tree child must not also become a pseudo child")
        if p.has_fact(f"{sp} is None", True):
            ctx.check(any(isinstance(s, ast.Assign) and is_self_attr(s.targets[0], "root") and norm(s.value) == "True" for s in p.stmts) and not par and p.exit == "return" and norm(p.exit_stmt.value) == tp,
                      "R-DFS", "reception without sender: the node is the root", rt, (p.stmts or [rt.node])[0], "")
    ctx.check(n_par == 1, "R-DFS", "the parent is assigned on exactly one path", rt, rt.node, "")
    vis = [s for s in rt.node.body if isinstance(s, ast.Expr) and norm(s.value) == f"self._visited.append({sp})"]
    ctx.check(len(vis) == 1, "R-DFS", "every sender is recorded as visited, unconditionally", rt, vis[0] if vis else rt.node, "_propagate skips the neighbours that already sent the token")
    ctx.touch(pr)
    ffp = FuncFacts(pr.node)
    ca = [c for c in ast.walk(pr.node) if isinstance(c, ast.Call) and isinstance(c.func, ast.Attribute) and c.func.attr == "append" and norm(c.func.value).endswith(".children")]
    ok = len(ca) == 1
    if ok:
        nd = norm(ca[0].func.value)[: -len(".children")]
        nv = norm(ca[0].args[0])
        fs = {(norm(a), b) for a, b in facts_at(ffp, ca[0])}
        ok = (f"{nv} not in {nd}._visited", True) in fs and (f"{nv} not in {nd}.pseudo_parents", True) in fs
        rc = [c for c in ast.walk(pr.node) if isinstance(c, ast.Call) and isinstance(c.func, ast.Attribute) and c.func.attr == "_receive_token"]
        ok = ok and len(rc) == 1 and norm(rc[0].func.value) == nv and norm(rc[0].args[0]) == nd
        if ok:
            fr = {(norm(a), b) for a, b in facts_at(ffp, rc[0])}
            ok = (f"{nv} not in {nd}._visited", True) in fr and (f"{nv} not in {nd}.pseudo_parents", True) not in fr and rc[0].lineno > ca[0].lineno
    ctx.check(ok, "R-DFS", "a neighbour becomes a child iff it was not visited and is not a pseudo parent; every unvisited neighbour is offered the token", pr, ca[0] if ca else pr.node,
              "pseudo parents are offered the token too (so that they record the back edge) but never become children")
    # ---- forest -------------------------------------------------------------------------------
    ctx.touch(build)
    wl = [w for w in build.node.body if isinstance(w, ast.While)]
    ok = len(wl) == 1 and norm(wl[0].test) in ("len(variables) != 0", "variables", "len(variables) > 0")
    if ok:
        body = wl[0].body
        t = norm(wl[0])
        ok = "root = _generate_dfs_tree(variables, constraints)" in t and "roots.append(root)" in t
        fl = [l for l in body if isinstance(l, ast.For) and norm(l.iter) == "_visit_tree(root)"]
        ok = ok and len(fl) == 1 and [norm(s) for s in fl[0].body] == [f"variables.remove({norm(fl[0].target)}.variable)"]
    r = [x for x in walk_no_nested(build.node) if isinstance(x, ast.Return)]
    ok = ok and len(r) == 1 and norm(r[0].value) == "ComputationPseudoTree(roots)"
    ctx.check(ok, "R-FOREST", "a DFS tree is built from the remaining variables until none is left; each tree's variables are removed; all roots kept", build, wl[0] if wl else build.node,
              "disconnected graphs yield a forest: every variable must end up in exactly one tree")
    # the forest loop traverses `constraints` once per tree (and per node) and shrinks `variables`: both must be private, re-iterable lists in either
    # case (dcop / explicit collections, which may be one-shot iterables) before the loop starts
    from .. import iterrules

    def _atoms(src):
        def atom(e):
            t_ = norm(e)
            if t_ == "dcop is not None":
                return src == "dcop"
            if t_ == "dcop is None":
                return src != "dcop"
            if t_ in ("constraints or variables is not None", "constraints is None or variables is None", "variables is None or constraints is None"):
                return False
            return None
        return atom
    mat = iterrules.materialised_before_loop(build.node, ["variables", "constraints"], {"dcop": _atoms("dcop"), "lists": _atoms("lists")})
    want_m = {"dcop": {"variables": ("dcop.variables.values()", "variables"), "constraints": ("dcop.constraints.values()", "constraints")},
              "lists": {"variables": ("variables",), "constraints": ("constraints",)}}
    for case_, res in mat.items():
        for nm_, src_ in res.items():
            ctx.check(src_ in want_m[case_][nm_], "R-FOREST", f"forest builder ({case_}): `{nm_}` is a private list before the forest loop", build, wl[0] if wl else build.node,
                      f"`{nm_}` is traversed again for every tree and node (and `variables` is emptied): given as a generator / filter it is exhausted after the first traversal, "
                      f"given as the dcop's own container it would be emptied (materialised from: {src_})")
    # every root comes out of the DFS, and building nodes are only created there (no side path that skips neighbour / relation wiring)
    apps = [c for c in ast.walk(build.node) if isinstance(c, ast.Call) and norm(c.func) in ("roots.append", "roots.extend", "roots.insert")]
    okr = len(apps) == 1 and norm(apps[0].func) == "roots.append" and norm(apps[0].args[0]) == "root" and wl and any(n is apps[0] for n in ast.walk(wl[0])) and \
        not [s for s in ast.walk(build.node) if isinstance(s, ast.Assign) and norm(s.targets[0]) == "roots" and not (isinstance(s.value, ast.List) and not s.value.elts)]
    ctx.check(okr, "R-FOREST", "roots are exactly the results of _generate_dfs_tree", build, (apps or [build.node])[0],
              "a root built any other way has no relations / neighbours: its constraints (e.g. the unary constraints of an isolated variable) are lost")
    makers = [f for f in repo.all_functions(m) for c in ast.walk(f.node) if isinstance(c, ast.Call) and call_name(c) == "_BuildingNode"]
    ctx.check({f.qualname for f in makers} == {"_generate_dfs_tree"}, "R-FOREST", "building nodes are only created by _generate_dfs_tree", makers[0] if makers else build, (makers[0] if makers else build).node,
              f"found in {sorted({f.qualname for f in makers})}")
    vt = repo.func(PT, "_visit_tree")
    t = norm(vt.node)
    ctx.check("stack = [root]" in t and "yield n" in t and ("stack.extend(reversed(n.children))" in t or "stack += reversed(n.children)" in t), "R-FOREST", "_visit_tree yields every node reachable through children links", vt, vt.node, "")
    ci = repo.func(PT, "ComputationPseudoTree.__init__")
    ctx.touch(ci)
    ffc = FuncFacts(ci.node)
    mk = [c for c in ast.walk(ci.node) if isinstance(c, ast.Call) and call_name(c) == "PseudoTreeNode"]
    ok = len(mk) == 1
    if ok:
        gs = [g for g in ffc.guards_at(mk[0]) if g.kind == "for"]
        ok = len(gs) == 2 and norm(gs[0].test) == "self._roots" and norm(gs[1].test) == f"_visit_tree({norm(gs[0].node.target)})"
        if ok:
            nv = norm(gs[1].node.target)
            ok = [norm(a) for a in mk[0].args] == [f"{nv}.variable", f"{nv}.relations", f"links[{nv}.name]"]
            st = ffc.stmt(mk[0])
            ok = ok and isinstance(st, ast.Assign) and norm(st.targets[0]) == f"_nodes[{nv}.name]"
    ctx.check(ok, "R-FOREST", "for every root, every visited node gets its PseudoTreeNode (variable, relations, its links)", ci, mk[0] if mk else ci.node,
              "node creation must sit inside the loop over the roots: otherwise only the last tree of the forest has nodes")
    ctx.check("self.nodes = list(_nodes.values())" in norm(ci.node) and "self._roots = list(roots)" in norm(ci.node), "R-FOREST", "the graph's nodes are all created nodes", ci, ci.node, "")
    # ---- link table ---------------------------------------------------------------------------
    written = {}
    for c in ast.walk(ci.node):
        if isinstance(c, ast.Call) and call_name(c) == "PseudoTreeLink" and c.args and isinstance(c.args[0], ast.Constant):
            written[c.args[0].value] = c
    li = repo.func(PT, "PseudoTreeLink.__init__")
    wl_ = [n for n in ast.walk(li.node) if isinstance(n, ast.Compare) and isinstance(n.ops[0], ast.NotIn) and isinstance(n.comparators[0], (ast.List, ast.Tuple))]
    white = {e.value for e in wl_[0].comparators[0].elts} if wl_ else set()
    gr = repo.func(PT, "get_dfs_relations")
    rd_ok, rd_why, read = ptrules.reader_ok(gr.node)
    ctx.check(set(written) == set(KINDS) and set(written) <= white and set(written) <= read, "R-LINKTABLE", "the four link kinds are written, accepted and read", ci, ci.node,
              f"written {sorted(written)}, accepted {sorted(white)}, read {sorted(read)}")
    for kind, c in sorted(written.items()):
        fs = [g for g in ffc.guards_at(c)]
        loops = [g for g in fs if g.kind == "for"]
        nv = norm(loops[1].node.target) if len(loops) > 1 else "n"
        src_ok = len(c.args) == 3 and norm(c.args[1]) == f"{nv}.name"
        if kind == "parent":
            ok = src_ok and norm(c.args[2]) == f"{nv}.parent.name" and (f"{nv}.parent is not None", True) in {(norm(a), b) for a, b in facts_at(ffc, c)}
        else:
            ok = src_ok and len(loops) == 3 and norm(loops[2].test) == f"{nv}.{KINDS[kind]}" and norm(c.args[2]) == f"{norm(loops[2].node.target)}.name"
        st = ffc.stmt(c)
        # stored under the node's own name: directly, or through a per-node list that is then added to links[<node>.name]
        direct = norm(st).startswith(f"links[{nv}.name].append(")
        via = None
        if not direct and isinstance(st, ast.Expr) and isinstance(st.value, ast.Call) and isinstance(st.value.func, ast.Attribute) and st.value.func.attr == "append" and isinstance(st.value.func.value, ast.Name):
            tmpl = st.value.func.value.id
            node_loop = loops[1].node if len(loops) > 1 else None
            if node_loop is not None:
                init = [a for a in node_loop.body if isinstance(a, ast.Assign) and norm(a.targets[0]) == tmpl and isinstance(a.value, ast.List) and not a.value.elts]
                ext = [e for e in node_loop.body if isinstance(e, ast.Expr) and norm(e.value) in (f"links[{nv}.name].extend({tmpl})", f"links[{nv}.name] += {tmpl}")]
                via = len(init) == 1 and len(ext) == 1 and node_loop.body.index(init[0]) < node_loop.body.index(ext[0])
        ok = ok and (direct or bool(via))
        ctx.check(ok, "R-LINKTABLE", f"'{kind}' links: one per element of the node's {KINDS[kind]} list, source = the node", ci, c,
                  "DPOP reads parent / children / pseudo parents from these links: a kind built from another list, or with source and target swapped, yields an inconsistent tree")
    # reader: kind -> slot, decided by cases (ptrules)
    ok = rd_ok
    ctx.check(ok, "R-LINKTABLE", "get_dfs_relations returns (parent, pseudo_parents, children, pseudo_children) from the node's own links", gr, gr.node, rd_why)
    ctx.floor("R-DFS", 6)
    ctx.floor("R-LINKTABLE", 6)


_P = "pydcop/computations_graph/pseudotree.py"
VARIANTS = [
    ("dfs_relations_prefiltered_on_all_dimensions", _P, "    # build a node for each of the variables\n    nodes = []\n    for v in variables:\n        n = _BuildingNode(v)", "    var_names = {v.name for v in variables}\n    relations = [r for r in relations if all(v.name in var_names for v in r.dimensions)]\n    nodes = []\n    for v in variables:\n        n = _BuildingNode(v)", "break", "R-NEIGHBORS"),
    ("pseudotree_nodes_reset_per_root", _P, "        links = defaultdict(lambda: [])  # type: Dict[str, List]\n        _nodes = {}\n        for root in self._roots:\n", "        for root in self._roots:\n            links = defaultdict(lambda: [])  # type: Dict[str, List]\n            _nodes = {}\n", "break", "R-ACCUM"),
    ("isolated_fast_path", _P, "    roots = []\n    while len(variables) != 0:", "    roots = []\n    for v in list(variables):\n        if not any(v in c.dimensions and len(c.dimensions) > 1 for c in constraints):\n            roots.append(_BuildingNode(v))\n            variables.remove(v)\n    while len(variables) != 0:", "break", "R-FOREST"),
    ("neighbors_not_deduplicated", _P, "            for n in nodes:\n                if n.variable in dim_vars and n not in node_neighbors:\n                    node_neighbors.append(n)", "            node_neighbors.extend(n for n in nodes if n.variable in dim_vars)", "break", "R-NEIGHBORS"),
    ("node_creation_dedented", _P, "            for n in _visit_tree(root):\n                _nodes[n.name] = PseudoTreeNode(n.variable, n.relations, links[n.name])", "        for n in _visit_tree(root):\n            _nodes[n.name] = PseudoTreeNode(n.variable, n.relations, links[n.name])", "break", "R-FOREST"),
    ("recursive_propagate", _P, "        stack = [(self, token, iter(self._neighbors))]\n        while stack:\n            node, node_token, neighbors = stack[-1]\n            for n in neighbors:\n                if n not in node._visited:\n                    if n not in node.pseudo_parents:\n                        node.children.append(n)\n                    n_token = n._receive_token(node, node_token)\n                    if n_token is not None:\n                        stack.append((n, n_token, iter(n._neighbors)))\n                        break\n            else:\n                stack.pop()",
     "        for n in self._neighbors:\n            if n not in self._visited:\n                if n not in self.pseudo_parents:\n                    self.children.append(n)\n                n.handle_token(self, token)", "break", "R-RECURSION"),
    ("recursive_visit", _P, "    stack = [root]\n    while stack:\n        n = stack.pop()\n        yield n\n        stack.extend(reversed(n.children))", "    yield root\n    for c in root.children:\n        yield from _visit_tree(c)", "break", "R-RECURSION"),
    ("token_not_copied", _P, "        token = token[:]\n        self._visited.append(sender)", "        self._visited.append(sender)", "break", "R-DFS"),
    ("pseudo_parent_keeps_sender", _P, "                n for n in self._neighbors if n in token and n != sender", "                n for n in self._neighbors if n in token", "break", "R-DFS"),
    ("pseudo_parent_becomes_child", _P, "                    if n not in node.pseudo_parents:\n                        node.children.append(n)", "                    node.children.append(n)", "break", "R-DFS"),
    ("back_edge_propagates", _P, "                self.pseudo_children.append(sender)\n            return None", "                self.pseudo_children.append(sender)\n            return token", "break", "R-DFS"),
    ("forest_constraints_not_materialised", _P, "        variables = list(variables)\n        constraints = list(constraints)\n", "        variables = list(variables)\n", "break", "R-FOREST"),
    ("forest_single_tree", _P, "    while len(variables) != 0:\n        root = _generate_dfs_tree(variables, constraints)", "    if len(variables) != 0:\n        root = _generate_dfs_tree(variables, constraints)", "break", "R-FOREST"),
    ("link_kind_from_wrong_list", _P, "                for c in n.pseudo_children:\n                    links[n.name].append(\n                        PseudoTreeLink(\"pseudo_children\", n.name, c.name)", "                for c in n.pseudo_parents:\n                    links[n.name].append(\n                        PseudoTreeLink(\"pseudo_children\", n.name, c.name)", "break", "R-LINKTABLE"),
    ("link_source_target_swapped", _P, "                    links[n.name].append(PseudoTreeLink(\"children\", n.name, c.name))", "                    links[n.name].append(PseudoTreeLink(\"children\", c.name, n.name))", "break", "R-LINKTABLE"),
    ("relations_only_binary", _P, "        if node.variable in r.dimensions:\n            node_relations.append(r)", "        if node.variable in r.dimensions and len(r.dimensions) <= 2:\n            node_relations.append(r)", "break", "R-NEIGHBORS"),
    ("n_forest_while_truthy", _P, "    while len(variables) != 0:", "    while variables:", "neutral"),
    ("n_rename_loopvar", _P, "            for n in nodes:\n                if n.variable in dim_vars and n not in node_neighbors:\n                    node_neighbors.append(n)", "            for other in nodes:\n                if other.variable in dim_vars and other not in node_neighbors:\n                    node_neighbors.append(other)", "neutral"),
]
