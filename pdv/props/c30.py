"""C30 - problem and scenario generators produce well-formed instances.

Decided (structure): library API validity of the generator modules (incl. set
passed to random.sample), exactly one constraint stored per edge / variable in
the graph-colouring and Ising builders, hard/soft and extensive/intentional
dispatch and sign agreement of the two Ising forms, naming agreement between the
Ising constraint builders and the factor-graph distribution, agreement of the
file / stdout output branches, scenario: distinct agents removed once.
"""
import ast

from ..model import walk_no_nested, norm, call_name, is_self_attr
from ..facts import FuncFacts, facts_at, count_paths
from ..report import Ctx, AnalysisError
from .. import apirules as A

GC = "pydcop.commands.generators.graphcoloring"
IS = "pydcop.commands.generators.ising"
SC = "pydcop.commands.generators.scenario"


def _facts(ff, node):
    return {(norm(t), p) for t, p in facts_at(ff, node)}


def _one_store_per_iteration(ctx, f, loop, table, what):
    def hit(st):
        if isinstance(st, (ast.If, ast.For, ast.While, ast.Try, ast.With)):
            return 0
        return sum(1 for n in walk_no_nested(st) if isinstance(n, ast.Assign) and isinstance(n.targets[0], ast.Subscript) and norm(n.targets[0].value) == table)
    o = count_paths(loop.body, hit)
    ok = all(v == (1, 1) for k, v in o.k.items() if k in ("fall", "continue")) and not any(k in o.k for k in ("break", "return"))
    ctx.check(ok, "R-ONCE", f"{f.qualname}: exactly one {what} stored per iteration", f, loop, f"every iteration must store exactly one {what} and the loop must not stop early ({o.k})")


def check(ctx: Ctx):
    repo = ctx.repo
    ctx.decided = ("generator modules only use existing library entry points and never hand a set to random.sample/choice; the "
                   "graph-colouring builders store exactly one constraint per graph edge, named by the edge index, over the edge's "
                   "two variables, hard or soft as requested; one variable per graph node with the requested number of colours; "
                   "Ising: one unary constraint per variable and one binary constraint per grid edge, the extensive and "
                   "intentional forms use the same sign convention, constraint names used by the factor-graph distribution are "
                   "the names the builders produce, file and stdout outputs publish the same mapping for the same flag; scenario: "
                   "each event samples from the not-yet-removed agents (a sequence) and removes them from the pool afterwards.")
    ctx.undecided = "well-formedness of concrete generated instances; statistical properties of the random graphs."
    ctx.rule("R-API", "only existing library entry points; sequences (not sets) for random.sample / random.choice")
    ctx.rule("R-ONCE", "exactly one constraint stored per edge / variable iteration")
    ctx.rule("R-DISPATCH", "hard/soft and extensive/intentional are selected by their flag")
    ctx.rule("R-AGREE", "the two forms of a constraint (extensive / intentional) and the two output branches agree")
    ctx.rule("R-NAMES", "names written by one builder are the names read by the other (distribution vs constraints)")
    ctx.rule("R-COMPLETE", "the DCOP receives every generated variable, constraint, agent and the domain at construction (a variable without constraint is still part of the problem)")
    ctx.rule("R-DISTINCT", "separately named containers (variable / factor-graph distribution, ...) are separate objects")
    ctx.rule("R-SCENARIO", "removed agents are sampled from the remaining pool and taken out of it")

    for mn in (GC, IS, SC):
        m = repo.module(mn)
        ctx.touch(m)
        A.check_imports(ctx, m, "R-API")
        A.check_module_attrs(ctx, m, "R-API")
        for f in repo.all_functions(m):
            A.check_sequence_apis(ctx, f, "R-API")
    # the generate command imports every generator module at load time: one module that cannot be imported
    # (e.g. a library entry point removed upstream) takes all generators down with it
    gen = repo.module("pydcop.commands.generate")
    ctx.touch(gen)
    A.check_imports(ctx, gen, "R-API")
    for mn, m in sorted(repo.modules.items()):
        if mn.startswith("pydcop.commands.generators.") and mn not in (GC, IS, SC):
            ctx.touch(m)
            A.check_imports(ctx, m, "R-API")
    ctx.floor("R-API", 20)

    # ---- completeness / aliasing --------------------------------------------------
    for mn, fn, vexpr in ((GC, "generate", "{v.name: v for v in variables.values()}"), (IS, "generate_ising", "{v.name: v for v in variables.values()}")):
        f = repo.func(mn, fn)
        ctx.touch(f)
        mk = [c for c in walk_no_nested(f.node) if isinstance(c, ast.Call) and call_name(c) == "DCOP"]
        ok = len(mk) == 1
        if ok:
            kw = {k.arg: norm(k.value) for k in mk[0].keywords}
            ok = kw.get("variables") == vexpr and kw.get("constraints") == "constraints" and kw.get("agents") == "agents" and "domains" in kw
        ctx.check(ok, "R-COMPLETE", f"{fn}: DCOP(variables=<all generated variables>, constraints=, agents=, domains=)", f, mk[0] if mk else f.node,
                  "variables must be handed over explicitly: DCOP.add_constraint only registers the variables of a constraint's scope, so a node without edge "
                  "(allow_subgraph, a 1-variable problem) would vanish while its agent is still emitted")
        vf = f if mn == GC else repo.func(IS, "generate_binary_variables")
        ctx.touch(vf)
        vl = [l for l in walk_no_nested(vf.node) if isinstance(l, ast.For) and norm(l.iter).replace("enumerate(", "").replace("sorted(", "").rstrip(")").endswith("graph.nodes")]
        ok = len(vl) == 1
        if ok:
            vs = [a for a in walk_no_nested(vl[0]) if isinstance(a, ast.Assign) and isinstance(a.targets[0], ast.Subscript) and norm(a.targets[0].value) == "variables"]
            mkv = [c for c in walk_no_nested(vl[0]) if isinstance(c, ast.Call) and call_name(c) == "Variable"]
            ok = len(vs) == 1 and len(mkv) == 1 and vs[0] in vl[0].body and not [x for x in walk_no_nested(vl[0]) if isinstance(x, (ast.Continue, ast.Break))]
        ctx.check(ok, "R-COMPLETE", f"{vf.qualname}: one Variable created and stored for every node of the graph", vf, vl[0] if vl else vf.node, "every node is a requested variable")
    from .. import aliasrules
    nb = aliasrules.check_no_alias(ctx, "R-DISTINCT", [f for mn in (GC, IS, SC) for f in repo.all_functions(repo.module(mn))])
    if nb < 8:
        ctx.defer(f"R-DISTINCT: only {nb} container constructions seen in the generator modules")

    # ---- graph colouring ------------------------------------------------------
    gen = repo.func(GC, "generate")
    soft = repo.func(GC, "generate_soft_constraints")
    hard = repo.func(GC, "generate_hard_constraints")
    for f in (gen, soft, hard):
        ctx.touch(f)
    for f in (soft, hard):
        lp = [n for n in walk_no_nested(f.node) if isinstance(n, ast.For) and norm(n.iter) == f"enumerate({f.params[0]}.edges)"]
        if len(lp) != 1:
            ctx.bad("R-ONCE", f"{f.qualname}: loop over the graph edges", f, f.node, "the builder must visit every edge of the graph once")
            continue
        _one_store_per_iteration(ctx, f, lp[0], "constraints", "constraint")
        t = norm(lp[0])
        i = norm(lp[0].target.elts[0])
        ctx.check(f"name = 'c' + str({i})" in t and "constraints[name] = " in t, "R-NAMES", f"{f.qualname}: constraint named after the edge index", f, lp[0], "names must be unique per edge")
        ctx.check(f"u, v = {norm(lp[0].target.elts[1])}" in t and f"v1, v2 = ({f.params[1]}[u], {f.params[1]}[v])" in t, "R-AGREE", f"{f.qualname}: constraint scope = the edge's two variables", f, lp[0], "")
        rets = [r for r in walk_no_nested(f.node) if isinstance(r, ast.Return)]
        ctx.check(len(rets) == 1 and norm(rets[0].value) == "constraints", "R-ONCE", f"{f.qualname}: returns the table", f, rets[0] if rets else f.node, "")
    t = norm(hard.node)
    ctx.check("{v1.name: val, v2.name: val}, 1000" in t and "for val in v1.domain" in t and "1000 if {v1.name} == {v2.name} else 0" in t.replace("f'", "").replace("'", ""), "R-AGREE",
              "hard constraint: same colour costs 1000 in both forms", hard, hard.node, "the extensional and intentional forms must penalise exactly the equal-colour assignments")
    ffh = FuncFacts(hard.node)
    st = [n for n in ast.walk(hard.node) if isinstance(n, ast.Assign) and isinstance(n.targets[0], ast.Subscript) and norm(n.targets[0].value) == "constraints"]
    ok = len(st) == 2 and {(("intentional", True) in _facts(ffh, s)) for s in st} == {True, False}
    ctx.check(ok, "R-DISPATCH", "hard builder: intentional flag selects the form", hard, st[0] if st else hard.node, "")
    ffg = FuncFacts(gen.node)
    cs = {call_name(c): c for c in walk_no_nested(gen.node) if isinstance(c, ast.Call) and call_name(c) in ("generate_soft_constraints", "generate_hard_constraints")}
    ok = len(cs) == 2 and ("args.soft", True) in _facts(ffg, cs["generate_soft_constraints"]) and ("args.soft", False) in _facts(ffg, cs["generate_hard_constraints"])
    ctx.check(ok, "R-DISPATCH", "--soft selects the soft builder", gen, gen.node, "hard or soft constraints as requested")
    t = norm(gen.node)
    ctx.check("COLORS[:args.colors_count]" in t and "args.colors_count > len(COLORS)" in t, "R-DISPATCH", "requested number of colours, bounded by the palette", gen, gen.node, "")
    vl = [n for n in walk_no_nested(gen.node) if isinstance(n, ast.For) and "sorted(graph.nodes)" in norm(n.iter)]
    ctx.check(len(vl) == 1 and "variables[node] = Variable(name, domain)" in norm(vl[0]), "R-ONCE", "one variable per graph node", gen, vl[0] if vl else gen.node, "")

    # ---- ising ---------------------------------------------------------------------
    gi = repo.func(IS, "generate_ising")
    gcli = repo.func(IS, "generate")
    bc = repo.func(IS, "generate_binary_constraints")
    uc = repo.func(IS, "generate_unary_constraints")
    bx = repo.func(IS, "generate_binary_extensive_constraint")
    bi = repo.func(IS, "generate_binary_intentional_constraint")
    ux = repo.func(IS, "generate_unary_extensive_constraint")
    ui = repo.func(IS, "generate_unary_intentional_constraint")
    for f in (gi, gcli, bc, uc, bx, bi, ux, ui):
        ctx.touch(f)
    for f, it in ((bc, f"{bc.params[0]}.edges"), (uc, f"{uc.params[0]}.values()")):
        lp = [n for n in walk_no_nested(f.node) if isinstance(n, ast.For) and norm(n.iter) == it]
        if len(lp) != 1:
            ctx.bad("R-ONCE", f"{f.qualname}: loop", f, f.node, "loop over edges / variables not found")
            continue
        _one_store_per_iteration(ctx, f, lp[0], "constraints", "constraint")
        ff = FuncFacts(f.node)
        cs = {call_name(c): c for c in ast.walk(lp[0]) if isinstance(c, ast.Call) and "extensive_constraint" in call_name(c) or isinstance(c, ast.Call) and "intentional_constraint" in call_name(c)}
        ext = [c for n_, c in cs.items() if "extensive" in n_]
        itn = [c for n_, c in cs.items() if "intentional" in n_]
        ok = len(ext) == 1 and len(itn) == 1 and ("extensive", True) in _facts(ff, ext[0]) and ("extensive", False) in _facts(ff, itn[0])
        ctx.check(ok, "R-DISPATCH", f"{f.qualname}: extensive flag selects the form", f, lp[0], "")
        ctx.check("constraints[constraint.name] = constraint" in norm(lp[0]), "R-NAMES", f"{f.qualname}: stored under the constraint's own name", f, lp[0], "")
    # sign agreement of the two binary forms
    tx, ti = norm(bx.node), norm(bi.node)
    v1, v2 = bx.params[0], bx.params[1]
    okx = f"{{{v1}.name: 0, {v2}.name: 0}}, value" in tx and f"{{{v1}.name: 1, {v2}.name: 1}}, value" in tx and f"{{{v1}.name: 0, {v2}.name: 1}}, -value" in tx \
        and f"{{{v1}.name: 1, {v2}.name: 0}}, -value" in tx
    oki = "{value} if {" + bi.params[0] + ".name} == {" + bi.params[1] + ".name} else -{value}" in ti
    ctx.check(okx and oki, "R-AGREE", "Ising binary: +value when equal, -value when different, in both forms", bx, bx.node,
              "the extensive table and the intentional expression must define the same function")
    ctx.check(f"name=f'cb_{{{v1}.name}}_{{{v2}.name}}'" in tx and "name=f'cb_{" + bi.params[0] + ".name}_{" + bi.params[1] + ".name}'" in ti, "R-NAMES", "Ising binary constraint name cb_<v1>_<v2> in both forms", bx, bx.node, "")
    tx, ti = norm(ux.node), norm(ui.node)
    v = ux.params[0]
    okx = f"{{{v}.name: 0}}, value" in tx and f"{{{v}.name: 1}}, -value" in tx
    oki = "-{value} if {" + ui.params[0] + ".name} == 1 else {value}" in ti
    ctx.check(okx and oki, "R-AGREE", "Ising unary: +value at 0, -value at 1, in both forms", ux, ux.node, "")
    ctx.check(f"name=f'cu_{{{v}.name}}'" in tx and "name=f'cu_{" + ui.params[0] + ".name}'" in ti, "R-NAMES", "Ising unary constraint name cu_<v> in both forms", ux, ux.node, "")
    # distribution names = builder names
    t = norm(gi.node)
    tb = norm(bc.node)
    ok = "(r1, c1), (r2, c2) = sorted(nodes)" in tb and "name1 = f'v_{r1}_{c1}'" in tb and "name2 = f'v_{r2}_{c2}'" in tb
    ok = ok and t.count("fg_mapping[agent.name].append(f'cb_v_{r1}_{c1}_v_{r2}_{c2}')") == 2 and "(r1, c1), (r2, c2) = sorted([(row, col), (left, col)])" in t \
        and "(r1, c1), (r2, c2) = sorted([(row, col), (row, down)])" in t and "fg_mapping[agent.name].append(f'cu_v_{row}_{col}')" in t \
        and "fg_mapping[agent.name].append(f'v_{row}_{col}')" in t and "var_mapping[agent.name].append(f'v_{row}_{col}')" in t
    ctx.check(ok, "R-NAMES", "Ising distributions name computations exactly as the builders do (sorted endpoints)", gi, gi.node,
              "a distribution entry that does not match a constraint name hosts a non-existent computation and leaves the real one unhosted")
    ok = "left = (row - 1) % row_count" in t and "down = (col + 1) % col_count" in t
    ctx.check(ok, "R-ONCE", "Ising: each agent takes one vertical and one horizontal edge (wrap-around)", gi, gi.node, "each binary factor must be attributed to exactly one agent")
    vb = repo.func(IS, "generate_binary_variables")
    ctx.check("variable = Variable(f'v_{row}_{col}', domain)" in norm(vb.node) and "variables[variable.name] = variable" in norm(vb.node), "R-NAMES", "Ising variables named v_<row>_<col>", vb, vb.node, "")
    # output branches
    ffc = FuncFacts(gcli.node)
    n_pub = 0
    for n in walk_no_nested(gcli.node):
        if isinstance(n, ast.Assign) and norm(n.targets[0]) == "dist_result['distribution']":
            n_pub += 1
            fs = _facts(ffc, n)
            want = "fg_mapping" if ("args.fg_dist", True) in fs else "var_mapping" if ("args.var_dist", True) in fs else None
            ctx.check(want is not None and norm(n.value) == want, "R-AGREE", f"ising generate: --{'fg' if want == 'fg_mapping' else 'var'}_dist publishes {want}", gcli, n,
                      f"under this flag the published distribution must be {want}, found {norm(n.value)}")
    ctx.check(n_pub == 4, "R-AGREE", "ising generate: 2 flags x 2 outputs", gcli, gcli.node, f"expected 4 publication sites, found {n_pub}")
    ctx.check("not args.intentional" in norm(gcli.node), "R-DISPATCH", "ising generate: --intentional selects the intentional form", gcli, gcli.node, "")

    # ---- scenario ----------------------------------------------------------------------
    gs = repo.func(SC, "generate_scenario")
    ctx.touch(gs)
    lp = [n for n in walk_no_nested(gs.node) if isinstance(n, ast.For) and norm(n.iter) == f"range({gs.params[0]})"]
    ok = len(lp) == 1
    if ok:
        body = lp[0].body
        smp = [n for n in body if isinstance(n, ast.Assign) and isinstance(n.value, ast.Call) and norm(n.value.func) == "random.sample"]
        upd = [n for n in body if isinstance(n, ast.Expr) and isinstance(n.value, ast.Call) and norm(n.value.func) == "agents.difference_update"]
        ok = len(smp) == 1 and len(upd) == 1 and body.index(smp[0]) < body.index(upd[0]) and norm(smp[0].value.args[1]) == gs.params[1] \
            and norm(upd[0].value.args[0]) == norm(smp[0].targets[0]) and norm(smp[0].value.args[0]) in ("sorted(agents)", "list(agents)")
        act = [n for n in body if isinstance(n, ast.Assign) and norm(n.targets[0]) == "actions"]
        ok = ok and len(act) == 1 and f"for agent in {norm(smp[0].targets[0])}" in norm(act[0].value) and "EventAction('remove_agent', agent=agent)" in norm(act[0].value)
        ev = [c for c in ast.walk(lp[0]) if isinstance(c, ast.Call) and call_name(c) == "DcopEvent" and any(k.arg == "actions" for k in c.keywords)]
        ok = ok and len(ev) == 1
    ctx.check(ok, "R-SCENARIO", "each event removes actions_count agents sampled from the remaining pool, then takes them out of the pool", gs, lp[0] if lp else gs.node,
              "sampling must use the current pool (as a sequence) and the sampled agents must be removed from it before the next event")
    t = norm(gs.node)
    ctx.check(f"agents = set({gs.params[5]})" in t and "generate_delay('init', " in t and "generate_delay('end', " in t, "R-SCENARIO", "pool = distinct agents; initial and final delays", gs, gs.node, "")


_G = "pydcop/commands/generators/graphcoloring.py"
_I = "pydcop/commands/generators/ising.py"
_S = "pydcop/commands/generators/scenario.py"
VARIANTS = [
    ("gc_variables_from_constraints_only", _G, "    dcop = DCOP(\n        name,\n        domains={\"colors\": domain},\n        variables={v.name: v for v in variables.values()},\n        agents=agents,\n        constraints=constraints,\n    )\n",
     "    dcop = DCOP(name, domains={\"colors\": domain}, agents=agents)\n    for constraint in constraints.values():\n        dcop.add_constraint(constraint)\n", "break", "R-COMPLETE"),
    ("ising_mappings_aliased", _I, "    fg_mapping = defaultdict(lambda: [])\n    var_mapping = defaultdict(lambda: [])\n", "    fg_mapping = var_mapping = defaultdict(list)\n", "break", "R-DISTINCT"),
    ("ising_mappings_aliased_by_name", _I, "    fg_mapping = defaultdict(lambda: [])\n    var_mapping = defaultdict(lambda: [])\n", "    fg_mapping = defaultdict(lambda: [])\n    var_mapping = fg_mapping\n", "break", "R-DISTINCT"),
    ("iot_old_pulp_import", "pydcop/commands/generators/iot.py", "from pulp import GLPK_CMD\n", "from pulp.solvers import GLPK_CMD\n", "break", "R-API"),
    ("sample_from_set", _S, "random.sample(sorted(agents), actions_count)", "random.sample(agents, actions_count)", "break", "R-API"),
    ("pool_not_updated", _S, "        agents.difference_update(removed_agents)\n", "", "break", "R-SCENARIO"),
    ("sample_wrong_count", _S, "random.sample(sorted(agents), actions_count)", "random.sample(sorted(agents), evts_count)", "break", "R-SCENARIO"),
    ("gc_constraint_overwritten", _G, "        name = \"c\" + str(i)\n        u, v = edge\n        v1, v2 = variables[u], variables[v]\n        if intentional:", "        name = \"c\" + str(u_count)\n        u, v = edge\n        v1, v2 = variables[u], variables[v]\n        if intentional:", "break", "R-NAMES"),
    ("gc_soft_hard_swapped", _G, "    if args.soft:\n        constraints = generate_soft_constraints(", "    if not args.soft:\n        constraints = generate_soft_constraints(", "break", "R-DISPATCH"),
    ("gc_skip_some_edges", _G, "        u, v = edge\n        v1, v2 = variables[u], variables[v]\n        constraint = NAryMatrixRelation([v1, v2], name=name)\n        for val1", "        u, v = edge\n        if u > v:\n            continue\n        v1, v2 = variables[u], variables[v]\n        constraint = NAryMatrixRelation([v1, v2], name=name)\n        for val1", "break", "R-ONCE"),
    ("gc_hard_offdiag", _G, "                    {v1.name: val, v2.name: val}, 1000", "                    {v1.name: val, v2.name: v2.domain[0]}, 1000", "break", "R-AGREE"),
    ("ising_sign_disagree", _I, "        {variable1.name: 0, variable2.name: 1}, -value", "        {variable1.name: 0, variable2.name: 1}, value", "break", "R-AGREE"),
    ("ising_unary_sign", _I, "        expression=f\" -{value} if {variable.name} == 1 else {value}\",", "        expression=f\" {value} if {variable.name} == 1 else -{value}\",", "break", "R-AGREE"),
    ("ising_fg_name_unsorted", _I, "            (r1, c1), (r2, c2) = sorted([(row, col), (left, col)])", "            (r1, c1), (r2, c2) = (row, col), (left, col)", "break", "R-NAMES"),
    ("ising_print_wrong_mapping", _I, "        if args.var_dist:\n            dist_result[\"distribution\"] = var_mapping\n            print(yaml.dump(dist_result))", "        if args.var_dist:\n            dist_result[\"distribution\"] = fg_mapping\n            print(yaml.dump(dist_result))", "break", "R-AGREE"),
    ("ising_dispatch_swapped", _I, "        if extensive:\n            constraint = generate_unary_extensive_constraint(variable, un_range)", "        if not extensive:\n            constraint = generate_unary_extensive_constraint(variable, un_range)", "break", "R-DISPATCH"),
]
