"""C01 - DPOP is optimal on every DCOP and schedule.

Optimality itself is not decided.  Decided (structure of DpopAlgo and of the
helpers it calls), each a necessary condition of "every computation finishes
with an optimal value":

* R-API       dpop, relations, pseudotree use only existing library entry points;
* R-MODE      every projection / find_arg_optimal call passes the computation's
              objective, which is the algorithm definition's mode; the helper's
              running optimum is objective-coherent with +/-inf identities;
* R-FINISH    on every path: an isolated node selects and finishes in on_start; a
              leaf posts UTIL to its parent in on_start; when the last child's
              UTIL is in, the root posts VALUE to every child then finishes and a
              non-root posts UTIL to its parent; a VALUE message leads to one VALUE
              per child then finish;
* R-PROTO     UTIL / VALUE are sent with the type strings their handlers are
              registered under; the waited-children list is initialised from the
              children in __init__ (messages may precede on_start), shrinks only in
              the UTIL handler, and the all-received test follows the removal;
* R-UTIL      UTIL phase data flow: received utils are joined into the accumulated
              relation, the sender's separator is recorded, own constraints are
              joined before projecting the own variable out, the projected
              relation is what is sent;
* R-VALUE     VALUE phase data flow: the accumulated relation is sliced on the
              received assignment, the arg-optimum over the own variable is
              selected; each child's message is built from lists created fresh for
              that child: the own variable and value first, then the child's
              separator variables found in the received assignment;
* R-OWNERSHIP a constraint is kept only if no child / pseudo-child is in its scope;
* R-LINKTABLE the four link kinds DPOP reads are those the pseudo-tree writes.
"""
import ast

from ..model import walk_no_nested, norm, call_name, is_self_attr, is_self_call
from ..facts import FuncFacts, facts_at, stmt_paths, count_paths, calls_hit
from ..report import Ctx, AnalysisError
from ..effects import field_writes, fact_set, stmt_has_self_call
from ..flow import local_defs, resolve_local
from .. import apirules, moderules, ptrules

D = "pydcop.algorithms.dpop"
REL = "pydcop.dcop.relations"
PT = "pydcop.computations_graph.pseudotree"
C = "DpopAlgo"


def _posts(st, target_text, kind):
    """self.post_msg(<target>, msg) in st where msg is DpopMessage(kind, ..) (directly or via a local)"""
    out = []
    for c in walk_no_nested(st):
        if isinstance(c, ast.Call) and is_self_call(c, "post_msg") and len(c.args) >= 2 and (target_text is None or norm(c.args[0]) == target_text):
            out.append(c)
    return out


def _msg_kind(f, e, scope=None):
    if isinstance(e, ast.Name):
        defs = [s.value for s in ast.walk(scope or f.node) if isinstance(s, ast.Assign) and norm(s.targets[0]) == e.id]
        e = defs[-1] if defs else e
    if isinstance(e, ast.Call) and call_name(e) == "DpopMessage" and e.args and isinstance(e.args[0], ast.Constant):
        return e.args[0].value, (e.args[1] if len(e.args) > 1 else None)
    return None, None


def check(ctx: Ctx):
    repo = ctx.repo
    ctx.decided = ("library API use; objective propagation into projection / find_arg_optimal and coherence of the helper; finish / UTIL / VALUE "
                   "obligations on every path; message types vs handlers and waited-children bookkeeping; UTIL and VALUE data flow (join, separator, "
                   "projection, slice, fresh per-child message lists); constraint ownership filter; link-kind table.")
    ctx.undecided = "optimality of the assignment; numeric correctness of join / projection; all schedule reasoning."
    ctx.rule("R-API", "dpop / relations / pseudotree only use existing library entry points")
    ctx.rule("R-MODE", "objective propagated to projection / find_arg_optimal; running optimum coherent with the objective")
    ctx.rule("R-FINISH", "every path of on_start / UTIL / VALUE handling sends what the neighbours wait for and finishes where it must")
    ctx.rule("R-PROTO", "UTIL/VALUE types vs registered handlers; waited children initialised in __init__, removed only by the UTIL handler")
    ctx.rule("R-UTIL", "UTIL phase: join received utils, record separator, join own constraints, project own variable out, send the projection")
    ctx.rule("R-VALUE", "VALUE phase: slice on the received assignment, select the arg-optimum, per-child messages from fresh lists")
    ctx.rule("R-OWNERSHIP", "a constraint is kept only at the lowest node of its scope")
    ctx.rule("R-LINKTABLE", "link kinds read by DPOP are the ones the pseudo-tree writes")
    ctx.rule("R-ACCUM", "containers that collect over a whole loop (all roots of the forest, all children) are created before the loop")
    from .. import accumrules
    accumrules.check_accumulators(ctx, "R-ACCUM", ["pydcop.computations_graph.pseudotree", "pydcop.algorithms.dpop"], min_loops=10)
    cls = repo.cls(D, C)
    ctx.touch(cls)
    for mn in (D, REL, PT):
        apirules.check_imports(ctx, repo.module(mn), "R-API")
        apirules.check_module_attrs(ctx, repo.module(mn), "R-API")
    for fn in ("join", "projection", "find_arg_optimal"):
        apirules.check_ndarray_methods(ctx, repo.func(REL, fn), "R-API")
    for mname in ("set_value_for_assignment", "slice", "get_value_for_assignment", "_slice_matrix"):
        apirules.check_ndarray_methods(ctx, repo.func(REL, "NAryMatrixRelation." + mname), "R-API")
    # ---- mode ----------------------------------------------------------------------------------
    funcs = list(cls.methods.values())
    n = moderules.check_mode_args(ctx, funcs, "R-MODE")
    if n < 5:
        raise AnalysisError(f"R-MODE: {n} calls of projection/find_arg_optimal found in DpopAlgo (floor 5)")
    ws = field_writes(cls, "_mode")
    ctx.check(len(ws) == 1 and ws[0].func.name == "__init__" and norm(ws[0].value) == f"{ws[0].func.params[1]}.algo.mode", "R-MODE", "DpopAlgo._mode = comp_def.algo.mode", cls, ws[0].stmt if ws else cls.node, "")
    fao = repo.func(REL, "find_arg_optimal")
    moderules.check_comparator_coherence(ctx, fao, "R-MODE", need_both=True)
    moderules.check_init_identity(ctx, fao, "R-MODE")
    # ties / slots of find_arg_optimal (shared with C06): all optimal values are returned, by exact equality
    from .. import relrules as _RR
    ctx.rule("R-TIES", "find_arg_optimal: ties (exact equality) append the candidate, strict improvements restart the list; the list starts empty")
    _loops = _RR.domain_loops(fao, fao.params[0])
    _accs = {cf.acc for cf in moderules.accumulator_compares(fao)}
    if len(_loops) == 1 and len(_accs) == 1:
        _acc = next(iter(_accs))
        _lists = {norm(c.func.value) for c in ast.walk(_loops[0]) if isinstance(c, ast.Call) and isinstance(c.func, ast.Attribute) and c.func.attr == "append"}
        _ln = next(iter(_lists)) if len(_lists) == 1 else "var_val"
        _RR.check_arg_list_update(ctx, fao, "R-TIES", _loops[0], _ln, _acc)
        _RR.check_list_starts_empty(ctx, fao, "R-TIES", _ln, _loops[0])
    else:
        ctx.bad("R-TIES", "find_arg_optimal: domain loop with one running optimum", fao, fao.node, "")
    proj = repo.func(REL, "projection")
    moderules.check_mode_args(ctx, [proj], "R-MODE")
    # ---- join / projection (shared with C12) ---------------------------------------------------
    from . import c12 as _c12
    ctx.rule("R-PAIRING", "join evaluates each operand on the assignment filtered by that operand's own dimensions and adds the values")
    ctx.rule("R-ALIGN", "raw tables of two different relations are combined only under a guard establishing equal dimension order")
    _c12._check_join(ctx, repo.func(REL, "join"))
    n_al = 0
    for f_ in list(repo.all_functions(repo.module(REL))) + list(repo.all_functions(repo.module(D))):
        n_al += _c12._check_align(ctx, f_)
    if n_al == 0:
        if len(_c12._align_sites(ast.parse(_c12._ALIGN_FIXTURE).body[0])) != 1:
            raise AnalysisError("R-ALIGN matcher does not recognise its positive fixture")
        ctx.ok("R-ALIGN", "no unguarded raw-table combination in relations.py / dpop.py (fixture matched)", repo.module(REL), None)
    _c12._check_projection(ctx, proj)
    # ---- finish ---------------------------------------------------------------------------------
    _finish(ctx, repo, cls)
    _proto(ctx, repo, cls)
    _util(ctx, repo, cls)
    _value(ctx, repo, cls)
    _ownership(ctx, repo, cls)
    # ---- link table -----------------------------------------------------------------------------
    ci = repo.func(PT, "ComputationPseudoTree.__init__")
    written = {c.args[0].value for c in ast.walk(ci.node) if isinstance(c, ast.Call) and call_name(c) == "PseudoTreeLink" and c.args and isinstance(c.args[0], ast.Constant)}
    gr = repo.func(PT, "get_dfs_relations")
    rd_ok, rd_why, read = ptrules.reader_ok(gr.node)
    ctx.check(written == read and len(read) == 4, "R-LINKTABLE", "pseudo-tree link kinds written == kinds read by get_dfs_relations", gr, gr.node, f"written {sorted(written)}, read {sorted(read)} {rd_why}")
    ini = repo.func(D, f"{C}.__init__")
    un = [s for s in walk_no_nested(ini.node) if isinstance(s, ast.Assign) and isinstance(s.value, ast.Call) and call_name(s.value) == "get_dfs_relations"]
    r = [x for x in walk_no_nested(gr.node) if isinstance(x, ast.Return)]
    ok = len(un) == 1 and isinstance(un[0].targets[0], ast.Tuple) and [norm(e) for e in un[0].targets[0].elts] == ["self._parent", "self._pseudo_parents", "self._children", "self._pseudo_children"] and \
        len(r) == 1 and rd_ok
    ctx.check(ok, "R-LINKTABLE", "DPOP unpacks (parent, pseudo_parents, children, pseudo_children) in the order get_dfs_relations returns them", ini, un[0] if un else ini.node, "")
    ctx.floor("R-FINISH", 8)
    ctx.floor("R-VALUE", 5)
    ctx.floor("R-UTIL", 5)


def _finish(ctx, repo, cls):
    on = repo.func(D, f"{C}.on_start")
    ctx.touch(on)
    n_iso = n_leaf = 0
    for p in stmt_paths(on.node.body):
        leaf = p.has_fact("self.is_leaf", True)
        root = p.has_fact("self.is_root", True) or p.has_fact("not self.is_root", False)
        nroot = p.has_fact("not self.is_root", True) or p.has_fact("self.is_root", False)
        fin = [s for s in p.stmts if stmt_has_self_call(s, "select_value_and_finish")]
        if leaf and nroot:
            n_leaf += 1
            posts = [c for s in p.stmts for c in _posts(s, "self._parent", "UTIL")]
            ok = len(posts) == 1 and _msg_kind(on, posts[0].args[1])[0] == "UTIL" and not fin
            if ok:
                _, content = _msg_kind(on, posts[0].args[1])
                d = resolve_local(on, content) if content is not None else None
                ok = d is not None and isinstance(d, ast.Call) and is_self_call(d, "_compute_utils_msg")
            ctx.check(ok, "R-FINISH", "on_start: a leaf sends the UTIL it computes to its parent", on, posts[0] if posts else on.node,
                      "the parent waits for one UTIL message per child; a leaf has nothing to wait for")
        elif leaf and (root or not nroot):
            n_iso += 1
            ctx.check(len(fin) == 1 and p.exit != "raise", "R-FINISH", "on_start: an isolated variable selects a value and finishes, on every path", on, (fin or p.stmts or [on.node])[0],
                      "a variable that is both root and leaf never receives a message")
        else:
            ctx.check(not fin, "R-FINISH", "on_start: a node with children does not finish before its children reported", on, (fin or [on.node])[0], "")
    ctx.check(n_iso >= 3 and n_leaf == 1, "R-FINISH", "on_start distinguishes leaf / isolated / inner nodes", on, on.node, f"isolated paths {n_iso}, leaf paths {n_leaf}")
    um = repo.func(D, f"{C}._on_util_message")
    ctx.touch(um)
    n_r = n_n = 0
    for p in stmt_paths(um.node.body):
        if p.exit == "raise":
            continue
        done = p.has_fact("len(self._waited_children) == 0", True)
        fin = [i for i, s in enumerate(p.stmts) if stmt_has_self_call(s, "select_value_and_finish")]
        if not done:
            ctx.check(not fin and not any(_posts(s, None, None) for s in p.stmts), "R-FINISH", "UTIL: nothing is sent while a child has not reported", um, (p.stmts or [um.node])[-1], "")
            continue
        if p.has_fact("self.is_root", True):
            n_r += 1
            loops = [i for i, s in enumerate(p.stmts) if isinstance(s, ast.For) and norm(s.iter) == "self._children"]
            ok = len(fin) == 1 and len(loops) == 1 and loops[0] < fin[0]
            if ok:
                l = p.stmts[loops[0]]
                cv = norm(l.target)
                posts = _posts(l, cv, "VALUE")
                ok = len(posts) == 1 and not any(isinstance(x, (ast.If, ast.Break, ast.Continue)) for x in ast.walk(l))
                if ok:
                    kind, content = _msg_kind(um, posts[0].args[1], l)
                    ok = kind == "VALUE" and content is not None and norm(content) == "([self._variable], [selected_value])"
                fcall = [c for c in walk_no_nested(p.stmts[fin[0]]) if isinstance(c, ast.Call) and is_self_call(c, "select_value_and_finish")][0]
                ok = ok and norm(fcall.args[0]) == "selected_value"
            ctx.check(ok, "R-FINISH", "UTIL at the root, all children in: VALUE([root], [selected value]) to every child, then select and finish", um, p.stmts[fin[0]] if fin else um.node,
                      "every child waits for exactly one VALUE message carrying the value the root selects")
        else:
            n_n += 1
            posts = [c for s in p.stmts for c in _posts(s, "self._parent", "UTIL")]
            scope = ast.Module(body=list(p.stmts), type_ignores=[])
            ok = len(posts) == 1 and _msg_kind(um, posts[0].args[1], scope)[0] == "UTIL" and not fin
            if ok:
                _, content = _msg_kind(um, posts[0].args[1], scope)
                dd = [s_.value for s_ in p.stmts if isinstance(s_, ast.Assign) and content is not None and norm(s_.targets[0]) == norm(content)]
                d = dd[-1] if dd else content
                ok = isinstance(d, ast.Call) and is_self_call(d, "_compute_utils_msg")
            ctx.check(ok, "R-FINISH", "UTIL at an inner node, all children in: the computed UTIL goes to the parent (no finish yet)", um, posts[0] if posts else um.node, "")
    ctx.check(n_r == 1 and n_n == 1, "R-FINISH", "UTIL handler has exactly one root path and one inner-node path once all children reported", um, um.node, f"root {n_r}, inner {n_n}")
    vm = repo.func(D, f"{C}._on_value_message")
    ctx.touch(vm)
    o = count_paths(vm.node.body, calls_hit(lambda c: is_self_call(c, "select_value_and_finish")))
    ctx.check(all(v == (1, 1) for k, v in o.k.items() if k in ("fall", "return")), "R-FINISH", "VALUE: the node selects its value and finishes exactly once on every path", vm, vm.node, f"{o}")
    sv = repo.func(D, f"{C}.select_value_and_finish")
    seq = [norm(s.value.func) for s in sv.node.body if isinstance(s, ast.Expr) and isinstance(s.value, ast.Call)]
    ok = "self.value_selection" in seq and "self.finished" in seq and seq.index("self.value_selection") < seq.index("self.finished")
    ctx.check(ok, "R-FINISH", "select_value_and_finish: value_selection then finished, unconditionally", sv, sv.node, f"{seq}")


def _proto(ctx, repo, cls):
    table = repo.handler_table(cls)
    kinds = set()
    for f in cls.methods.values():
        for c in ast.walk(f.node):
            if isinstance(c, ast.Call) and call_name(c) == "DpopMessage" and c.args and isinstance(c.args[0], ast.Constant):
                kinds.add(c.args[0].value)
                ctx.check(c.args[0].value in table, "R-PROTO", f"DpopMessage('{c.args[0].value}') has a registered handler", f, c,
                          "a message type without handler raises in the receiving computation")
                ctx.check(len(c.args) == 2, "R-PROTO", "DpopMessage(type, content)", f, c, "")
    ctx.check(kinds == {"UTIL", "VALUE"}, "R-PROTO", "DPOP sends UTIL and VALUE messages", cls, cls.node, f"{sorted(kinds)}")
    ctx.check(table.get("UTIL") is cls.methods.get("_on_util_message") and table.get("VALUE") is cls.methods.get("_on_value_message"), "R-PROTO", "UTIL -> _on_util_message, VALUE -> _on_value_message", cls, cls.node, "")
    dm = repo.module(D).classes.get("DpopMessage")
    if dm is not None:
        ini = dm.methods.get("__init__")
        ok = ini is not None and any(isinstance(c, ast.Call) and isinstance(c.func, ast.Attribute) and c.func.attr == "__init__" and c.args and norm(c.args[0]) == ini.params[1] for c in ast.walk(ini.node))
        ctx.check(ok, "R-PROTO", "DpopMessage uses its first argument as the message type", dm, (ini or dm).node, "")
    ws = field_writes(cls, "_waited_children", containers=True)
    ini = cls.methods["__init__"]
    ffi = FuncFacts(ini.node)
    ok_init = False
    for w in ws:
        if w.func is ini and w.kind == "assign" and norm(w.value) == "list(self._children)":
            ok_init = ("not self.is_leaf", True) in w.facts or ("self.is_leaf", False) in w.facts or not w.facts
        elif w.func is ini and w.kind == "assign" and norm(w.value) == "[]":
            pass
        elif w.func.name == "_on_util_message" and w.kind == "call:remove":
            ctx.check(norm(w.value.args[0]) == w.func.params[1], "R-PROTO", "the sender of a UTIL message is removed from the waited children", w.func, w.stmt, "")
        else:
            ctx.bad("R-PROTO", f"_waited_children changed in {w.func.name}", w.func, w.stmt, "only __init__ fills and only the UTIL handler shrinks the list of awaited children")
    ctx.check(ok_init, "R-PROTO", "waited children = all children, set in __init__", ini, ini.node,
              "a child may send its UTIL before this computation's on_start runs: the list must exist and be complete at construction")
    um = cls.methods["_on_util_message"]
    top = um.node.body
    i_rm = [i for i, s in enumerate(top) if any(isinstance(c, ast.Call) and norm(c.func) == "self._waited_children.remove" for c in ast.walk(s))]
    i_if = [i for i, s in enumerate(top) if isinstance(s, ast.If) and norm(s.test) == "len(self._waited_children) == 0"]
    ctx.check(len(i_rm) == 1 and len(i_if) == 1 and i_rm[0] < i_if[0], "R-PROTO", "the all-children-reported test follows the removal of the sender", um, top[i_if[0]] if i_if else um.node, "")


def _util(ctx, repo, cls):
    um = cls.methods["_on_util_message"]
    mp, sp = um.params[2], um.params[1]
    top = um.node.body
    t = norm(um.node)
    u = [s for s in top if isinstance(s, ast.Assign) and norm(s.value) == f"{mp}.content"]
    ok = len(u) == 1
    un = norm(u[0].targets[0]) if ok else "utils"
    j = [i for i, s in enumerate(top) if isinstance(s, ast.Assign) and norm(s.targets[0]) == "self._joined_utils" and norm(s.value) == f"join(self._joined_utils, {un})"]
    ctx.check(ok and len(j) == 1, "R-UTIL", "the received utility is joined into the accumulated relation, for every UTIL message", um, top[j[0]] if j else um.node,
              "the node's decision must account for the utilities of all its sub-trees")
    sep = [i for i, s in enumerate(top) if isinstance(s, ast.Assign) and norm(s.targets[0]) == f"self._children_separator[{sp}]" and norm(s.value) == f"{un}.dimensions"]
    i_if = [i for i, s in enumerate(top) if isinstance(s, ast.If) and norm(s.test) == "len(self._waited_children) == 0"]
    ctx.check(len(sep) == 1 and i_if and sep[0] < i_if[0], "R-UTIL", "the sender's separator (dimensions of its UTIL) is recorded before the phase can close", um, top[sep[0]] if sep else um.node,
              "the VALUE message to that child is restricted to this separator")
    cu = cls.methods["_compute_utils_msg"]
    ctx.touch(cu)
    top = cu.node.body
    loops = [i for i, s in enumerate(top) if isinstance(s, ast.For) and norm(s.iter) == "self._constraints"]
    ok = len(loops) == 1 and [norm(s) for s in top[loops[0]].body] == [f"self._joined_utils = join(self._joined_utils, {norm(top[loops[0]].target)})"]
    pr = [i for i, s in enumerate(top) if isinstance(s, ast.Assign) and isinstance(s.value, ast.Call) and call_name(s.value) == "projection"]
    ok = ok and len(pr) == 1 and loops[0] < pr[0] and [norm(a) for a in top[pr[0]].value.args[:2]] == ["self._joined_utils", "self._variable"]
    r = [x for x in walk_no_nested(cu.node) if isinstance(x, ast.Return)]
    ok = ok and len(r) == 1 and norm(r[0].value) == norm(top[pr[0]].targets[0])
    ctx.check(ok, "R-UTIL", "own constraints are joined, then the own variable is projected out of the accumulated relation; the projection is returned", cu, top[pr[0]] if pr else cu.node,
              "the parent receives the best achievable utility of the sub-tree as a function of the separator only")
    ctx.check("self._joined_utils" not in [norm(s.targets[0]) for s in top if isinstance(s, ast.Assign) and isinstance(s.value, ast.Call) and call_name(s.value) == "projection"], "R-UTIL",
              "the accumulated (un-projected) relation is kept for the VALUE phase", cu, cu.node, "the VALUE phase slices the relation that still depends on the own variable")
    # the accumulated relation is only ever extended: every write outside __init__ is join(self._joined_utils, <something>)
    n_acc = 0
    for w in field_writes(cls, "_joined_utils"):
        if w.func.name == "__init__":
            continue
        n_acc += 1
        v = w.value
        okw = isinstance(v, ast.Call) and call_name(v) == "join" and len(v.args) == 2 and norm(v.args[0]) == "self._joined_utils"
        ctx.check(okw, "R-UTIL", f"{w.func.name}: the accumulated relation is extended by join(self._joined_utils, ..), never replaced", w.func, w.stmt,
                  "it already holds the variable's own costs (and the children's utilities): rebuilding it from the constraints alone drops them")
    ctx.check(n_acc >= 3, "R-UTIL", "accumulation sites found", cls, cls.node, f"{n_acc}")
    for f in (um, cls.methods["on_start"]):
        for l in ast.walk(f.node):
            if isinstance(l, ast.For) and norm(l.iter) == "self._constraints":
                okl = [norm(s) for s in l.body] == [f"self._joined_utils = join(self._joined_utils, {norm(l.target)})"]
                ctx.check(okl, "R-UTIL", f"{f.name}: every own constraint is joined before deciding", f, l, "")
    ini = cls.methods["__init__"]
    ju = [w for w in field_writes(cls, "_joined_utils") if w.func is ini]
    ok = len(ju) == 2
    if ok:
        own = [w for w in ju if ("hasattr(self._variable, 'cost_for_val')", True) in w.facts]
        ok = len(own) == 1 and norm(own[0].value) == "NAryMatrixRelation([self._variable], costs, name='joined_utils')" and "costs.append(self._variable.cost_for_val(d))" in norm(ini.node) and "for d in self._variable.domain" in norm(ini.node)
    ctx.check(ok, "R-UTIL", "the accumulated relation starts with the variable's own cost for every domain value (or empty)", ini, ju[0].stmt if ju else ini.node,
              "variable-cost functions are part of the objective")


def _value(ctx, repo, cls):
    vm = cls.methods["_on_value_message"]
    mp = vm.params[2]
    top = vm.node.body
    t = norm(vm.node)
    vd = [s for s in top if isinstance(s, ast.Assign) and norm(s.targets[0]) == "value_dict"]
    ok = len(vd) == 1 and norm(vd[0].value) == "{k.name: v for k, v in zip(*value)}" and f"value = {mp}.content" in t
    ctx.check(ok, "R-VALUE", "the received (variables, values) pair is read as an assignment name -> value", vm, vd[0] if vd else vm.node, "")
    sl = [s for s in top if isinstance(s, ast.Assign) and norm(s.value) == "self._joined_utils.slice(value_dict)"]
    fa = [s for s in top if isinstance(s, ast.Assign) and isinstance(s.value, ast.Call) and call_name(s.value) == "find_arg_optimal"]
    ok = len(sl) == 1 and len(fa) == 1 and [norm(a) for a in fa[0].value.args[:2]] == ["self._variable", norm(sl[0].targets[0])] and isinstance(fa[0].targets[0], ast.Tuple)
    ctx.check(ok, "R-VALUE", "the accumulated relation is sliced on the received assignment and the arg-optimum over the own variable is taken", vm, fa[0] if fa else vm.node, "")
    sel = [s for s in top if isinstance(s, ast.Assign) and norm(s.targets[0]) == "selected_value"]
    ok = ok and len(sel) == 1 and norm(sel[0].value) == f"{norm(fa[0].targets[0].elts[0])}[0]"
    fin = [c for c in ast.walk(vm.node) if isinstance(c, ast.Call) and is_self_call(c, "select_value_and_finish")]
    ok = ok and len(fin) == 1 and norm(fin[0].args[0]) == "selected_value"
    ctx.check(ok, "R-VALUE", "the value selected is an optimal value (slot 0 of find_arg_optimal)", vm, sel[0] if sel else vm.node, "")
    loops = [l for l in top if isinstance(l, ast.For) and norm(l.iter) == "self._children"]
    if len(loops) != 1:
        ctx.bad("R-VALUE", "one VALUE message per child", vm, vm.node, "no loop over the children")
        return
    l = loops[0]
    cv = norm(l.target)
    posts = _posts(l, cv, "VALUE")
    ok = len(posts) == 1 and ffguard_free(vm, posts[0], l)
    kind, content = _msg_kind(vm, posts[0].args[1], l) if posts else (None, None)
    ok = ok and kind == "VALUE" and isinstance(content, ast.Tuple) and len(content.elts) == 2 and all(isinstance(e, ast.Name) for e in content.elts)
    ctx.check(ok, "R-VALUE", "every child is sent exactly one VALUE(variables, values) message", vm, posts[0] if posts else l, "")
    if not ok:
        return
    vars_n, vals_n = content.elts[0].id, content.elts[1].id
    # the two lists as symbolic sequences, built inside the per-child iteration (so: fresh for each child), whichever way they are built
    # (append loop with try/except KeyError or `if .. in ..`, comprehension, concatenation): see pdv/seqrules.py
    from .. import seqrules
    post_st = next(s_ for s_ in l.body if any(c is posts[0] for c in ast.walk(s_)))
    sep = f"self._children_separator[{cv}]"
    want = {vars_n: [("elem", "self._variable"), ("map", "$v", sep, frozenset({"$v.name in value_dict"}))],
            vals_n: [("elem", "selected_value"), ("map", "value_dict[$v.name]", sep, frozenset({"$v.name in value_dict"}))]}
    seqs = {}
    for nm in (vars_n, vals_n):
        sq = seqrules.seq_of(ast.Name(id=nm, ctx=ast.Load()), l.body, post_st)
        seqs[nm] = sq
        outer = [s_ for s_ in top if isinstance(s_, ast.Assign) and norm(s_.targets[0]) == nm]
        ctx.check(sq is not None and bool(sq) and sq[0] == want[nm][0] and not outer,
                  "R-VALUE", f"`{nm}` is created afresh for each child, starting with the own {'variable' if nm == vars_n else 'selected value'}", vm, (outer or [l])[0],
                  "a list shared between iterations accumulates the separators of earlier children (and is aliased by the messages already posted): a child then receives "
                  "variables outside its separator and fails to slice")
    ok = all(seqs[nm] == want[nm] for nm in (vars_n, vals_n))
    ctx.check(ok, "R-VALUE", "the child's message = own (variable, value) + the child's separator variables present in the received assignment, variables and values aligned", vm, l,
              f"the child slices its relation on exactly its separator (found variables {seqs[vars_n]}, values {seqs[vals_n]})")


def ffguard_free(f, call, loop):
    ff = FuncFacts(f.node)
    return not [g for g in ff.guards_at(call) if g.kind in ("if", "except") and any(n is g.node for n in ast.walk(loop))]


def _ownership(ctx, repo, cls):
    ini = cls.methods["__init__"]
    ctx.touch(ini)
    t = norm(ini.node)
    ok = "descendants = self._pseudo_children + self._children" in t or "descendants = self._children + self._pseudo_children" in t
    cp = ini.params[1]
    ok = ok and f"constraints = list({cp}.node.constraints)" in t and "self._constraints = constraints" in t
    loops = [l for l in ini.node.body if isinstance(l, ast.For) and norm(l.iter) == f"{cp}.node.constraints"]
    ok = ok and len(loops) == 1
    if ok:
        l = loops[0]
        r = norm(l.target)
        defs = {a.targets[0].id: a.value for a in ast.walk(l) if isinstance(a, ast.Assign) and len(a.targets) == 1 and isinstance(a.targets[0], ast.Name)}

        def is_names(e):
            """e enumerates the names of the variables of r's scope"""
            if isinstance(e, ast.Name) and e.id in defs:
                e = defs[e.id]
            if isinstance(e, ast.Call) and call_name(e) in ("list", "set", "tuple", "frozenset") and len(e.args) == 1:
                e = e.args[0]
            return isinstance(e, (ast.ListComp, ast.SetComp, ast.GeneratorExp)) and len(e.generators) == 1 and not e.generators[0].ifs and norm(e.generators[0].iter) in (f"{r}.dimensions", f"{r}.scope_names") \
                and norm(e.elt) in (f"{norm(e.generators[0].target)}.name", norm(e.generators[0].target) if norm(e.generators[0].iter).endswith("scope_names") else "") \
                or norm(e) == f"{r}.scope_names"

        def exists_test(t):
            """t is `any(d in NAMES for d in descendants)`"""
            if isinstance(t, ast.Call) and call_name(t) == "any" and len(t.args) == 1 and isinstance(t.args[0], (ast.GeneratorExp, ast.ListComp)):
                g = t.args[0]
                if len(g.generators) == 1 and not g.generators[0].ifs and norm(g.generators[0].iter) == "descendants" and isinstance(g.elt, ast.Compare) and len(g.elt.ops) == 1 \
                        and isinstance(g.elt.ops[0], ast.In) and norm(g.elt.left) == norm(g.generators[0].target) and is_names(g.elt.comparators[0]):
                    return True
            return False
        removes = [c for c in ast.walk(l) if isinstance(c, ast.Call) and norm(c.func) == "constraints.remove"]
        ok = len(removes) == 1 and [norm(a) for a in removes[0].args] == [r]
        if ok:
            inner = [x for x in l.body if isinstance(x, ast.For) and norm(x.iter) == "descendants" and any(n is removes[0] for n in ast.walk(x))]
            if inner:
                dv = norm(inner[0].target)
                body = inner[0].body
                ok = len(inner) == 1 and len(body) == 1 and isinstance(body[0], ast.If) and not body[0].orelse and isinstance(body[0].test, ast.Compare) and len(body[0].test.ops) == 1 \
                    and isinstance(body[0].test.ops[0], ast.In) and norm(body[0].test.left) == dv and is_names(body[0].test.comparators[0]) \
                    and [norm(s_) for s_ in body[0].body] == [f"constraints.remove({r})", "break"]
            else:
                guard = [x for x in l.body if isinstance(x, ast.If) and not x.orelse and any(n is removes[0] for n in ast.walk(x))]
                ok = len(guard) == 1 and exists_test(guard[0].test) and [norm(s_) for s_ in guard[0].body] == [f"constraints.remove({r})"]
    ctx.check(ok, "R-OWNERSHIP", "a constraint is dropped iff one of the node's children / pseudo-children is in its scope (iterating the original list, removing from a copy)", ini,
              loops[0] if loops else ini.node, "each constraint must be counted exactly once in the tree: at the lowest node of its scope")


_D = "pydcop/algorithms/dpop.py"
_R = "pydcop/dcop/relations.py"
VARIANTS = [
    ("pseudotree_nodes_reset_per_root", "pydcop/computations_graph/pseudotree.py", "        links = defaultdict(lambda: [])  # type: Dict[str, List]\n        _nodes = {}\n        for root in self._roots:\n", "        for root in self._roots:\n            links = defaultdict(lambda: [])  # type: Dict[str, List]\n            _nodes = {}\n", "break", "R-ACCUM"),
    ("value_lists_hoisted", _D, "        for c in self._children:\n            variables_msg = [self._variable]\n            values_msg = [selected_value]\n\n            # own_separator", "        variables_msg = [self._variable]\n        values_msg = [selected_value]\n        for c in self._children:\n\n            # own_separator", "break", "R-VALUE"),
    ("projection_default_mode", _D, "        util = projection(self._joined_utils, self._variable, self._mode)", "        util = projection(self._joined_utils, self._variable)", "break", "R-MODE"),
    ("root_finishes_before_value", _D, "                for c in self._children:\n                    msg = DpopMessage(\"VALUE\", ([self._variable], [selected_value]))\n                    self.post_msg(c, msg)\n\n                self.select_value_and_finish(selected_value, float(current_cost))",
     "                self.select_value_and_finish(selected_value, float(current_cost))", "break", "R-FINISH"),
    ("leaf_silent", _D, "            msg = DpopMessage(\"UTIL\", util)\n            self.post_msg(self._parent, msg)\n\n        elif self.is_leaf:", "            msg = DpopMessage(\"UTIL\", util)\n\n        elif self.is_leaf:", "break", "R-FINISH"),
    ("waited_children_in_on_start", _D, "            self._waited_children = list(self._children)\n\n    def footprint", "            pass\n\n    def footprint", "break", "R-PROTO"),
    ("separator_not_recorded", _D, "        self._children_separator[variable_name] = utils.dimensions\n", "", "break", "R-UTIL"),
    ("own_constraints_not_joined", _D, "        for r in self._constraints:\n            self._joined_utils = join(self._joined_utils, r)\n\n        # use projection", "        # use projection", "break", "R-UTIL"),
    ("projection_overwrites_joined", _D, "        util = projection(self._joined_utils, self._variable, self._mode)\n\n        return util", "        self._joined_utils = projection(self._joined_utils, self._variable, self._mode)\n\n        return self._joined_utils", "break", "R-UTIL"),
    ("value_selects_last", _D, "        values, current_cost = find_arg_optimal(self._variable, rel, self._mode)\n        selected_value = values[0]\n\n        for c in self._children:", "        values, current_cost = find_arg_optimal(self._variable, rel, self._mode)\n        selected_value = self._variable.domain[0]\n\n        for c in self._children:", "break", "R-VALUE"),
    ("ownership_keeps_all", _D, "                if descendant in names:\n                    constraints.remove(r)\n                    break", "                if descendant in names and len(names) > 2:\n                    constraints.remove(r)\n                    break", "break", "R-OWNERSHIP"),
    ("util_type_typo", _D, "                msg = DpopMessage(\"UTIL\", util)\n                self.logger.info(\n                    f\"On UTIL from", "                msg = DpopMessage(\"UTILS\", util)\n                self.logger.info(\n                    f\"On UTIL from", "break", "R-"),
    ("join_fast_path_unordered", _R, "    dims = u1.dimensions[:]\n    for d2 in u2.dimensions:", "    if isinstance(u1, NAryMatrixRelation) and isinstance(u2, NAryMatrixRelation) and set(u1.scope_names) == set(u2.scope_names):\n        return NAryMatrixRelation(u1.dimensions, u1._m + u2._m, name='joined_utils')\n    dims = u1.dimensions[:]\n    for d2 in u2.dimensions:", "break", "R-ALIGN"),
    ("isolated_rebuilds_joined", _D, "            if self._constraints:\n                for r in self._constraints:\n                    self._joined_utils = join(self._joined_utils, r)\n\n                values, current_cost = find_arg_optimal(", "            if self._constraints:\n                self._joined_utils = functools.reduce(join, self._constraints)\n\n                values, current_cost = find_arg_optimal(", "break", "R-UTIL"),
    ("tie_by_tolerance", _R, "        elif current_rel_val == best_rel_val:", "        elif abs(current_rel_val - best_rel_val) < 1e-9:", "break", "R-TIES"),
    ("n_ownership_with_any", _D, "            names = [v.name for v in r.dimensions]\n            for descendant in descendants:\n                if descendant in names:\n                    constraints.remove(r)\n                    break\n",
     "            names = [v.name for v in r.dimensions]\n            if any(d in names for d in descendants):\n                constraints.remove(r)\n", "neutral"),
    ("ownership_with_all", _D, "            names = [v.name for v in r.dimensions]\n            for descendant in descendants:\n                if descendant in names:\n                    constraints.remove(r)\n                    break\n",
     "            names = [v.name for v in r.dimensions]\n            if all(d in names for d in descendants):\n                constraints.remove(r)\n", "break", "R-OWNERSHIP"),
    ("n_value_lists_renamed", _D, ["variables_msg", "values_msg"], ["sep_vars", "sep_vals"], "neutral"),
]
