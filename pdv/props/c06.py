"""C06 - best-response helpers return exactly the optimal values and cost.

Decided: structure of find_arg_optimal / find_optimal / find_optimum /
optimal_cost_value / projection and of the A-DSA twin find_best_values
(comparator coherence, +/-inf identities, tie handling, own-cost term and its
probe, return slot order), slot agreement at every unpacking call site, and
that DSA / A-DSA / DSA-tuto only move to a member of the returned value list.
"""
import ast

from ..model import walk_no_nested, norm, call_name, is_self_attr
from ..facts import FuncFacts, facts_at
from ..report import Ctx, AnalysisError
from .. import moderules as M
from .. import relrules as RR

REL = "pydcop.dcop.relations"


def _own_cost_term(ctx, f, loop, cost_name, var_expr, rule):
    """inside the domain loop the candidate cost includes the variable's own
    cost *for the candidate value* (not for the current value)."""
    lv = norm(loop.target)
    terms = []
    for n in ast.walk(loop):
        if isinstance(n, ast.Call) and isinstance(n.func, ast.Attribute) and n.func.attr == "cost_for_val" and norm(n.func.value) == var_expr:
            terms.append(n)
    if not terms:
        ctx.bad(rule, f"{f.qualname}: own variable cost term", f, loop,
                "the local cost of a candidate value must include the variable's own cost for that value")
        return
    for t in terms:
        ctx.check(len(t.args) == 1 and norm(t.args[0]) == lv, rule, f"{f.qualname}: own cost taken at the candidate value", f, t,
                  f"the variable cost must be evaluated at the candidate '{lv}', found `{norm(t)}`")
        # it must be added to the candidate cost
        ff = FuncFacts(f.node)
        st = ff.stmt(t)
        added = (isinstance(st, ast.AugAssign) and isinstance(st.op, ast.Add) and norm(st.target) == cost_name) or \
                (isinstance(st, ast.Assign) and norm(st.targets[0]) == cost_name and any(isinstance(b, ast.BinOp) and isinstance(b.op, ast.Add) for b in ast.walk(st.value)))
        ctx.check(added, rule, f"{f.qualname}: own cost added to the candidate cost", f, st,
                  f"the variable cost must be added to '{cost_name}'")


def check(ctx: Ctx):
    repo = ctx.repo
    ctx.decided = ("comparator coherence and +/-inf identities of every running optimum in the best-response helpers; "
                   "ties append / strict improvements restart the value list (all optimal values are returned); the "
                   "candidate cost includes the variable's own cost at the candidate value and its probe tests the "
                   "attribute it uses; return slots (values, cost) / (value, cost) and their unpacking at every call "
                   "site; projection forwards its mode and slices on the remaining variables; DSA, A-DSA and DSA-tuto "
                   "select only members of the returned optimal-value list.")
    ctx.undecided = "numeric equality with the true optimum for concrete tables; floating point ties."
    ctx.rule("R-MODE.b", "a running optimum is replaced when the candidate is smaller under min / greater under max, for both objectives")
    ctx.rule("R-MODE.c", "a running optimum starts at +inf under min and -inf under max (no finite sentinel)")
    ctx.rule("R-MODE.a", "mode-parameterised helpers receive the mode of the algorithm definition")
    ctx.rule("R-TIES", "ties append the candidate, strict improvements restart the list with it; the list starts empty")
    ctx.rule("R-OWNCOST", "the local cost of a candidate includes the variable's own cost at that candidate")
    ctx.rule("R-GUARDUSE", "a hasattr probe tests the attribute that the guarded code uses")
    ctx.rule("R-SLOTS", "tuple returns keep their documented slot order and every call site unpacks them in that order")
    ctx.rule("R-MOVE", "DSA variants only select a value drawn from the list of optimal values, with its cost")

    fao = repo.func(REL, "find_arg_optimal")
    fo = repo.func(REL, "find_optimal")
    fopt = repo.func(REL, "find_optimum")
    ocv = repo.func(REL, "optimal_cost_value")
    proj = repo.func(REL, "projection")
    adsa_fb = repo.func("pydcop.algorithms.adsa", "ADsaComputation.find_best_values")

    # ---- find_arg_optimal --------------------------------------------------
    M.check_comparator_coherence(ctx, fao, "R-MODE.b", need_strict=True, min_instances=2)
    M.check_init_identity(ctx, fao, "R-MODE.c", min_instances=2)
    loops = RR.domain_loops(fao, fao.params[0])
    if len(loops) != 1:
        raise AnalysisError("find_arg_optimal: domain loop not found")
    accs = {cf.acc for cf in M.accumulator_compares(fao)}
    if len(accs) != 1:
        ctx.bad("R-MODE.b", "find_arg_optimal: single running optimum", fao, fao.node, f"expected one running optimum, found {sorted(accs)}")
    else:
        acc = accs.pop()
        lists = {norm(c.func.value) for c in ast.walk(loops[0]) if isinstance(c, ast.Call) and isinstance(c.func, ast.Attribute) and c.func.attr == "append"}
        lname = lists.pop() if len(lists) == 1 else "var_val"
        RR.check_arg_list_update(ctx, fao, "R-TIES", loops[0], lname, acc)
        RR.check_list_starts_empty(ctx, fao, "R-TIES", lname, loops[0])
        RR.check_return_pair(ctx, fao, "R-SLOTS", lname, acc)
        # candidate cost is relation(candidate)
        lv = norm(loops[0].target)
        cand = [cf.cand for cf in M.accumulator_compares(fao)][0]
        defs = [n for n in ast.walk(loops[0]) if isinstance(n, ast.Assign) and norm(n.targets[0]) == cand]
        okc = len(defs) == 1 and isinstance(defs[0].value, ast.Call) and norm(defs[0].value.func) == fao.params[1] and [norm(a) for a in defs[0].value.args] == [lv]
        ctx.check(okc, "R-OWNCOST", "find_arg_optimal: candidate cost = relation(candidate)", fao, defs[0] if defs else loops[0],
                  "the cost compared must be the relation evaluated at the candidate value")
    # invalid mode rejected
    raises = [r for r in walk_no_nested(fao.node) if isinstance(r, ast.Raise) and "ValueError" in norm(r)]
    ctx.check(len(raises) >= 1, "R-MODE.c", "find_arg_optimal rejects an unknown mode", fao, fao.node, "a mode other than min/max must be rejected")

    # ---- find_optimal / A-DSA twin -------------------------------------------
    for f, var_expr, var_param in ((fo, fo.params[0], fo.params[0]), (adsa_fb, "self.variable", "variable")):
        M.check_comparator_coherence(ctx, f, "R-MODE.b", need_strict=True, min_instances=2)
        M.check_init_identity(ctx, f, "R-MODE.c", min_instances=2)
        loops = [n for n in walk_no_nested(f.node) if isinstance(n, ast.For) and norm(n.iter) == f"{var_expr}.domain"]
        if len(loops) != 1:
            raise AnalysisError(f"{f.qualname}: domain loop not found")
        lp = loops[0]
        accs = {cf.acc for cf in M.accumulator_compares(f)}
        acc = accs.pop() if len(accs) == 1 else "best_cost"
        # the list of optimal values is the first slot of the returned pair, whatever its name
        rets_ = [r for r in walk_no_nested(f.node) if isinstance(r, ast.Return) and isinstance(r.value, ast.Tuple) and len(r.value.elts) == 2 and isinstance(r.value.elts[0], ast.Name)]
        lname = rets_[0].value.elts[0].id if rets_ and norm(rets_[0].value.elts[1]) == acc else "arg_best"
        RR.check_arg_list_update(ctx, f, "R-TIES", lp, lname, acc)
        RR.check_list_starts_empty(ctx, f, "R-TIES", lname, lp)
        if not RR.list_inits(f, lname):
            ctx.bad("R-TIES", f"{f.qualname}: {lname} starts as an empty list", f, f.node, f"'{lname}' is never initialised")
        RR.check_return_pair(ctx, f, "R-SLOTS", lname, acc)
        cand = ([cf.cand for cf in M.accumulator_compares(f)] or ["cost"])[0]
        _own_cost_term(ctx, f, lp, cand, var_expr, "R-OWNCOST")
        # the candidate is written into the assignment before costing it
        lv = norm(lp.target)
        st0 = [n for n in lp.body if isinstance(n, ast.Assign) and isinstance(n.targets[0], ast.Subscript)
               and norm(n.targets[0].slice) == f"{var_expr}.name" and norm(n.value) == lv]
        cst = [n for n in lp.body if isinstance(n, ast.Assign) and norm(n.targets[0]) == cand and isinstance(n.value, ast.Call)
               and call_name(n.value) == "assignment_cost"]
        okw = len(st0) == 1 and len(cst) == 1 and lp.body.index(st0[0]) < lp.body.index(cst[0]) and \
            norm(cst[0].value.args[0]) == norm(st0[0].targets[0].value)
        ctx.check(okw, "R-OWNCOST", f"{f.qualname}: candidate costed under the given assignment", f, lp,
                  "each candidate must be written into the assignment and the constraints costed on that assignment")
        RR.check_guarduse(ctx, f, "R-GUARDUSE")

    # ---- find_optimum ----------------------------------------------------------
    M.check_comparator_coherence(ctx, fopt, "R-MODE.b", min_instances=2)
    first = [n for n in ast.walk(fopt.node) if isinstance(n, ast.If) and norm(n.test) == "optimum is None"]
    ctx.check(len(first) == 1, "R-MODE.c", "find_optimum: first value initialises the optimum", fopt, fopt.node,
              "find_optimum must start from the first evaluated value (None sentinel)")
    raises = [r for r in walk_no_nested(fopt.node) if isinstance(r, ast.Raise)]
    ctx.check(len(raises) >= 1, "R-MODE.c", "find_optimum rejects an unknown mode", fopt, fopt.node, "a mode other than min/max must be rejected")

    # ---- optimal_cost_value -----------------------------------------------------
    M.check_minmax_selection(ctx, ocv, "R-MODE.b", min_instances=1)
    RR.check_guarduse(ctx, ocv, "R-GUARDUSE")
    gens = [g for g in ast.walk(ocv.node) if isinstance(g, ast.GeneratorExp)]
    unp = [n for n in walk_no_nested(ocv.node) if isinstance(n, ast.Assign) and isinstance(n.targets[0], ast.Tuple)
           and isinstance(n.value, ast.Call) and n.value.args and any(a in gens for a in n.value.args)]
    okg = False
    if len(unp) == 1 and isinstance(unp[0].value.args[0].elt, ast.Tuple):
        elt = unp[0].value.args[0].elt
        gv = norm(unp[0].value.args[0].generators[0].target)
        tg = [norm(e) for e in unp[0].targets[0].elts]
        # (cost, value) compared first on cost ; unpacked as (cost name, value name)
        okg = (len(elt.elts) == 2 and isinstance(elt.elts[0], ast.Call) and norm(elt.elts[0].func).endswith(".cost_for_val")
               and norm(elt.elts[0].args[0]) == gv and norm(elt.elts[1]) == gv and tg == ["best_cost", "best_value"])
    ctx.check(okg, "R-SLOTS", "optimal_cost_value: optimise over (cost(value), value) pairs", ocv, unp[0] if unp else ocv.node,
              "the optimum must be taken over (cost, value) pairs, cost first, and unpacked in that order")
    RR.check_return_pair(ctx, ocv, "R-SLOTS", "best_value", "best_cost")

    # call sites of optimal_cost_value / find_optimal / find_best_values: unpack order
    n_sites = 0
    for mname, m in repo.modules.items():
        if not mname.startswith("pydcop.algorithms"):
            continue
        for f in repo.all_functions(m):
            for st in walk_no_nested(f.node):
                if isinstance(st, ast.Assign) and isinstance(st.value, ast.Call) and isinstance(st.targets[0], ast.Tuple) and len(st.targets[0].elts) == 2:
                    cn = call_name(st.value)
                    if cn not in ("optimal_cost_value", "find_optimal", "find_best_values", "find_arg_optimal"):
                        continue
                    n_sites += 1
                    a, b = [norm(e) for e in st.targets[0].elts]
                    _check_slot_use(ctx, f, st, cn, a, b)
    ctx.floor("R-SLOTS", 10)

    # ---- projection ---------------------------------------------------------------
    M.check_mode_args(ctx, [proj], "R-MODE.a")
    _check_projection(ctx, proj)

    # ---- DSA moves -------------------------------------------------------------------
    for mod, cls in (("pydcop.algorithms.dsa", "DsaComputation"), ("pydcop.algorithms.adsa", "ADsaComputation")):
        pc = repo.func(mod, cls + ".probabilistic_change")
        ctx.touch(pc)
        vs = [c for c in walk_no_nested(pc.node) if isinstance(c, ast.Call) and is_self_attr(c.func, "value_selection")]
        p_cost, p_vals = pc.params[1], pc.params[2]
        okm = len(vs) == 1 and len(vs[0].args) == 2 and norm(vs[0].args[0]) == f"random.choice({p_vals})" and norm(vs[0].args[1]) == p_cost
        ctx.check(okm, "R-MOVE", f"{cls}.probabilistic_change selects from the optimal values", pc, vs[0] if vs else pc.node,
                  "the new value must be drawn from the list of optimal values and recorded with the optimal cost")
        for vn in ("variant_a", "variant_b", "variant_c"):
            vf = repo.func(mod, f"{cls}.{vn}")
            ctx.touch(vf)
            vp = vf.params
            for c in walk_no_nested(vf.node):
                if isinstance(c, ast.Call) and is_self_attr(c.func, "probabilistic_change"):
                    ctx.check([norm(a) for a in c.args] == [vp[2], vp[3]], "R-MOVE", f"{cls}.{vn} forwards (cost, values)", vf, c,
                              "variants must forward (best_cost, best_values) unchanged in this order")
            # removing the current value is only allowed when another optimal value remains
            ffv = FuncFacts(vf.node)
            for c in walk_no_nested(vf.node):
                if isinstance(c, ast.Call) and isinstance(c.func, ast.Attribute) and c.func.attr == "remove" and norm(c.func.value) == vp[3]:
                    facts = {(norm(t), p) for t, p in facts_at(ffv, c)}
                    ctx.check((f"len({vp[3]}) > 1", True) in facts, "R-MOVE", f"{cls}.{vn}: current value removed only if another remains", vf, c,
                              "removing the current value from a singleton list would leave no optimal value to move to")
        # evaluate / tick : variants receive (delta, best_cost, args_best) from find_optimal's slots
        ev = repo.func(mod, cls + (".evaluate_cycle" if cls == "DsaComputation" else ".tick"))
        ctx.touch(ev)
        for c in walk_no_nested(ev.node):
            if isinstance(c, ast.Call) and isinstance(c.func, ast.Attribute) and c.func.attr in ("variant_a", "variant_b", "variant_c") and is_self_attr(c.func):
                ctx.check([norm(a) for a in c.args] == ["delta", "best_cost", "args_best"], "R-MOVE", f"{cls}: variant called with (delta, best_cost, args_best)", ev, c,
                          "the variant must receive the optimal cost and the optimal values in their parameter roles")
    # best response used for the move is computed for the assignment at hand (or memoised under a complete key)
    for mod, qual, helper in (("pydcop.algorithms.dsa", "DsaComputation.evaluate_cycle", "find_optimal"),
                              ("pydcop.algorithms.adsa", "ADsaComputation.tick", "find_best_values"),
                              ("pydcop.algorithms.dsatuto", "DsaTutoComputation.on_new_cycle", "find_optimal")):
        _check_best_response_source(ctx, repo.func(mod, qual), helper)
    M.check_mode_args(ctx, [repo.func("pydcop.algorithms.dsa", "DsaComputation.evaluate_cycle"),
                            repo.func("pydcop.algorithms.dsa", "DsaComputation.on_start"),
                            repo.func("pydcop.algorithms.adsa", "ADsaComputation.delayed_start"),
                            repo.func("pydcop.algorithms.dsatuto", "DsaTutoComputation.on_new_cycle")], "R-MODE.a")
    # dsatuto: moves to an element of the optimal list
    dt = repo.func("pydcop.algorithms.dsatuto", "DsaTutoComputation.on_new_cycle")
    for c in walk_no_nested(dt.node):
        if isinstance(c, ast.Call) and is_self_attr(c.func, "value_selection"):
            ctx.check(norm(c.args[0]) in ("arg_min[0]", "random.choice(arg_min)"), "R-MOVE", "DsaTuto moves to an optimal value", dt, c,
                      "the selected value must be a member of the optimal-value list returned by find_optimal")
    ctx.floor("R-MOVE", 12)
    ctx.floor("R-MODE.b", 12)
    # huge-magnitude costs: table values must leave the matrix as Python numbers (unbounded ints), not fixed-width numpy scalars
    ctx.rule("R-SCALAR", "NAryMatrixRelation.get_value_for_assignment returns <table>.item(): sums of large integer costs do not wrap")
    RR.check_matrix_scalar(ctx, "R-SCALAR")
    ctx.floor("R-TIES", 12)


def _check_best_response_source(ctx, f, helper):
    """The (values, cost) pair a DSA variant moves on is the helper's result
    for the assignment of *this* cycle: bound directly from the call, or read
    from a memo whose key identifies the whole assignment (names and values)."""
    ctx.touch(f)
    binds = [n for n in walk_no_nested(f.node) if isinstance(n, ast.Assign) and isinstance(n.targets[0], ast.Tuple) and len(n.targets[0].elts) == 2
             and any(isinstance(c, ast.Call) and call_name(c) == helper for c in ast.walk(n.value))]
    memo_reads = [n for n in walk_no_nested(f.node) if isinstance(n, ast.Assign) and isinstance(n.targets[0], ast.Tuple) and len(n.targets[0].elts) == 2
                  and isinstance(n.value, ast.Subscript) and is_self_attr(n.value.value)]
    if binds and not memo_reads:
        ok = len(binds) == 1 and isinstance(binds[0].value, ast.Call) and call_name(binds[0].value) == helper
        ctx.check(ok, "R-MOVE", f"{f.qualname}: best response computed from this cycle's assignment", f, binds[0],
                  f"the optimal values must be the direct result of {helper}(..) for the current assignment")
        return
    if not memo_reads:
        ctx.bad("R-MOVE", f"{f.qualname}: best response source", f, f.node, f"no binding of the ({helper}) result found")
        return
    for mr in memo_reads:
        key = mr.value.slice
        kdef = key
        if isinstance(key, ast.Name):
            defs = [n for n in walk_no_nested(f.node) if isinstance(n, ast.Assign) and norm(n.targets[0]) == key.id]
            kdef = defs[0].value if defs else key
        kt = norm(kdef)
        complete = ".items()" in kt and ".values()" not in kt
        ctx.check(complete, "R-MOVE", f"{f.qualname}: memo key of the best response", f, mr,
                  f"a memoised best response is keyed by `{kt}`: the optimum depends on which neighbour holds which value, "
                  f"so the key must be built from the (name, value) items, not from the values alone / their arrival order")


def _check_slot_use(ctx, f, st, callee, a, b):
    """callee -> (first slot kind, second slot kind)."""
    kinds = {"optimal_cost_value": ("value", "cost"), "find_optimal": ("values", "cost"), "find_best_values": ("values", "cost"),
             "find_arg_optimal": ("values", "cost")}
    k1, k2 = kinds[callee]
    # decide from how the two names are used afterwards in the function
    uses = {a: set(), b: set()}
    for c in walk_no_nested(f.node):
        if isinstance(c, ast.Call) and (is_self_attr(c.func, "value_selection") or call_name(c) in ("value_selection", "select_value_and_finish")):
            for i, arg in enumerate(c.args[:2]):
                for nm in (a, b):
                    if nm != "_" and any(isinstance(x, ast.Name) and x.id == nm for x in ast.walk(arg)):
                        uses[nm].add("value" if i == 0 else "cost")
        if isinstance(c, ast.Call) and call_name(c) in ("choice",) and c.args:
            for nm in (a, b):
                if norm(c.args[0]) == nm:
                    uses[nm].add("value")
        if isinstance(c, ast.Call) and isinstance(c.func, ast.Attribute) and c.func.attr in ("variant_a", "variant_b", "variant_c"):
            if len(c.args) == 3:
                for nm in (a, b):
                    if norm(c.args[1]) == nm:
                        uses[nm].add("cost")
                    if norm(c.args[2]) == nm:
                        uses[nm].add("value")
        if isinstance(c, ast.Call) and call_name(c) == "set_value_for_assignment" and len(c.args) == 2:
            for nm in (a, b):
                if norm(c.args[1]) == nm:
                    uses[nm].add("cost")
    for x in walk_no_nested(f.node):
        if isinstance(x, ast.BinOp) and isinstance(x.op, (ast.Sub, ast.Add)):
            for nm in (a, b):
                if any(isinstance(y, ast.Name) and y.id == nm for y in (x.left, x.right)):
                    uses[nm].add("cost")
        if isinstance(x, ast.Subscript) and isinstance(x.value, ast.Name) and x.value.id in (a, b):
            uses[x.value.id].add("value")
    bad = ("cost" in uses[a]) or ("value" in uses[b])
    ctx.check(not bad, "R-SLOTS", f"{callee}(..) unpacked as ({a}, {b}) in {f.qualname}", f, st,
              f"{callee} returns ({k1}, {k2}); here slot 1 '{a}' is used as {sorted(uses[a])} and slot 2 '{b}' as {sorted(uses[b])}")


def _check_projection(ctx, proj):
    ctx.touch(proj)
    p_rel, p_var, p_mode = proj.params[:3]
    body = proj.node
    # remaining variables = copy of the dimensions minus the projected one
    rv = [n for n in walk_no_nested(body) if isinstance(n, ast.Assign) and norm(n.targets[0]) == "remaining_vars"]
    okc = len(rv) == 1 and norm(rv[0].value) in (f"{p_rel}.dimensions.copy()", f"list({p_rel}.dimensions)", f"{p_rel}.dimensions[:]")
    ctx.check(okc, "R-SLOTS", "projection: remaining variables are a *copy* of the dimensions", proj, rv[0] if rv else body,
              "the dimension list of the relation must be copied before the projected variable is removed (relations are values)")
    rm = [c for c in walk_no_nested(body) if isinstance(c, ast.Call) and norm(c.func) == "remaining_vars.remove"]
    ctx.check(len(rm) == 1 and [norm(a) for a in rm[0].args] == [p_var], "R-SLOTS", "projection removes exactly the projected variable", proj,
              rm[0] if rm else body, "the result must range over the dimensions minus the projected variable")
    loops = [n for n in walk_no_nested(body) if isinstance(n, ast.For) and norm(n.iter) == "generate_assignment_as_dict(remaining_vars)"]
    ctx.check(len(loops) == 1, "R-SLOTS", "projection enumerates every remaining assignment", proj, loops[0] if loops else body,
              "each assignment of the remaining variables must be visited")
    if loops:
        lv = norm(loops[0].target)
        calls = [c for c in ast.walk(loops[0]) if isinstance(c, ast.Call) and call_name(c) == "find_arg_optimal"]
        okf = len(calls) == 1 and [norm(a) for a in calls[0].args] == [p_var, f"{p_rel}.slice({lv})", p_mode]
        ctx.check(okf, "R-SLOTS", "projection optimises the projected variable on the sliced relation", proj, calls[0] if calls else loops[0],
                  f"expected find_arg_optimal({p_var}, {p_rel}.slice({lv}), {p_mode})")
        ffp = FuncFacts(proj.node)
        st = ffp.stmt(calls[0]) if calls else None
        okv = isinstance(st, ast.Assign) and isinstance(st.targets[0], ast.Tuple) and len(st.targets[0].elts) == 2 and st.value is calls[0]
        val = norm(st.targets[0].elts[1]) if okv else None
        if not okv and isinstance(st, ast.Assign) and isinstance(st.value, ast.Subscript) and st.value.value is calls[0] and isinstance(st.value.slice, ast.Constant) and st.value.slice.value == 1 \
                and isinstance(st.targets[0], ast.Name):
            okv, val = True, st.targets[0].id     # cost = find_arg_optimal(..)[1]
        sets = [n for n in ast.walk(loops[0]) if isinstance(n, ast.Assign) and isinstance(n.value, ast.Call) and call_name(n.value) == "set_value_for_assignment"]
        oks = len(sets) == 1 and norm(sets[0].targets[0]) == norm(sets[0].value.func.value) and [norm(a) for a in sets[0].value.args] == [lv, val]
        ctx.check(bool(okv and oks), "R-SLOTS", "projection stores the optimal *cost* (slot 2) for each assignment and rebinds the result", proj,
                  sets[0] if sets else loops[0], "the optimum cost must be stored at the partial assignment and the new relation kept")
        rets = [r for r in walk_no_nested(body) if isinstance(r, ast.Return)]
        ctx.check(len(rets) == 1 and sets and norm(rets[0].value) == norm(sets[0].targets[0]), "R-SLOTS", "projection returns the accumulated relation", proj,
                  rets[0] if rets else body, "the relation built in the loop must be returned")


_R = "pydcop/dcop/relations.py"
VARIANTS = [
    ("matrix_value_as_numpy_scalar", "pydcop/dcop/relations.py", "        elif isinstance(var_values, dict):\n            u = self.slice(var_values)\n            return u._m.item()", "        elif isinstance(var_values, dict):\n            u = self.slice(var_values)\n            return u._m[()]", "break", "R-SCALAR"),
    ("fao_flip_min", _R, "            mode == \"min\" and best_rel_val > current_rel_val", "            mode == \"min\" and best_rel_val < current_rel_val", "break", "R-MODE.b"),
    ("fao_nonstrict", _R, "(mode == \"max\" and best_rel_val < current_rel_val)", "(mode == \"max\" and best_rel_val <= current_rel_val)", "break", "R-MODE.b"),
    ("fao_sentinel_back", _R, "    if mode == \"min\":\n        best_rel_val = float(\"inf\")", "    if mode == \"min\":\n        best_rel_val = get_data_type_max(DEFAULT_TYPE)", "break", "R-MODE.c"),
    ("fao_inf_swapped", _R, "    if mode == \"min\":\n        best_rel_val = float(\"inf\")\n    elif mode == \"max\":\n        best_rel_val = -float(\"inf\")", "    if mode == \"min\":\n        best_rel_val = -float(\"inf\")\n    elif mode == \"max\":\n        best_rel_val = float(\"inf\")", "break", "R-MODE.c"),
    ("fao_tie_dropped", _R, "        elif current_rel_val == best_rel_val:\n            var_val.append(v)\n", "", "break", "R-TIES"),
    ("fao_no_reset", _R, "            best_rel_val = current_rel_val\n            var_val = [v]", "            best_rel_val = current_rel_val\n            var_val.append(v)", "break", "R-TIES"),
    ("fao_return_swapped", _R, "    return var_val, best_rel_val", "    return best_rel_val, var_val", "break", "R-SLOTS"),
    ("fo_probe_wrong", _R, "        if hasattr(variable, \"cost_for_val\"):\n            cost += variable.cost_for_val(value)", "        if hasattr(variable, \"cost_for_value\"):\n            cost += variable.cost_for_val(value)", "break", "R-GUARDUSE"),
    ("fo_owncost_dropped", _R, "        if hasattr(variable, \"cost_for_val\"):\n            cost += variable.cost_for_val(value)\n\n        if cost == best_cost:", "        if cost == best_cost:", "break", "R-OWNCOST"),
    ("fo_list_none", _R, "    arg_best, best_cost = [], float(\"inf\")\n    if mode", "    arg_best, best_cost = None, float(\"inf\")\n    if mode", "break", "R-TIES"),
    ("fo_max_only", _R, "        elif (mode == \"min\" and cost < best_cost) or mode == \"max\" and cost > best_cost:", "        elif cost < best_cost:", "break", "R-MODE.b"),
    ("fo_max_init_wrong", _R, "    if mode == \"max\":\n        arg_best, best_cost = [], -float(\"inf\")", "    if mode == \"max\":\n        arg_best, best_cost = [], float(\"inf\")", "break", "R-MODE.c"),
    ("fo_cost_before_assign", _R, "        assignment[variable.name] = value\n        cost = assignment_cost(assignment, constraints)\n", "        cost = assignment_cost(assignment, constraints)\n        assignment[variable.name] = value\n", "break", "R-OWNCOST"),
    ("ocv_minmax_swapped", _R, "        opt_func = min if mode == \"min\" else max", "        opt_func = max if mode == \"min\" else min", "break", "R-MODE.b"),
    ("ocv_return_swapped", _R, "    return best_value, best_cost", "    return best_cost, best_value", "break", "R-SLOTS"),
    ("ocv_pair_swapped", _R, "            (variable.cost_for_val(value), value) for value in variable.domain", "            (value, variable.cost_for_val(value)) for value in variable.domain", "break", "R-SLOTS"),
    ("fopt_flip", _R, "        elif mode == \"max\" and rel_val > optimum:", "        elif mode == \"max\" and rel_val < optimum:", "break", "R-MODE.b"),
    ("proj_mode_dropped", _R, "        _, rel_val = find_arg_optimal(a_var, a_rel.slice(partial), mode)", "        _, rel_val = find_arg_optimal(a_var, a_rel.slice(partial), \"max\")", "break", "R-MODE.a"),
    ("proj_no_copy", _R, "    remaining_vars = a_rel.dimensions.copy()", "    remaining_vars = a_rel.dimensions", "break", "R-SLOTS"),
    ("proj_stores_values", _R, "        _, rel_val = find_arg_optimal(a_var, a_rel.slice(partial), mode)", "        rel_val, _ = find_arg_optimal(a_var, a_rel.slice(partial), mode)", "break", "R-SLOTS"),
    ("adsa_unpack_swapped", "pydcop/algorithms/adsa.py", "value, current_cost = optimal_cost_value(self._variable, self.mode)", "current_cost, value = optimal_cost_value(self._variable, self.mode)", "break", "R-SLOTS"),
    ("adsa_twin_flip", "pydcop/algorithms/adsa.py", "self.mode == \"min\" and cost < best_cost", "self.mode == \"min\" and cost > best_cost", "break", "R-MODE.b"),
    ("adsa_twin_owncost_current", "pydcop/algorithms/adsa.py", "            cost += self.variable.cost_for_val(value)", "            cost += self.variable.cost_for_val(self.current_value)", "break", "R-OWNCOST"),
    ("dsa_move_any_value", "pydcop/algorithms/dsa.py", "            self.value_selection(random.choice(best_values), best_cost)", "            self.value_selection(random.choice(self.variable.domain), best_cost)", "break", "R-MOVE"),
    ("dsa_variant_args_swapped", "pydcop/algorithms/dsa.py", "                self.variant_b(delta, best_cost, args_best)", "                self.variant_b(delta, args_best, best_cost)", "break", "R-MOVE"),
    ("dsa_remove_unguarded", "pydcop/algorithms/dsa.py", "        elif delta == 0:\n            if len(best_values) > 1:\n                try:", "        elif delta == 0:\n            if len(best_values) > 0:\n                try:", "break", "R-MOVE"),
    ("dsa_mode_const", "pydcop/algorithms/dsa.py", "                self.variable, assignment, self.constraints, self.mode\n            )\n            current_cost", "                self.variable, assignment, self.constraints, \"min\"\n            )\n            current_cost", "break", "R-MODE.a"),
    ("dsatuto_worst", "pydcop/algorithms/dsatuto.py", "            self.value_selection(arg_min[0])", "            self.value_selection(self.variable.domain[0])", "break", "R-MOVE"),
    ("dsa_memo_by_values", "pydcop/algorithms/dsa.py", "            self.current_cycle[self.variable.name] = self.current_value\n            assignment = self.current_cycle.copy()\n            args_best, best_cost = find_optimal(\n                self.variable, assignment, self.constraints, self.mode\n            )",
     "            seen = tuple(self.current_cycle.values())\n            self.current_cycle[self.variable.name] = self.current_value\n            assignment = self.current_cycle.copy()\n            if seen not in self._best_responses:\n                self._best_responses[seen] = find_optimal(\n                    self.variable, assignment, self.constraints, self.mode\n                )\n            args_best, best_cost = self._best_responses[seen]", "break", "R-MOVE"),
    ("n_dsa_memo_by_items", "pydcop/algorithms/dsa.py", "            self.current_cycle[self.variable.name] = self.current_value\n            assignment = self.current_cycle.copy()\n            args_best, best_cost = find_optimal(\n                self.variable, assignment, self.constraints, self.mode\n            )",
     "            self.current_cycle[self.variable.name] = self.current_value\n            seen = frozenset(self.current_cycle.items())\n            assignment = self.current_cycle.copy()\n            if seen not in self._best_responses:\n                self._best_responses[seen] = find_optimal(\n                    self.variable, assignment, self.constraints, self.mode\n                )\n            args_best, best_cost = self._best_responses[seen]", "neutral"),
    ("n_cmp_swapped_operands", _R, "            mode == \"min\" and best_rel_val > current_rel_val", "            mode == \"min\" and current_rel_val < best_rel_val", "neutral"),
    ("n_owncost_unconditional", _R, "        if hasattr(variable, \"cost_for_val\"):\n            cost += variable.cost_for_val(value)", "        cost += variable.cost_for_val(value)", "neutral"),
    ("n_math_inf", _R, "    arg_best, best_cost = [], float(\"inf\")\n    if mode == \"max\":\n        arg_best, best_cost = [], -float(\"inf\")", "    arg_best, best_cost = [], np.inf\n    if mode == \"max\":\n        arg_best, best_cost = [], -np.inf", "neutral"),
]
