"""C02 - SyncBB terminates with an optimal assignment on binary DCOPs.

Optimality is not decided.  Decided (structure of SyncBBComputation and of its
helpers), each a necessary condition:

* R-MODE      every get_next_assignment call passes the computation's objective;
              every bound update is strict and objective-coherent (a tie never
              replaces the best assignment); the bound starts at +inf / -inf;
* R-TOKEN     single token: every path of the forward / backward handlers sends
              exactly one message (or finishes after sending terminate), forward
              messages go to the next variable, backward ones to the previous;
              a lone variable finishes in on_start;
* R-TERMINATE finished() at the first variable is accompanied by a terminate
              message to the next one; the terminate handler forwards it (when
              there is a next variable) and finishes, on every path;
* R-PROTO     forward / backward / terminate have handlers; constructor calls
              pass exactly the declared fields;
* R-PATH      the received path is never mutated (copy / slice before append);
              the own element appended is (own name, value, cost); on backtrack
              the own element is the last of the path and the search resumes
              after its value on the path without it;
* R-NEXT      get_next_assignment: candidates are the domain values after the
              current one; the cost of a candidate sums, over every element of
              the path, *all* the constraints shared with that element; a
              candidate is returned only with its cost against the whole path
              (never after a pruning break); pruning only when minimising, by
              `>=` against the bound;
* R-BOUND     the bound changes only where a better full assignment is known and
              the value is re-selected in the same step;
* R-CHAIN     chain links of the ordered graph (shared with C16).
"""
import ast

from ..model import walk_no_nested, norm, call_name, is_self_attr, is_self_call
from ..facts import FuncFacts, facts_at, stmt_paths, count_paths, calls_hit
from ..report import Ctx, AnalysisError
from ..effects import field_writes, fact_set, class_self_calls, stmt_has_self_call
from ..flow import bound_arg, local_defs
from .. import moderules

S = "pydcop.algorithms.syncbb"
C = "SyncBBComputation"
MSG = {"SyncBBForwardMessage": "forward", "SyncBBBackwardMessage": "backward", "SyncBBTerminateMessage": "terminate"}


def _posts(st):
    return [c for c in walk_no_nested(st) if isinstance(c, ast.Call) and is_self_call(c, "post_msg") and len(c.args) >= 2]


def _kind(f, e, stmts):
    if isinstance(e, ast.Name):
        d = [s.value for s in stmts if isinstance(s, ast.Assign) and norm(s.targets[0]) == e.id]
        e = d[-1] if d else e
    if isinstance(e, ast.Call) and call_name(e) in MSG:
        return call_name(e), e
    return None, None


def check(ctx: Ctx):
    repo = ctx.repo
    ctx.decided = ("objective propagation and strict, coherent bound updates; single-token discipline of the handlers and their targets; termination "
                   "chain; message types/arity; path copy and own-element handling; candidate enumeration, full-path costing with all shared "
                   "constraints and pruning rule of get_next_assignment; who writes the bound; chain links.")
    ctx.undecided = "optimality of the assignment held at termination (pruning soundness assumes non-negative costs); schedules."
    ctx.rule("R-MODE", "objective passed to get_next_assignment; bound updates strict and coherent with the objective; +/-inf start")
    ctx.rule("R-TOKEN", "exactly one message per handled message (single token); forward -> next, backward -> previous")
    ctx.rule("R-TERMINATE", "finishing at the first variable sends terminate down the chain; the terminate handler forwards and finishes")
    ctx.rule("R-PROTO", "message types have handlers; constructor arity = declared fields")
    ctx.rule("R-PATH", "received path never mutated; own element (name, value, cost) appended / read back in the same shape")
    ctx.rule("R-NEXT", "get_next_assignment: later domain values; cost over the whole path with all shared constraints; no return after a pruning break; pruning only under min with >=")
    ctx.rule("R-BOUND", "the bound changes only with a better full assignment and the value is re-selected in the same step")
    ctx.rule("R-CHAIN", "ordered graph: nodes sorted by name; next(n1->n2) on n1, previous(n2->n1) on n2")
    cls = repo.cls(S, C)
    ctx.touch(cls)
    fw = repo.func(S, f"{C}.on_forward_message")
    bw = repo.func(S, f"{C}.on_backward_msg")
    tm = repo.func(S, f"{C}.on_terminate_message")
    st = repo.func(S, f"{C}.on_start")
    gna = repo.func(S, "get_next_assignment")
    for f in (fw, bw, tm, st, gna):
        ctx.touch(f)
    # ---- mode ------------------------------------------------------------------------------------
    n = moderules.check_mode_args(ctx, list(cls.methods.values()), "R-MODE")
    if n < 3:
        raise AnalysisError(f"R-MODE: {n} calls of get_next_assignment in SyncBBComputation (floor 3)")
    ws = field_writes(cls, "mode")
    ctx.check(len(ws) == 1 and ws[0].func.name == "__init__" and norm(ws[0].value).endswith(".algo.mode"), "R-MODE", "SyncBB mode = algorithm definition's mode", cls, ws[0].stmt if ws else cls.node, "")
    moderules.check_comparator_coherence(ctx, fw, "R-MODE", need_both=True, need_strict=True)
    moderules.check_comparator_coherence(ctx, bw, "R-MODE", need_both=True, need_strict=True)
    for w in field_writes(cls, "upper_bound"):
        if w.func.name == "__init__":
            v = w.value
            ok = isinstance(v, ast.IfExp) and norm(v.test) in ("self.mode == 'min'",) and norm(v.body) in ("INFINITY", "float('inf')") and norm(v.orelse) in ("-INFINITY", "-float('inf')", "float('-inf')")
            ctx.check(ok, "R-MODE", "the bound starts at +inf when minimising and -inf when maximising", w.func, w.stmt, "any first full assignment must improve the initial bound")
    inf = repo.module(S).assigns.get("INFINITY")
    ctx.check(inf is not None and norm(inf) == "float('inf')", "R-MODE", "INFINITY is float('inf')", repo.module(S), inf, "")
    # ---- protocol -----------------------------------------------------------------------------------
    mts = repo.message_types()
    table = repo.handler_table(cls)
    for cname, t in MSG.items():
        decl = mts.get((S, cname))
        ctx.check(decl is not None and decl[0] == t and table.get(t) is not None, "R-PROTO", f"{cname} is type '{t}' and has a handler", cls, cls.node, f"declared {decl[:2] if decl else None}")
    for f in cls.methods.values():
        for c in ast.walk(f.node):
            if isinstance(c, ast.Call) and call_name(c) in MSG:
                decl = mts.get((S, call_name(c)))
                ctx.check(decl is not None and len(c.args) + len(c.keywords) == len(decl[1]), "R-PROTO", f"{call_name(c)}(..) passes its {len(decl[1]) if decl else '?'} declared fields", f, c,
                          "a message built with missing fields cannot be read by its handler nor serialised")
    # ---- token ---------------------------------------------------------------------------------------
    for f in (fw, bw):
        n_paths = 0
        for p in stmt_paths(f.node.body):
            if p.exit == "raise":
                continue
            n_paths += 1
            posts = [(c, s) for s in p.stmts for c in _posts(s)]
            # posts inside loops do not exist in these handlers (a While is opaque: check it holds none)
            ok1 = len(posts) == 1
            ctx.check(ok1, "R-TOKEN", f"{f.name}: exactly one message is sent on every path", f, (posts[0][0] if posts else (p.stmts or [f.node])[-1]),
                      f"{len(posts)} messages on a path: SyncBB passes a single token along the chain; zero stops the search for ever, two duplicate it")
            if not ok1:
                continue
            c, s_ = posts[0]
            kind, call = _kind(f, c.args[1], p.stmts)
            tgt = norm(c.args[0])
            fin = [s for s in p.stmts if stmt_has_self_call(s, "finished")]
            if kind == "SyncBBForwardMessage":
                ctx.check(tgt == "self.next_var" and not fin, "R-TOKEN", f"{f.name}: forward goes to the next variable", f, c, "")
            elif kind == "SyncBBBackwardMessage":
                ctx.check(tgt == "self.previous_var" and not fin, "R-TOKEN", f"{f.name}: backward goes to the previous variable", f, c, "")
            elif kind == "SyncBBTerminateMessage":
                first = p.has_fact("self.previous_var is None", True)
                ctx.check(tgt == "self.next_var" and first and len(fin) == 1, "R-TERMINATE", f"{f.name}: the first variable, out of values, sends terminate to the next one and finishes", f, c,
                          "only the head of the chain can conclude that the search space is exhausted")
            else:
                ctx.bad("R-TOKEN", f"{f.name}: message kind", f, c, "unrecognised message")
            if fin and kind != "SyncBBTerminateMessage":
                ctx.bad("R-TERMINATE", f"{f.name}: finished() without terminate", f, fin[0], "finishing is only licensed at the head of the chain when no value is left, together with the terminate message")
        if n_paths < 4:
            raise AnalysisError(f"{f.name}: only {n_paths} paths")
        for w in ast.walk(f.node):
            if isinstance(w, (ast.While, ast.For)):
                ctx.check(not [c for c in ast.walk(w) if isinstance(c, ast.Call) and is_self_call(c, "post_msg")], "R-TOKEN", f"{f.name}: no message sent from inside a loop", f, w, "")
    # on_start
    n_head = 0
    for p in stmt_paths(st.node.body):
        head = p.has_fact("self.previous_var is None", True)
        posts = [c for s in p.stmts for c in _posts(s)]
        fin = [s for s in p.stmts if stmt_has_self_call(s, "finished")]
        if head and p.has_fact("self.next_var is None", True):
            ctx.check(len(fin) == 1 and not posts and any(stmt_has_self_call(s, "value_selection") for s in p.stmts), "R-TOKEN", "on_start: a lone variable selects a value and finishes (nobody to send the path to)", st, (fin or [st.node])[0], "")
        elif head:
            n_head += 1
            ok = len(posts) == 1 and norm(posts[0].args[0]) == "self.next_var" and _kind(st, posts[0].args[1], p.stmts)[0] == "SyncBBForwardMessage" and not fin
            if ok:
                _, call = _kind(st, posts[0].args[1], p.stmts)
                pth = call.args[0]
                d = [s.value for s in p.stmts if isinstance(s, ast.Assign) and norm(s.targets[0]) == norm(pth)]
                ok = len(d) == 1 and norm(d[0]) == "[(self.variable.name, self.variable.domain[0], 0)]"
                ok = ok and (p.has_fact("self.next_var is None", False) or p.has_fact("self.next_var is not None", True))
            ctx.check(ok, "R-TOKEN", "on_start: the head of the chain creates the token: path [(own name, first value, 0)] forwarded to the next variable (which exists)", st, posts[0] if posts else st.node,
                      "the search starts with exactly one token")
        else:
            ctx.check(not posts and not fin, "R-TOKEN", "on_start: the other variables wait for the token", st, (posts or fin or [st.node])[0], "")
    ctx.check(n_head == 1, "R-TOKEN", "on_start has one path for the head of the chain", st, st.node, "")
    # terminate handler
    n_fwd = 0
    for p in stmt_paths(tm.node.body):
        if (p.has_fact("self.next_var is not None", True) or p.has_fact("self.next_var is None", False)) and any(_posts(s_) for s_ in p.stmts):
            n_fwd += 1
    ctx.check(n_fwd >= 1, "R-TERMINATE", "terminate handler: some path forwards the terminate message to the next variable", tm, tm.node,
              "without forwarding, only the second variable of the chain ever learns that the search is over")
    for p in stmt_paths(tm.node.body):
        posts = [c for s in p.stmts for c in _posts(s)]
        fin = [s for s in p.stmts if stmt_has_self_call(s, "finished")]
        has_next = p.has_fact("self.next_var is not None", True) or p.has_fact("self.next_var is None", False)
        ok = len(fin) == 1 and ((has_next and len(posts) == 1 and norm(posts[0].args[0]) == "self.next_var" and _kind(tm, posts[0].args[1], p.stmts)[0] == "SyncBBTerminateMessage") or (not has_next and not posts))
        ctx.check(ok, "R-TERMINATE", "terminate handler: forward terminate when there is a next variable, then finish", tm, (fin or [tm.node])[0],
                  "the terminate message must reach every computation of the chain")
    # ---- path -------------------------------------------------------------------------------------------
    t = norm(fw.node)
    mp = fw.params[2]
    ok = f"current_path = {mp}.current_path" in t
    np_ = [s for s in ast.walk(fw.node) if isinstance(s, ast.Assign) and norm(s.targets[0]) == "new_path"]
    ok = ok and len(np_) == 1 and norm(np_[0].value) in ("current_path.copy()", "current_path[:]", "list(current_path)")
    app = [c for c in ast.walk(fw.node) if isinstance(c, ast.Call) and norm(c.func) == "new_path.append"]
    ok = ok and len(app) == 1 and norm(app[0].args[0]) == "(self.variable.name, value, cost)"
    muts = [c for c in ast.walk(fw.node) if isinstance(c, ast.Call) and isinstance(c.func, ast.Attribute) and norm(c.func.value) == "current_path" and c.func.attr in ("append", "pop", "extend", "insert", "remove", "clear")]
    ctx.check(ok and not muts, "R-PATH", "forward: the received path is copied, the own element (name, value, cost) appended to the copy", fw, np_[0] if np_ else fw.node,
              "in thread mode a message is passed by reference: mutating the received path changes the sender's view of it")
    tb = norm(bw.node)
    mpb = bw.params[2]
    ok = f"current_path = {mpb}.current_path" in tb and "var, val, cost = current_path[-1]" in tb
    npb = [s for s in ast.walk(bw.node) if isinstance(s, ast.Assign) and norm(s.targets[0]) == "new_path"]
    ok = ok and len(npb) == 1 and norm(npb[0].value) == "current_path[:-1]"
    appb = [c for c in ast.walk(bw.node) if isinstance(c, ast.Call) and norm(c.func) == "new_path.append"]
    ok = ok and len(appb) == 1 and norm(appb[0].args[0]) == "(self.variable.name, new_val, new_cost)" and "new_val, new_cost = next_val" in tb
    mutb = [c for c in ast.walk(bw.node) if isinstance(c, ast.Call) and isinstance(c.func, ast.Attribute) and norm(c.func.value) == "current_path" and c.func.attr in ("append", "pop", "extend", "insert", "remove", "clear")]
    ctx.check(ok and not mutb, "R-PATH", "backward: the own element is the last of the path; the new path is the path without it (a copy) plus the new own element", bw, npb[0] if npb else bw.node, "")
    # calls of get_next_assignment: (variable, current value, constraints, path, bound, mode)
    want = {fw: [("None", "current_path"), ("value", "current_path")], bw: [("val", "current_path[:-1]")]}
    for f, exp in want.items():
        calls = [c for c in ast.walk(f.node) if isinstance(c, ast.Call) and call_name(c) == "get_next_assignment"]
        got = []
        for c in calls:
            a = {pn: bound_arg(c, gna, pn, skip_self=False) for pn in gna.params}
            got.append((norm(a["current_value"]), norm(a["current_path"])))
            ctx.check(norm(a["variable"]) == "self.variable" and norm(a["constraints"]) == "self.constraints" and norm(a["upper_bound"]) == "self.upper_bound", "R-PATH",
                      f"{f.name}: get_next_assignment(own variable, .., own constraints, .., own bound, ..)", f, c, "")
        ctx.check(sorted(got) == sorted(exp), "R-PATH", f"{f.name}: the search resumes after the right value on the right path", f, calls[0] if calls else f.node,
                  f"expected (current value, path) pairs {exp}, found {got}")
    # the only pruning is the one of get_next_assignment: in both handlers the candidate comes from that call alone, made unconditionally
    for f, var in ((bw, "next_val"),):
        defs = [a for a in ast.walk(f.node) if isinstance(a, (ast.Assign, ast.AugAssign, ast.AnnAssign)) and any(norm(t_) == var for t_ in (a.targets if isinstance(a, ast.Assign) else [a.target]))]
        okc = len(defs) == 1 and defs[0] in f.node.body and isinstance(defs[0].value, ast.Call) and call_name(defs[0].value) == "get_next_assignment"
        extra = next((d for d in defs if not (isinstance(getattr(d, "value", None), ast.Call) and call_name(d.value) == "get_next_assignment") or d not in f.node.body), None)
        ctx.check(okc, "R-PATH", f"{f.name}: the next candidate is whatever get_next_assignment returns (one unconditional call, no other binding)", f, extra or (defs[0] if defs else f.node),
                  "skipping the scan of the remaining values, or discarding its result, under a local condition (path cost against the bound, a bound of 0, ..) prunes "
                  "sub-trees that may hold the optimum: get_next_assignment already compares every candidate with the bound in the direction of the objective")
    # ---- next assignment ---------------------------------------------------------------------------------
    _next(ctx, repo, gna)
    # ---- bound -------------------------------------------------------------------------------------------
    for w in field_writes(cls, "upper_bound"):
        if w.func.name == "__init__":
            continue
        blk = _block_of(w.func.node, w.stmt)
        i = blk.index(w.stmt)
        nxt = blk[i + 1] if i + 1 < len(blk) else None
        sel = nxt is not None and stmt_has_self_call(nxt, "value_selection")
        if w.func is fw:
            ok = norm(w.value) == "best_bound" and ("best_val is not None", True) in w.facts and sel and norm([c for c in walk_no_nested(nxt) if isinstance(c, ast.Call)][0].args[0]) == "best_val"
            ctx.check(ok, "R-BOUND", "last variable: the bound becomes the best full-assignment cost found, and that value is selected", w.func, w.stmt, "")
        elif w.func is bw:
            ok = norm(w.value) == f"{mpb}.ub" and sel and norm([c for c in walk_no_nested(nxt) if isinstance(c, ast.Call)][0].args[0]) == "val"
            ctx.check(ok, "R-BOUND", "backward: a better bound is adopted together with the own value of the path that achieved it", w.func, w.stmt,
                      "every variable must hold the value it has in the best full assignment")
        else:
            ctx.bad("R-BOUND", f"bound changed in {w.func.name}", w.func, w.stmt, "")
    # value_selection only with a bound update (or lone variable)
    for f, c, facts, ff in class_self_calls(cls, "value_selection"):
        if f.name == "on_start":
            continue
        blk = _block_of(f.node, ff.stmt(c))
        i = blk.index(ff.stmt(c))
        prev = blk[i - 1] if i > 0 else None
        ctx.check(prev is not None and isinstance(prev, ast.Assign) and is_self_attr(prev.targets[0], "upper_bound"), "R-BOUND", f"{f.name}: a value is (re)selected only when the bound improves", f, c,
                  "the values held at termination must be those of the best assignment found")
    # last-variable loop: tries every remaining value
    # either rotation of the loop: `while True: .. nv = next(..); if nv is None: break; value, cost = nv` or `while nv is not None: value, cost = nv; .. nv = next(..)`
    wl = [w for w in ast.walk(fw.node) if isinstance(w, ast.While)]
    ok = len(wl) == 1 and not wl[0].orelse
    if ok:
        w = wl[0]
        nv = "next_value"
        brk = [b for b in ast.walk(w) if isinstance(b, ast.Break)]
        ffw = FuncFacts(fw.node)
        tst = norm(w.test)
        if tst == "True":
            # the only way out is `nv is None`, tested right after the scan for the next candidate
            okx = len(brk) == 1 and any(isinstance(st_, ast.If) and norm(st_.test) == f"{nv} is None" and not st_.orelse and len(st_.body) == 1 and st_.body[0] is brk[0] for st_ in w.body)
        else:
            okx = tst == f"{nv} is not None" and not brk
        scans = [st_ for st_ in w.body if isinstance(st_, ast.Assign) and norm(st_.targets[0]) == nv and isinstance(st_.value, ast.Call) and call_name(st_.value) == "get_next_assignment"]
        others = [n_ for n_ in ast.walk(w) if isinstance(n_, ast.Name) and n_.id == nv and isinstance(n_.ctx, ast.Store)]
        unp = [st_ for st_ in ast.walk(fw.node) if isinstance(st_, ast.Assign) and norm(st_.value) == nv and isinstance(st_.targets[0], ast.Tuple) and len(st_.targets[0].elts) == 2]
        in_loop_unp = [u for u in unp if any(x is u for x in ast.walk(w))]
        ok = okx and len(scans) == 1 and len(others) == 1 and len(in_loop_unp) == 1 and in_loop_unp[0] in w.body
        if ok:
            val_n, cost_n = [norm(e) for e in in_loop_unp[0].targets[0].elts]
            # the scan resumes after the value just examined
            ok = len(scans[0].value.args) >= 2 and norm(scans[0].value.args[1]) == val_n
            # in the `while True` rotation the first candidate is unpacked before the loop; in the other one at the top of the body
            if tst == "True":
                wb = _block_of(fw.node, w)
                pre = [u for u in unp if u in wb and wb.index(u) < wb.index(w)]
                ok = ok and len(pre) == 1 and w.body.index(scans[0]) < w.body.index(in_loop_unp[0])
            else:
                ok = ok and w.body[0] is in_loop_unp[0] and w.body[-1] is scans[0]
        ok = ok and "path_bound = sum((c for _, _, c in current_path))" in t
    ctx.check(ok, "R-BOUND", "last variable: every admissible value is compared with the best bound before backtracking", fw, wl[0] if wl else fw.node, "")
    # ---- chain (shared with C16) ----------------------------------------------------------------------
    from . import c16 as _c16
    _c16._chain(ctx, repo)
    ini = repo.func(S, f"{C}.__init__")
    ti = norm(ini.node)
    ctx.check("self.next_var: VarName = node.get_next()" in ti and "self.previous_var: VarName = node.get_previous()" in ti, "R-CHAIN", "next / previous variables come from the node's order links", ini, ini.node, "")
    ctx.floor("R-TOKEN", 10)
    ctx.floor("R-NEXT", 6)
    ctx.floor("R-MODE", 8)


def _block_of(fnode, st):
    for n in ast.walk(fnode):
        for fld in ("body", "orelse", "finalbody"):
            blk = getattr(n, fld, None)
            if isinstance(blk, list) and any(s is st for s in blk):
                return blk
    return [st]


def _next(ctx, repo, gna):
    ff = FuncFacts(gna.node)
    pv, pcur, pcons, ppath, pub, pmode = gna.params[:6]
    d = local_defs(gna, "candidates")
    ok = len(d) == 1 and norm(d[0]) == f"get_value_candidates({pv}, {pcur})"
    ctx.check(ok, "R-NEXT", "candidates = domain values after the current one", gna, gna.node, "")
    gvc = repo.func(S, "get_value_candidates")
    ctx.touch(gvc)
    gv_, gc_ = gvc.params[0], gvc.params[1]
    ffv = FuncFacts(gvc.node)
    # (1) no current value: the whole domain, in domain order
    whole = [x for x in ast.walk(gvc.node) if (isinstance(x, ast.Return) and x.value is not None and norm(x.value) == f"list({gv_}.domain)")
             or (isinstance(x, ast.Assign) and norm(x.value) == f"list({gv_}.domain)")]
    ok = len(whole) == 1 and (f"{gc_} is None", True) in {(norm(a), b) for a, b in facts_at(ffv, whole[0])}
    # (2) otherwise: the values after the current one; append-before-mark excludes the current value itself
    loop = [l for l in ast.walk(gvc.node) if isinstance(l, ast.For) and norm(l.iter) == f"{gv_}.domain"]
    ok = ok and len(loop) == 1
    if ok:
        lv = norm(loop[0].target)
        ok = (f"{gc_} is None", False) in {(norm(a), b) for a, b in facts_at(ffv, loop[0])} or (f"{gc_} is not None", True) in {(norm(a), b) for a, b in facts_at(ffv, loop[0])}
        n_app = n_mark = 0
        for p_ in stmt_paths(loop[0].body):
            app = [i for i, s_ in enumerate(p_.stmts) if isinstance(s_, ast.Expr) and isinstance(s_.value, ast.Call) and norm(s_.value.func).endswith(".append") and [norm(a) for a in s_.value.args] == [lv]]
            mark = [i for i, s_ in enumerate(p_.stmts) if isinstance(s_, ast.Assign) and isinstance(s_.value, ast.Constant) and s_.value.value is True]
            if app:
                n_app += 1
            if mark:
                n_mark += 1
                ok = ok and (p_.has_fact(f"{lv} != {gc_}", False) or p_.has_fact(f"{lv} == {gc_}", True) or p_.has_fact(f"{gc_} != {lv}", False) or p_.has_fact(f"{gc_} == {lv}", True))
                ok = ok and (not app or app[0] < mark[0])
                fl = norm(p_.stmts[mark[0]].targets[0])
                # the append is licensed by the flag
                for q_ in stmt_paths(loop[0].body):
                    if any(isinstance(s_, ast.Expr) and isinstance(s_.value, ast.Call) and norm(s_.value.func).endswith(".append") for s_ in q_.stmts):
                        ok = ok and q_.has_fact(fl, True)
            else:
                ok = ok and (not app or True)
        ok = ok and n_app >= 1 and n_mark >= 1
        inits = [a for a in ast.walk(gvc.node) if isinstance(a, ast.Assign) and isinstance(a.value, ast.Constant) and a.value.value is False]
        ok = ok and len(inits) == 1 and not any(n is inits[0] for n in ast.walk(loop[0]))
    ctx.check(ok, "R-NEXT", "get_value_candidates: all values when there is no current value, otherwise exactly those after it in domain order", gvc, gvc.node,
              "re-trying the current value loops for ever; skipping one loses part of the search space")
    cl = [l for l in gna.node.body if isinstance(l, ast.For) and norm(l.iter) == "candidates"]
    if len(cl) != 1:
        ctx.bad("R-NEXT", "loop over the candidates", gna, gna.node, "")
        return
    cl = cl[0]
    cand = norm(cl.target)
    pl = [l for l in cl.body if isinstance(l, ast.For) and norm(l.iter) == ppath]
    if len(pl) != 1:
        ctx.bad("R-NEXT", "loop over the path elements", gna, cl, "the cost of a candidate is its cost against every element of the path")
        return
    pl = pl[0]
    var, val, _ = [norm(e) for e in pl.target.elts]
    # all shared constraints
    ac = [c for c in ast.walk(pl) if isinstance(c, ast.Call) and call_name(c) == "assignment_cost"]
    ok = len(ac) == 1
    if ok:
        a0 = ac[0].args[0]
        ok = isinstance(a0, ast.Dict) and sorted(norm(k) + ":" + norm(v) for k, v in zip(a0.keys, a0.values)) == sorted([f"{var}:{val}", f"{pv}.name:{cand}"])
        cons = ac[0].args[1]
        cd = [s.value for s in pl.body if isinstance(s, ast.Assign) and norm(s.targets[0]) == norm(cons)]
        ok = ok and len(cd) == 1 and norm(cd[0]) == f"constraints_for_variable({pcons}, {var})"
    ctx.check(ok, "R-NEXT", "cost against a path element = assignment_cost({element variable: its value, own: candidate}, all own constraints involving that variable)", gna, ac[0] if ac else pl,
              "several constraints may share the same pair of variables: all of them count")
    cfv = repo.func(S, "constraints_for_variable")
    r = [x for x in walk_no_nested(cfv.node) if isinstance(x, ast.Return)]
    ok = len(r) == 1 and norm(r[0].value) == f"[c for c in {cfv.params[0]} if {cfv.params[1]} in c.scope_names]"
    ctx.check(ok, "R-NEXT", "constraints_for_variable keeps every constraint whose scope contains the variable", cfv, r[0] if r else cfv.node, "")
    acc = [s for s in pl.body if isinstance(s, ast.AugAssign) and isinstance(s.op, ast.Add) and norm(s.target) == "candidate_cost"]
    init = [s for s in cl.body if isinstance(s, ast.Assign) and norm(s.targets[0]) == "candidate_cost" and norm(s.value) == "0"]
    ctx.check(len(acc) == 1 and len(init) == 1 and cl.body.index(init[0]) < cl.body.index(pl) and acc[0] in pl.body, "R-NEXT", "the candidate's cost restarts at 0 for each candidate and accumulates over every path element", gna, acc[0] if acc else pl, "")
    # returns inside the candidate loop
    rets = [r_ for r_ in ast.walk(cl) if isinstance(r_, ast.Return)]
    n_full = 0
    for r_ in rets:
        fs = {(norm(a), b) for a, b in facts_at(ff, r_)}
        if (f"not {ppath}", True) in fs or (ppath, False) in fs:
            ctx.check(norm(r_.value) == f"({cand}, 0)", "R-NEXT", "empty path: the first candidate costs 0", gna, r_, "")
            continue
        inside_inner = any(n is r_ for b_ in pl.body for n in ast.walk(b_))
        val_ok = isinstance(r_.value, ast.Tuple) and [norm(e) for e in r_.value.elts] == [cand, "candidate_cost"]
        # not inside the inner loop, after it, and guarded by the absence of a pruning break (flag or for-else)
        brk = [b for b in ast.walk(pl) if isinstance(b, ast.Break)]
        in_else = r_ in pl.orelse or any(n is r_ for s in pl.orelse for n in ast.walk(s))
        flag_ok = False
        if brk and not in_else and not inside_inner:
            # every break is preceded, in its block, by `<flag> = True`, and the return is under `not <flag>`, flag reset per candidate
            flags = set()
            okb = True
            for b in brk:
                blk = _block_of(gna.node, b)
                i = blk.index(b)
                prev = blk[i - 1] if i > 0 else None
                if isinstance(prev, ast.Assign) and isinstance(prev.value, ast.Constant) and prev.value.value is True and isinstance(prev.targets[0], ast.Name):
                    flags.add(prev.targets[0].id)
                else:
                    okb = False
            if okb and len(flags) == 1:
                fl = next(iter(flags))
                reset = [s for s in cl.body if isinstance(s, ast.Assign) and norm(s.targets[0]) == fl and isinstance(s.value, ast.Constant) and s.value.value is False and cl.body.index(s) < cl.body.index(pl)]
                flag_ok = bool(reset) and ((f"not {fl}", True) in fs or (fl, False) in fs)
        n_full += 1
        ctx.check(val_ok and not inside_inner and (in_else or flag_ok or not brk), "R-NEXT", "a candidate is returned only with its cost against the whole path, never after a pruning break", gna, r_,
                  "returning a value recorded before the break accepts a candidate whose later constraints exceed the bound, with a partial cost: the bound computed at the end of the chain is then below the true cost")
    ctx.check(n_full == 1, "R-NEXT", "one return of (candidate, cost) per candidate loop", gna, cl, f"{n_full} found")
    # no result variable assigned inside the inner loop and returned later
    leaks = [s for s in ast.walk(pl) if isinstance(s, ast.Assign) and isinstance(s.value, ast.Tuple) and cand in [norm(e) for e in s.value.elts]]
    ctx.check(not leaks, "R-NEXT", "no (candidate, partial cost) pair is recorded inside the path loop", gna, leaks[0] if leaks else pl, "")
    # pruning
    brks = [b for b in ast.walk(pl) if isinstance(b, ast.Break)]
    prunes = [i for i in ast.walk(pl) if isinstance(i, ast.If) and any(isinstance(b, ast.Break) for b in ast.walk(i))]
    ok = len(brks) == 1
    if ok:
        gs = [g for g in ff.guards_at(brks[0]) if g.kind == "if" and any(n is g.node for n in ast.walk(pl))]
        tests = [g.node.test for g in gs if g.pol]
        ok = len(tests) == len(gs) and bool(tests)
        atoms = []
        for tt in tests:
            atoms += tt.values if isinstance(tt, ast.BoolOp) and isinstance(tt.op, ast.And) else [tt]
        # a named boolean stands for its (single) definition
        ndefs = {}
        for a_ in ast.walk(gna.node):
            if isinstance(a_, ast.Assign) and len(a_.targets) == 1 and isinstance(a_.targets[0], ast.Name):
                ndefs.setdefault(a_.targets[0].id, []).append(a_.value)
        atoms = [ndefs[a.id][0] if isinstance(a, ast.Name) and len(ndefs.get(a.id, [])) == 1 else a for a in atoms]
        modes = [a for a in atoms if norm(a) in (f"{pmode} == 'min'", f"'min' == {pmode}")]
        rest = [a for a in atoms if a not in modes]
        comps = [c for a in rest for c in ast.walk(a) if isinstance(c, ast.Compare)]
        ok = ok and len(modes) == 1 and bool(comps) and all(len(c.ops) == 1 and isinstance(c.ops[0], ast.GtE) and norm(c.comparators[0]) == pub for c in comps) and any(norm(c.left) == "candidate_cost" for c in comps) \
            and all(isinstance(a, ast.Compare) or (isinstance(a, ast.BoolOp) and isinstance(a.op, ast.Or)) for a in rest)
    ctx.check(ok, "R-NEXT", "pruning: only when minimising, when the accumulated cost reaches the bound (>=)", gna, prunes[0] if prunes else pl,
              "partial sums are lower bounds of the final cost only for minimisation; a strict test keeps equal-cost assignments that cannot improve the bound, a test under max prunes improvable ones")
    last = gna.node.body[-1]
    ctx.check(isinstance(last, ast.Return) and norm(last.value) == "None", "R-NEXT", "None when no candidate is admissible", gna, last, "")


_S = "pydcop/algorithms/syncbb.py"
_OG = "pydcop/computations_graph/ordered_graph.py"
VARIANTS = [
    ("last_var_scan_not_resumed", _S, "                    next_value = get_next_assignment(\n                        self.variable,\n                        value,\n                        self.constraints,\n                        current_path,\n                        self.upper_bound,\n                        self.mode,\n                    )\n                    if next_value is None:\n                        break",
     "                    next_value = get_next_assignment(\n                        self.variable,\n                        None,\n                        self.constraints,\n                        current_path,\n                        self.upper_bound,\n                        self.mode,\n                    )\n                    if next_value is None:\n                        break", "break", "R-BOUND"),
    ("last_var_loop_leaves_on_first_non_improving", _S, "                    elif self.mode == \"max\" and path_bound + cost > best_bound:\n                        best_bound = path_bound + cost\n                        best_val = value\n",
     "                    elif self.mode == \"max\" and path_bound + cost > best_bound:\n                        best_bound = path_bound + cost\n                        best_val = value\n                    else:\n                        break\n", "break", "R-BOUND"),
    ("n_last_var_loop_rotated", _S, ["                value, cost = next_value\n                best_val, best_bound = None, self.upper_bound\n                while True:\n", "                    if next_value is None:\n                        break\n                    value, cost = next_value\n                if best_val is not None:"],
     ["                best_val, best_bound = None, self.upper_bound\n                while next_value is not None:\n                    value, cost = next_value\n", "                if best_val is not None:"], "neutral"),
    ("backward_prunes_on_own_path_cost", _S, "        next_val = get_next_assignment(\n            self.variable,\n            val,\n            self.constraints,\n            current_path[:-1],\n            self.upper_bound,\n            self.mode,\n        )\n        if next_val is not None:",
     "        next_val = None\n        if self.mode == \"max\" or sum(c for _, _, c in current_path) < self.upper_bound:\n            next_val = get_next_assignment(\n                self.variable,\n                val,\n                self.constraints,\n                current_path[:-1],\n                self.upper_bound,\n                self.mode,\n            )\n        if next_val is not None:", "break", "R-PATH"),
    ("first_variable_stops_on_zero_bound", _S, "            self.upper_bound,\n            self.mode,\n        )\n        if next_val is not None:\n            new_val, new_cost = next_val\n            new_path = current_path[:-1]",
     "            self.upper_bound,\n            self.mode,\n        )\n        if self.previous_var is None and self.upper_bound == 0:\n            next_val = None\n        if next_val is not None:\n            new_val, new_cost = next_val\n            new_path = current_path[:-1]", "break", "R-PATH"),
    ("tie_replaces_best", _S, "                    if self.mode == \"min\" and path_bound + cost < best_bound:", "                    if self.mode == \"min\" and path_bound + cost <= best_bound:", "break", "R-MODE"),
    ("single_constraint_per_pair", _S, "            var_constraints = constraints_for_variable(constraints, var)\n", "            var_constraints = constraints_for_variable(constraints, var)[:1]\n", "break", "R-NEXT"),
    ("n_candidates_guard_clause", _S, "    candidates = []\n    if current_value is None:\n        candidates = list(variable.domain)\n    else:", "    if current_value is None:\n        return list(variable.domain)\n    candidates = []\n    if True:", "neutral"),
    ("candidates_include_current", _S, "            if reached:\n                candidates.append(v)\n            if v != current_value:\n                continue\n            else:\n                reached = True", "            if v != current_value and not reached:\n                continue\n            reached = True\n            candidates.append(v)", "break", "R-NEXT"),
    ("partial_cost_returned", _S, "        pruned = False\n        for var, val, elt_cost in current_path:", "        pruned = False\n        found = None\n        for var, val, elt_cost in current_path:", "neutral"),
    ("return_after_break", _S, "        if not pruned:\n            return candidate, candidate_cost", "        return candidate, candidate_cost", "break", "R-NEXT"),
    ("prune_under_max", _S, "            if mode == \"min\" and (\n                candidate_cost >= upper_bound or ass_cost + elt_cost >= upper_bound\n            ):", "            if (\n                candidate_cost >= upper_bound or ass_cost + elt_cost >= upper_bound\n            ):", "break", "R-NEXT"),
    ("backward_adopts_worse", _S, "        if self.mode == \"min\" and recv_msg.ub < self.upper_bound:", "        if self.mode == \"min\" and recv_msg.ub > self.upper_bound:", "break", "R-MODE"),
    ("path_mutated", _S, "                new_path = current_path.copy()\n", "                new_path = current_path\n", "break", "R-PATH"),
    ("two_tokens", _S, "                self.post_msg(\n                    self.next_var, SyncBBForwardMessage(new_path, self.upper_bound)\n                )\n                self.new_cycle()\n\n    @register(\"backward\")",
     "                self.post_msg(\n                    self.next_var, SyncBBForwardMessage(new_path, self.upper_bound)\n                )\n                self.post_msg(\n                    self.previous_var, SyncBBBackwardMessage(current_path, self.upper_bound)\n                )\n                self.new_cycle()\n\n    @register(\"backward\")", "break", "R-TOKEN"),
    ("terminate_not_forwarded", _S, "        if self.next_var is not None:\n            self.post_msg(self.next_var, SyncBBTerminateMessage())\n        self.new_cycle()\n        self.finished()", "        self.new_cycle()\n        self.finished()", "break", "R-TERMINATE"),
    ("head_finishes_silently", _S, "                self.finished()\n                self.post_msg(self.next_var, SyncBBTerminateMessage())\n                self.new_cycle()", "                self.finished()\n                self.new_cycle()", "break", "R-"),
    ("backtrack_resumes_from_start", _S, "        next_val = get_next_assignment(\n            self.variable,\n            val,", "        next_val = get_next_assignment(\n            self.variable,\n            None,", "break", "R-PATH"),
    ("value_not_reselected", _S, "            self.upper_bound = recv_msg.ub\n            self.value_selection(val, self.upper_bound)\n        elif self.mode == \"max\"", "            self.upper_bound = recv_msg.ub\n        elif self.mode == \"max\"", "break", "R-BOUND"),
    ("mode_not_passed", _S, "            current_path[:-1],\n            self.upper_bound,\n            self.mode,\n        )", "            current_path[:-1],\n            self.upper_bound,\n            \"min\",\n        )", "break", "R-MODE"),
    ("chain_case_insensitive", _OG, "        sorted_nodes = sorted(self.nodes, key=lambda n: n.name)", "        sorted_nodes = sorted(self.nodes, key=lambda n: n.name.lower())", "break", "R-CHAIN"),
    ("terminate_arity", _S, "                self.post_msg(self.next_var, SyncBBTerminateMessage())\n                self.new_cycle()\n\n                self.finished()", "                self.post_msg(self.next_var, SyncBBTerminateMessage(current_path))\n                self.new_cycle()\n\n                self.finished()", "break", "R-PROTO"),
    ("n_for_else_form", _S, "        pruned = False\n        for var, val, elt_cost in current_path:\n            var_constraints = constraints_for_variable(constraints, var)\n            # This only works for binary constraints, we could extend it to n-ary constraints\n            ass_cost = assignment_cost(\n                {var: val, variable.name: candidate}, var_constraints\n            )\n            candidate_cost += ass_cost\n            if mode == \"min\" and (\n                candidate_cost >= upper_bound or ass_cost + elt_cost >= upper_bound\n            ):\n                pruned = True\n                break  # Try next value in domain.\n        # The candidate is only acceptable once its cost against the *whole*\n        # path is known and within the bound.\n        if not pruned:\n            return candidate, candidate_cost\n",
     "        for var, val, elt_cost in current_path:\n            var_constraints = constraints_for_variable(constraints, var)\n            ass_cost = assignment_cost(\n                {var: val, variable.name: candidate}, var_constraints\n            )\n            candidate_cost += ass_cost\n            if mode == \"min\" and (\n                candidate_cost >= upper_bound or ass_cost + elt_cost >= upper_bound\n            ):\n                break\n        else:\n            return candidate, candidate_cost\n", "neutral"),
]
