"""C12 - matrix updates, join and projection follow their algebraic definition.

Decided: R-API on relations.py, R-ALIAS (copy before write, relations are
values), list/dict sibling agreement of set_value_for_assignment, join pairing
(each relation evaluated on the assignment filtered by *its own* dimensions,
combined by +, result over u1's dimensions then u2's new ones, result rebinding),
R-ALIGN (raw tables of two relations are only combined under a proof of equal
dimension order), projection structure and mode propagation.
"""
import ast

from ..model import walk_no_nested, norm, call_name, is_self_attr, FuncInfo, ModuleInfo
from ..facts import FuncFacts, facts_at
from ..report import Ctx, AnalysisError
from .. import apirules as A
from .. import moderules as M
from .. import relrules as RR
from .c06 import _check_projection

REL = "pydcop.dcop.relations"
FRESH_FUNCS = {"np.copy", "numpy.copy", "np.array", "numpy.array", "deepcopy", "copy.deepcopy", "copy.copy"}
LIST_MUT = {"append", "remove", "pop", "insert", "extend", "sort", "reverse", "clear"}


def is_fresh_copy(v: ast.AST, src: str) -> bool:
    """v evaluates to a new array holding a copy of `src` (e.g. self._m)."""
    if isinstance(v, ast.Call):
        fn = norm(v.func)
        kw = {k.arg: norm(k.value) for k in v.keywords}
        if fn in FRESH_FUNCS and v.args and norm(v.args[0]) == src:
            return kw.get("copy", "True") != "False"
        if isinstance(v.func, ast.Attribute) and norm(v.func.value) == src:
            if v.func.attr == "copy":
                return True
            if v.func.attr == "astype":
                return kw.get("copy", "True") != "False"
    return False


def check(ctx: Ctx):
    repo = ctx.repo
    m = repo.module(REL)
    ctx.decided = ("relations.py only uses numpy/stdlib entry points that exist; set_value_for_assignment writes into a "
                   "fresh copy of the table in both (list / dict) forms, indexes both through the same dimension-ordered "
                   "slice and returns a new relation over the same variables and name; no relation method mutates the "
                   "relation; join ranges over u1's dimensions then u2's new ones, evaluates each relation on the "
                   "assignment filtered by its own dimensions, adds the two values, rebinds the result of every update; "
                   "raw tables of two relations are never combined without equal dimension order; projection copies the "
                   "dimension list, removes the projected variable, optimises it with the caller's mode on the sliced "
                   "relation and stores the optimal cost.")
    ctx.undecided = "equality of the resulting tables for concrete numeric inputs; dtype overflow of very large integers."
    ctx.rule("R-API", "only existing library entry points are used (module attributes, ndarray methods, imports)")
    ctx.rule("R-ALIAS", "a table is written only through a fresh copy; dimension lists obtained from a relation are copied before mutation")
    ctx.rule("R-IMMUT", "relation methods other than __init__ never store into the relation")
    ctx.rule("R-SIBLING", "the list and dict forms of set_value_for_assignment index, store and return alike")
    ctx.rule("R-PAIRING", "join evaluates each operand on the assignment filtered by that operand's own dimensions and adds the values")
    ctx.rule("R-ALIGN", "raw tables of two different relations are combined only under a guard establishing equal dimension order")
    ctx.rule("R-SLOTS", "projection: copy of dimensions minus the projected variable, optimum cost stored per remaining assignment")
    ctx.rule("R-MODE.a", "projection forwards its mode argument")

    ctx.touch(m)
    A.check_imports(ctx, m, "R-API")
    A.check_module_attrs(ctx, m, "R-API")
    for f in repo.all_functions(m):
        A.check_ndarray_methods(ctx, f, "R-API")
        A.check_sequence_apis(ctx, f, "R-API")
    ctx.floor("R-API", 20)

    nmr = repo.cls(REL, "NAryMatrixRelation")
    sv = repo.func(REL, "NAryMatrixRelation.set_value_for_assignment")
    _check_set_value(ctx, repo, sv)
    _check_immut(ctx, repo, m)
    _check_dim_alias(ctx, repo, [m, repo.module("pydcop.algorithms.dpop")])
    join = repo.func(REL, "join")
    _check_join(ctx, join)
    n_align = 0
    for f in list(repo.all_functions(m)) + list(repo.all_functions(repo.module("pydcop.algorithms.dpop"))):
        n_align += _check_align(ctx, f)
    # zero sites expected today: the matcher must still fire on its positive fixture
    fx = ast.parse(_ALIGN_FIXTURE).body[0]
    fake = type("F", (), {})()
    cnt = _align_sites(fx)
    if len(cnt) != 1:
        raise AnalysisError("R-ALIGN matcher does not recognise its positive fixture")
    if n_align == 0:
        ctx.ok("R-ALIGN", "no unguarded raw-table combination in relations.py / dpop.py (fixture matched)", m, None)
    # values leave the table as Python numbers: arithmetic on numpy scalars of a narrow dtype wraps around silently
    ctx.rule("R-SCALAR", "get_value_for_assignment returns <table>.item() (a Python number), not a numpy scalar of the table's dtype")
    RR.check_matrix_scalar(ctx, "R-SCALAR")
    # projection takes, for every remaining assignment, the optimum found by find_arg_optimal: a strictly better value must replace the running optimum
    ctx.rule("R-TIES", "find_arg_optimal (projection's optimiser): only exact ties are ties; a strictly better value replaces the running optimum")
    RR.check_fao_ties(ctx, "R-TIES")
    proj = repo.func(REL, "projection")
    M.check_mode_args(ctx, [proj], "R-MODE.a")
    _check_projection(ctx, proj)
    # slicing index helper: domain index of each sliced value, full slice otherwise, in dimension order
    _check_slice_matrix(ctx, repo.func(REL, "NAryMatrixRelation._slice_matrix"))


_ALIGN_FIXTURE = '''
def fast(u1, u2):
    if u1.shape == u2.shape:
        return R(u1.dimensions, u1._m + u2._m)
'''


def _check_set_value(ctx, repo, sv: FuncInfo):
    ctx.touch(sv)
    p_vals, p_rel = sv.params[1], sv.params[2]
    ff = FuncFacts(sv.node)
    # the function is executed by cases on the kind of `var_values` (list / dict / anything else): whatever the arrangement of the tests
    # (if / elif, guard clause first, shared tail), each kind yields the straight-line sequence of statements that runs for it
    from ..facts import exec_under
    branches = {}
    outcomes = {}
    for kind in ("list", "dict", "other"):
        def atom(e, kind=kind):
            t = norm(e)
            if t == f"isinstance({p_vals}, list)":
                return kind == "list"
            if t == f"isinstance({p_vals}, dict)":
                return kind == "dict"
            return None
        eff, k = exec_under([s_ for s_ in sv.node.body if not (isinstance(s_, ast.Expr) and isinstance(s_.value, ast.Constant))], atom, opaque=True)
        outcomes[kind] = k
        if kind != "other" and k == "return":
            branches[kind] = eff
    if set(branches) != {"list", "dict"}:
        ctx.bad("R-SIBLING", "set_value_for_assignment: list and dict forms", sv, sv.node,
                f"both assignment forms must be handled, found branches for {sorted(branches)} (outcomes {outcomes})")
        return
    shapes = {}
    for kind, body in branches.items():
        mod = ast.Module(body=body, type_ignores=[])
        # the store
        stores = [n for n in ast.walk(mod) if isinstance(n, ast.Assign) and isinstance(n.targets[0], ast.Subscript)
                  and isinstance(n.targets[0].value, ast.Name)]
        mcalls = [c for c in ast.walk(mod) if isinstance(c, ast.Call) and isinstance(c.func, ast.Attribute)
                  and c.func.attr in ("itemset", "put", "fill", "__setitem__") and isinstance(c.func.value, ast.Name)]
        if len(stores) + len(mcalls) != 1:
            ctx.bad("R-SIBLING", f"set_value[{kind}]: exactly one store", sv, body[0], "each form must store the new value exactly once")
            continue
        if stores:
            arr, idx, val, node = stores[0].targets[0].value.id, norm(stores[0].targets[0].slice), norm(stores[0].value), stores[0]
        else:
            c = mcalls[0]
            arr, idx, val, node = c.func.value.id, norm(c.args[0]) if c.args else None, norm(c.args[-1]) if c.args else None, c
        ctx.check(val == p_rel, "R-SIBLING", f"set_value[{kind}]: stores the given value", sv, node, f"the stored value must be '{p_rel}'")
        binds = [n for n in ast.walk(mod) if isinstance(n, ast.Assign) and norm(n.targets[0]) == arr]
        okf = len(binds) == 1 and is_fresh_copy(binds[0].value, "self._m")
        ctx.check(okf, "R-ALIAS", f"set_value[{kind}]: table copied before the write", sv, binds[0] if binds else node,
                  f"'{arr}' must be a fresh copy of self._m (np.copy / .copy()); otherwise the write lands in the original relation "
                  f"(np.asarray, views and astype(copy=False) alias the source)")
        # index from _slice_matrix over all variable names in dimension order
        sl = [n for n in ast.walk(mod) if isinstance(n, ast.Assign) and isinstance(n.value, ast.Call) and is_self_attr(n.value.func, "_slice_matrix")]
        oki = False
        values_expr = None
        if len(sl) == 1 and isinstance(sl[0].targets[0], ast.Tuple) and len(sl[0].targets[0].elts) == 2:
            oki = norm(sl[0].targets[0].elts[1]) == idx and len(sl[0].value.args) >= 2 and \
                norm(sl[0].value.args[0]) == "[v.name for v in self._variables]"
            values_expr = norm(sl[0].value.args[1])
        ctx.check(oki, "R-SIBLING", f"set_value[{kind}]: index = _slice_matrix(all dimension names, values)[1]", sv, sl[0] if sl else node,
                  "the cell index must be computed by _slice_matrix over all dimension names")
        if kind == "list":
            # straight-line copies (`values = var_values`) are followed back
            for _i in range(3):
                cp_ = [n for n in body if isinstance(n, ast.Assign) and len(n.targets) == 1 and norm(n.targets[0]) == values_expr and isinstance(n.value, ast.Name)]
                if values_expr != p_vals and len(cp_) == 1 and sl and body.index(cp_[0]) < body.index(sl[0]):
                    values_expr = cp_[0].value.id
            ctx.check(values_expr == p_vals, "R-SIBLING", "set_value[list]: values are the given list", sv, sl[0] if sl else node,
                      "the list form must use the given values in dimension order")
        else:
            # values built in dimension order from the dict
            okd = False
            if values_expr:
                loops = [n for n in ast.walk(mod) if isinstance(n, ast.For) and norm(n.iter) == "self._variables"]
                comp = [n for n in ast.walk(mod) if isinstance(n, ast.Assign) and norm(n.targets[0]) == values_expr and isinstance(n.value, ast.ListComp)]
                if loops:
                    lv = norm(loops[0].target)
                    apps = [c for c in ast.walk(loops[0]) if isinstance(c, ast.Call) and norm(c.func) == f"{values_expr}.append"]
                    okd = len(apps) == 1 and norm(apps[0].args[0]) == f"{p_vals}[{lv}.name]"
                elif comp:
                    g = comp[0].value.generators[0]
                    okd = norm(g.iter) == "self._variables" and norm(comp[0].value.elt) == f"{p_vals}[{norm(g.target)}.name]"
            ctx.check(okd, "R-SIBLING", "set_value[dict]: values taken per variable in dimension order", sv, body[0],
                      "the dict form must read one value per dimension variable, in dimension order, by variable name")
        rets = [r for r in ast.walk(mod) if isinstance(r, ast.Return)]
        okr = len(rets) == 1 and isinstance(rets[0].value, ast.Call) and call_name(rets[0].value) == "NAryMatrixRelation"
        if okr:
            a = [norm(x) for x in rets[0].value.args]
            kw = {k.arg: norm(k.value) for k in rets[0].value.keywords}
            full = a + [kw.get("matrix")] if len(a) == 1 else a
            okr = a[0] == "self._variables" and (len(a) > 1 and a[1] == arr or kw.get("matrix") == arr) and \
                (kw.get("name") in ("self.name", "self._name") or (len(a) > 2 and a[2] in ("self.name", "self._name")))
        ctx.check(okr, "R-SIBLING", f"set_value[{kind}]: returns a new relation (same variables, new table, same name)", sv,
                  rets[0] if rets else body[-1], "the result must be NAryMatrixRelation(self._variables, <copied table>, name=self.name)")
        shapes[kind] = (idx, val)
    ctx.check(outcomes["other"] == "raise", "R-SIBLING", "set_value: other assignment kinds rejected", sv, sv.node.body[-1], "anything but list/dict must raise")


def _relation_classes(repo, m: ModuleInfo):
    out = []
    for c in m.classes.values():
        if repo.is_subclass(c, REL, "RelationProtocol") and c.name not in ("RelationProtocol",):
            out.append(c)
    return out


def _check_immut(ctx, repo, m):
    n = 0
    for c in _relation_classes(repo, m):
        for meth in c.methods.values():
            if meth.name == "__init__":
                continue
            for node in walk_no_nested(meth.node):
                tg = []
                if isinstance(node, ast.Assign):
                    tg = node.targets
                elif isinstance(node, (ast.AugAssign, ast.AnnAssign)):
                    tg = [node.target]
                for t in tg:
                    for e in (t.elts if isinstance(t, (ast.Tuple, ast.List)) else [t]):
                        if is_self_attr(e):
                            if c.name == "NAryMatrixRelation" and meth.name == "_simple_repr" and e.attr == "_matrix":
                                continue  # transient scratch field used by the generic encoder, reset to None
                            n += 1
                            ctx.bad("R-IMMUT", f"{c.name}.{meth.name} stores self.{e.attr}", meth, node, "relations are values: methods must not modify the relation")
                        if isinstance(e, ast.Subscript) and any(is_self_attr(x) for x in ast.walk(e.value)):
                            n += 1
                            ctx.bad("R-IMMUT", f"{c.name}.{meth.name} writes into {norm(e.value)}", meth, node, "in-place write into the relation's own table")
                if isinstance(node, ast.Call) and isinstance(node.func, ast.Attribute) and node.func.attr in LIST_MUT | {"itemset", "fill", "put", "resize"} \
                        and is_self_attr(node.func.value):
                    n += 1
                    ctx.bad("R-IMMUT", f"{c.name}.{meth.name}: {norm(node.func)}()", meth, node, "in-place mutation of the relation's own state")
    if n == 0:
        ctx.ok("R-IMMUT", f"{len(_relation_classes(repo, m))} relation classes: no method stores into self", m, None)


def _check_dim_alias(ctx, repo, mods):
    """a local bound to `<rel>.dimensions` (the relation's own list) must not
    be mutated; copies (`[:]`, `.copy()`, `list(..)`) are fine."""
    n = 0
    for m in mods:
        for f in repo.all_functions(m):
            alias = {}
            for node in walk_no_nested(f.node):
                if isinstance(node, ast.Assign) and len(node.targets) == 1 and isinstance(node.targets[0], ast.Name):
                    v = node.value
                    if isinstance(v, ast.Attribute) and v.attr in ("dimensions", "_variables"):
                        alias[node.targets[0].id] = node
                    elif node.targets[0].id in alias:
                        del alias[node.targets[0].id]
            for node in walk_no_nested(f.node):
                if isinstance(node, ast.Call) and isinstance(node.func, ast.Attribute) and node.func.attr in LIST_MUT:
                    recv = node.func.value
                    if isinstance(recv, ast.Name) and recv.id in alias and node.lineno > alias[recv.id].lineno:
                        n += 1
                        ctx.bad("R-ALIAS", f"{f.qualname}: {recv.id}.{node.func.attr}() on a relation's own dimension list", f, node,
                                f"'{recv.id}' is the relation's internal variable list (no copy was taken): mutating it corrupts the relation")
                    if isinstance(recv, ast.Attribute) and recv.attr == "dimensions":
                        n += 1
                        ctx.bad("R-ALIAS", f"{f.qualname}: {norm(recv)}.{node.func.attr}()", f, node, "in-place mutation of a relation's dimension list")
    if n == 0:
        ctx.ok("R-ALIAS", "dimension lists are copied before mutation", mods[0], None)


def _check_join(ctx, join: FuncInfo):
    ctx.touch(join)
    u1, u2 = join.params[:2]
    body = join.node
    # dims
    d0 = [n for n in walk_no_nested(body) if isinstance(n, ast.Assign) and norm(n.targets[0]) == "dims"]
    okd = len(d0) == 1 and norm(d0[0].value) in (f"{u1}.dimensions[:]", f"list({u1}.dimensions)", f"{u1}.dimensions.copy()")
    ctx.check(okd, "R-PAIRING", "join: result dimensions start as a copy of u1's", join, d0[0] if d0 else body,
              "dims must start as a copy of the first operand's dimensions")
    ext = [n for n in walk_no_nested(body) if isinstance(n, ast.For) and norm(n.iter) == f"{u2}.dimensions"]
    oke = False
    if len(ext) == 1:
        lv = norm(ext[0].target)
        ifs = [s for s in ext[0].body if isinstance(s, ast.If)]
        oke = len(ifs) == 1 and norm(ifs[0].test) == f"{lv} not in dims" and len(ifs[0].body) == 1 and norm(ifs[0].body[0]) == f"dims.append({lv})"
    ctx.check(oke, "R-PAIRING", "join: u2's new dimensions appended once", join, ext[0] if ext else body,
              "every dimension of the second operand that is not yet present must be appended (scope = union)")
    # accumulation loop
    loops = [n for n in walk_no_nested(body) if isinstance(n, ast.For) and norm(n.iter) == "generate_assignment_as_dict(dims)"]
    if len(loops) != 1:
        ctx.bad("R-PAIRING", "join: every assignment of the union scope is visited", join, body, "join must enumerate all assignments of the result dimensions")
        return
    lp = loops[0]
    av = norm(lp.target)
    local = {}
    for n in lp.body:
        if isinstance(n, ast.Assign) and isinstance(n.targets[0], ast.Name):
            local[n.targets[0].id] = n.value

    def resolve(e):
        if isinstance(e, ast.Name) and e.id in local:
            return local[e.id]
        return e

    def operand_ok(call, u):
        """u(**filter_assignment_dict(ass, u.dimensions))"""
        if not (isinstance(call, ast.Call) and norm(call.func) == u and not call.args and len(call.keywords) == 1 and call.keywords[0].arg is None):
            return False
        inner = resolve(call.keywords[0].value)
        return isinstance(inner, ast.Call) and call_name(inner) == "filter_assignment_dict" and [norm(a) for a in inner.args] == [av, f"{u}.dimensions"]
    sets = [n for n in ast.walk(lp) if isinstance(n, ast.Assign) and isinstance(n.value, ast.Call) and call_name(n.value) == "set_value_for_assignment"]
    oks = len(sets) == 1 and norm(sets[0].targets[0]) == norm(sets[0].value.func.value) and len(sets[0].value.args) == 2 and norm(sets[0].value.args[0]) == av
    ctx.check(oks, "R-PAIRING", "join: each update is stored at the visited assignment and the result is rebound", join, sets[0] if sets else lp,
              "u_j = u_j.set_value_for_assignment(<assignment>, <sum>): relations are immutable, a dropped rebinding loses the update")
    if oks:
        s = resolve(sets[0].value.args[1])
        okp = isinstance(s, ast.BinOp) and isinstance(s.op, ast.Add) and \
            ((operand_ok(s.left, u1) and operand_ok(s.right, u2)) or (operand_ok(s.left, u2) and operand_ok(s.right, u1)))
        ctx.check(okp, "R-PAIRING", "join: value = u1(own-filtered assignment) + u2(own-filtered assignment)", join, sets[0],
                  "each operand must be evaluated on the assignment filtered by *its own* dimensions and the two values added")
        res = norm(sets[0].targets[0])
        inits = [n for n in walk_no_nested(body) if isinstance(n, ast.Assign) and norm(n.targets[0]) == res and not any(x is n for x in ast.walk(lp))]
        oki = len(inits) == 1 and isinstance(inits[0].value, ast.Call) and call_name(inits[0].value) == "NAryMatrixRelation" and norm(inits[0].value.args[0]) == "dims"
        ctx.check(oki, "R-PAIRING", "join: result relation ranges over dims", join, inits[0] if inits else body, "the result must be a relation over the union dimensions")
        rets = [r for r in walk_no_nested(body) if isinstance(r, ast.Return)]
        for r in rets:
            if norm(r.value) == res and not any(x is r for x in ast.walk(lp)):
                ctx.ok("R-PAIRING", "join returns the accumulated relation", join, r)
            else:
                # an additional exit: only legitimate under a proof that nothing needs aligning
                ff = FuncFacts(join.node)
                facts = {norm(t) for t, p in facts_at(ff, r) if p}
                aligned = any(f"{u1}.dimensions == {u2}.dimensions" in t or f"{u2}.dimensions == {u1}.dimensions" in t for t in facts)
                ctx.check(aligned, "R-ALIGN", "join: early exit", join, r,
                          "a result that does not come from the per-assignment loop is only correct when both operands have the same dimensions in the same order")
        if not rets:
            ctx.bad("R-PAIRING", "join returns", join, body, "join must return the accumulated relation")


def _align_sites(func_node):
    """expressions combining the raw tables (._m) of two different receivers."""
    out = []
    for e in ast.walk(func_node):
        if isinstance(e, (ast.BinOp, ast.Call, ast.Compare)):
            recv = set()
            kids = [e.left, e.right] if isinstance(e, ast.BinOp) else (list(e.args) if isinstance(e, ast.Call) else [])
            for k in kids:
                for x in ast.walk(k):
                    if isinstance(x, ast.Attribute) and x.attr == "_m":
                        recv.add(norm(x.value))
            if len(recv) >= 2 and not (isinstance(e, ast.Call) and call_name(e) in ("all", "array_equal", "allclose")):
                out.append(e)
    # keep outermost only
    outer = [e for e in out if not any(e is not o and any(x is e for x in ast.walk(o)) for o in out)]
    return outer


def _check_align(ctx, f: FuncInfo) -> int:
    sites = _align_sites(f.node)
    if not sites:
        return 0
    ff = FuncFacts(f.node)
    for e in sites:
        recv = sorted({norm(x.value) for x in ast.walk(e) if isinstance(x, ast.Attribute) and x.attr == "_m"})
        facts = {norm(t) for t, p in facts_at(ff, e) if p}
        ok = any(f"{a}.dimensions == {b}.dimensions" in t for t in facts for a in recv for b in recv if a != b)
        ctx.check(ok, "R-ALIGN", f"{f.qualname}: raw tables of {recv} combined", f, e,
                  "the axes of two tables only correspond when both relations list the same variables in the same order; "
                  "equal shapes / arities do not establish that")
    return len(sites)


def _check_slice_matrix(ctx, sm: FuncInfo):
    ctx.touch(sm)
    loops = [n for n in walk_no_nested(sm.node) if isinstance(n, ast.For) and norm(n.iter) == "self._variables"]
    ok = False
    if loops:
        lp = loops[-1]
        lv = norm(lp.target)
        txt = norm(lp)
        ok = f"{lv}.domain.index(" in txt and "slice(None)" in txt and "slices.append" in txt
        ifs = [s for s in lp.body if isinstance(s, ast.If)]
        ok = ok and len(ifs) == 1 and norm(ifs[0].test).startswith(f"{lv}.name in ")
        # kept variables are those not sliced
        ok = ok and any(isinstance(c, ast.Call) and norm(c.func).endswith(".append") and norm(c.args[0]) == lv for s in ifs[0].orelse for c in ast.walk(s))
    ctx.check(ok, "R-SIBLING", "_slice_matrix: per dimension, domain index of the sliced value or a full slice, in dimension order", sm,
              loops[-1] if loops else sm.node, "the index tuple must follow the dimension order of the relation")
    rets = [r for r in walk_no_nested(sm.node) if isinstance(r, ast.Return)]
    ctx.check(len(rets) == 1 and isinstance(rets[0].value, ast.Tuple) and len(rets[0].value.elts) == 2 and norm(rets[0].value.elts[1]) == "tuple(slices)",
              "R-SIBLING", "_slice_matrix returns (remaining variables, index tuple)", sm, rets[0] if rets else sm.node, "slot order (variables, index)")


_R = "pydcop/dcop/relations.py"
VARIANTS = [
    ("projection_optimum_tie_by_tolerance", "pydcop/dcop/relations.py", "        elif current_rel_val == best_rel_val:", "        elif abs(current_rel_val - best_rel_val) < 1e-9:", "break", "R-TIES"),
    ("value_as_numpy_scalar", "pydcop/dcop/relations.py", "        elif isinstance(var_values, dict):\n            u = self.slice(var_values)\n            return u._m.item()", "        elif isinstance(var_values, dict):\n            u = self.slice(var_values)\n            return u._m[()]", "break", "R-SCALAR"),
    ("itemset_back", _R, "            matrix = np.copy(self._m)\n            matrix[s] = rel_value\n            return NAryMatrixRelation(self._variables, matrix, name=self.name)\n        raise",
     "            matrix = np.copy(self._m)\n            matrix.itemset(s, rel_value)\n            return NAryMatrixRelation(self._variables, matrix, name=self.name)\n        raise", "break", "R-API"),
    ("asarray_alias", _R, "            _, s = self._slice_matrix([v.name for v in self._variables], var_values)\n            matrix = np.copy(self._m)", "            _, s = self._slice_matrix([v.name for v in self._variables], var_values)\n            matrix = np.asarray(self._m, dtype=np.float64)", "break", "R-ALIAS"),
    ("no_copy_dict", _R, "            _, s = self._slice_matrix([v.name for v in self._variables], values)\n            matrix = np.copy(self._m)", "            _, s = self._slice_matrix([v.name for v in self._variables], values)\n            matrix = self._m", "break", "R-ALIAS"),
    ("dict_values_order", _R, "            for v in self._variables:\n                values.append(var_values[v.name])", "            for v in var_values:\n                values.append(var_values[v])", "break", "R-SIBLING"),
    ("result_loses_name", _R, "            matrix[s] = rel_value\n            return NAryMatrixRelation(self._variables, matrix, name=self.name)\n\n        elif", "            matrix[s] = rel_value\n            return NAryMatrixRelation(self._variables, matrix)\n\n        elif", "break", "R-SIBLING"),
    ("inplace_setter", _R, "    @staticmethod\n    def from_func_relation", "    def set_in_place(self, s, v):\n        self._m[s] = v\n\n    @staticmethod\n    def from_func_relation", "break", "R-IMMUT"),
    ("join_fast_path", _R, "    u_j = NAryMatrixRelation(dims, name=\"joined_utils\")\n", "    if isinstance(u1, NAryMatrixRelation) and isinstance(u2, NAryMatrixRelation) and u1.shape == u2.shape and len(dims) == u2.arity:\n        return NAryMatrixRelation(dims, u1._m + u2._m, name=\"joined_utils\")\n    u_j = NAryMatrixRelation(dims, name=\"joined_utils\")\n", "break", "R-ALIGN"),
    ("join_wrong_filter", _R, "        u2_ass = filter_assignment_dict(ass, u2.dimensions)", "        u2_ass = filter_assignment_dict(ass, u1.dimensions)", "break", "R-PAIRING"),
    ("join_sub", _R, "        s = u1(**u1_ass) + u2(**u2_ass)", "        s = u1(**u1_ass) - u2(**u2_ass)", "break", "R-PAIRING"),
    ("join_no_rebind", _R, "        u_j = u_j.set_value_for_assignment(ass, s)", "        u_j.set_value_for_assignment(ass, s)", "break", "R-PAIRING"),
    ("join_dims_alias", _R, "    dims = u1.dimensions[:]", "    dims = u1.dimensions", "break"),
    ("join_scope_not_union", _R, "        if d2 not in dims:\n            dims.append(d2)\n\n    u_j", "        if d2 not in u1.dimensions:\n            dims.append(d2)\n\n    u_j", "break", "R-PAIRING"),
    ("proj_wrong_var_removed", _R, "    remaining_vars.remove(a_var)", "    remaining_vars.pop()", "break", "R-SLOTS"),
    ("proj_default_mode_used", _R, "        _, rel_val = find_arg_optimal(a_var, a_rel.slice(partial), mode)", "        _, rel_val = find_arg_optimal(a_var, a_rel.slice(partial), \"min\")", "break", "R-MODE.a"),
    ("slice_index_order", _R, "        for v in self._variables:\n            if v.name in s_vars:\n                slice_index = s_vars.index(v.name)", "        for v in sorted(self._variables, key=lambda x: x.name):\n            if v.name in s_vars:\n                slice_index = s_vars.index(v.name)", "break", "R-SIBLING"),
    ("n_copy_method", _R, "            _, s = self._slice_matrix([v.name for v in self._variables], var_values)\n            matrix = np.copy(self._m)", "            _, s = self._slice_matrix([v.name for v in self._variables], var_values)\n            matrix = self._m.copy()", "neutral"),
    ("n_join_inline", _R, "        u1_ass = filter_assignment_dict(ass, u1.dimensions)\n        u2_ass = filter_assignment_dict(ass, u2.dimensions)\n        s = u1(**u1_ass) + u2(**u2_ass)", "        s = u2(**filter_assignment_dict(ass, u2.dimensions)) + u1(**filter_assignment_dict(ass, u1.dimensions))", "neutral"),
    ("n_join_aligned_fast_path", _R, "    u_j = NAryMatrixRelation(dims, name=\"joined_utils\")\n", "    if isinstance(u1, NAryMatrixRelation) and isinstance(u2, NAryMatrixRelation) and u1.dimensions == u2.dimensions:\n        return NAryMatrixRelation(dims, u1._m + u2._m, name=\"joined_utils\")\n    u_j = NAryMatrixRelation(dims, name=\"joined_utils\")\n", "neutral"),
]
