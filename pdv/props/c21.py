"""C21 - an agent runs its computations on a single thread, one call at a time.

Decided statically (thread confinement / who-may-call over the resolved call
graph): the callbacks of a hosted computation (start / stop / pause /
on_message and the handlers behind it / periodic actions / discovery
callbacks) are reachable only from the agent's own loop `Agent._run`; every
function that runs on another thread (orchestrator API and timers, command
line entry points, communication-layer receive paths, helper threads) reaches
them only by queueing a message.  Not decided: races inside a callback on
data shared with other agents, and callbacks reached through receivers the
analysis cannot type (counted in the evidence).
"""
import ast

from ..model import walk_no_nested, norm, call_name, is_self_attr, stmt_key
from ..callgraph import CallGraph
from ..report import Ctx

AG = "pydcop.infrastructure.agents"
ORC = "pydcop.infrastructure.orchestrator"
COMPS = "pydcop.infrastructure.computations"
COMM = "pydcop.infrastructure.communication"
DISC = "pydcop.infrastructure.discovery"

LIFECYCLE = {"start", "stop", "pause", "on_message", "on_start", "on_stop", "on_pause"}
AGENT_LOOP_ONLY = {"_handle_message", "_process_periodic_action", "_on_start", "_on_stop"}
# deployment API of Agent that registers a computation with discovery (and may therefore fire discovery
# callbacks inline) but is documented for use while wiring an agent, before its computations run: the
# discovery-callback clause is not decided through these two entries (see DESIGN C21)
WIRING_API = {"add_computation", "__init__"}


def _scope(repo):
    return [m for m in repo.modules if m.startswith(("pydcop.infrastructure", "pydcop.commands", "pydcop.replication", "pydcop.reparation", "pydcop.algorithms"))
            and ".tests" not in m]


def build(repo):
    cg = CallGraph(repo, _scope(repo))
    comp = repo.cls(COMPS, "MessagePassingComputation")
    agent = repo.cls(AG, "Agent")
    as_roots = [comp, agent, repo.cls(DISC, "Discovery"), repo.cls(DISC, "Directory"), repo.cls(COMM, "Messaging"), repo.cls(COMM, "CommunicationLayer")]
    side = set()
    for c in repo.all_classes():
        m = repo.mro(c)
        if any(r in m for r in as_roots) or c.name == "MPCHttpHandler":
            side.add(c.fq)
    is_comp = lambda c: c is not None and comp in repo.mro(c)
    is_agent = lambda c: c is not None and agent in repo.mro(c)
    # ---- confined functions --------------------------------------------------------------------------
    cf = {}
    for c in repo.all_classes():
        if is_comp(c):
            for n, f in c.methods.items():
                if n in LIFECYCLE:
                    cf[f.fq] = "computation life-cycle callback"
            for t, h in repo.handler_table(c).items():
                cf.setdefault(h.fq, f"handler of message '{t}'")
        if is_agent(c):
            for n, f in c.methods.items():
                if n in AGENT_LOOP_ONLY:
                    cf[f.fq] = "agent loop step"
    # indirect handlers of AgentsMgt: names given to Orchestrator._mgt_method
    orch = repo.cls(ORC, "Orchestrator")
    mgt = repo.cls(ORC, "AgentsMgt")
    mgt_names = set()
    for f in orch.methods.values():
        for c in walk_no_nested(f.node):
            if isinstance(c, ast.Call) and is_self_attr(c.func, "_mgt_method") and c.args and isinstance(c.args[0], ast.Constant):
                mgt_names.add(c.args[0].value)
                h = repo.lookup_method(mgt, c.args[0].value)
                if h is not None:
                    cf[h.fq] = "management method run through a message to the orchestrator's agent"
    for n, f in mgt.methods.items():
        if n.startswith("_orchestrator_"):
            cf.setdefault(f.fq, "management method (naming convention of the indirect handlers)")
    # periodic actions and discovery callbacks: function values handed to the registration APIs
    for f in list(cg.funcs.values()):
        for c in walk_no_nested(f.node):
            if not isinstance(c, ast.Call) or not isinstance(c.func, ast.Attribute):
                continue
            if c.func.attr == "add_periodic_action" and len(c.args) >= 2:
                for t in cg._callable_targets(c.args[1], f, cg.local_types(f)):
                    cf.setdefault(t.fq, "periodic action")
            if c.func.attr.startswith("subscribe_") and len(c.args) >= 1:
                for a in list(c.args[1:]) + [k.value for k in c.keywords if k.arg in ("cb", "callback")]:
                    for t in cg._callable_targets(a, f, cg.local_types(f)):
                        cf.setdefault(t.fq, "discovery callback")
    # functions of Discovery that invoke registered callbacks inline
    fires = {}
    for c in repo.all_classes():
        if c.name in ("Discovery", "Directory"):
            for f in c.methods.values():
                for n in walk_no_nested(f.node):
                    if isinstance(n, ast.Call) and isinstance(n.func, ast.Name) and n.func.id in ("cb", "callback"):
                        fires[f.fq] = n
    return cg, side, cf, fires, mgt_names


def foreign_roots(repo, cg):
    roots = {}
    for fq, f in cg.funcs.items():
        mod = f.module.name
        if mod.startswith("pydcop.commands") or mod == "pydcop.infrastructure.run":
            roots[fq] = "command line / run helper (caller's thread)"
        if f.cls is not None and f.cls.name == "Orchestrator" and mod == ORC and (not f.name.startswith("_") or f.name == "__init__"):
            roots[fq] = "Orchestrator API (caller's thread)"
    for creator, tgt, call, kind in cg.thread_targets:
        if tgt.fq == AG + ":Agent._run":
            continue
        roots[tgt.fq] = f"{kind} target created in {creator.qualname}"
    return roots


def check(ctx: Ctx):
    repo = ctx.repo
    ctx.rule("R-THREAD.loop", "computation callbacks are invoked from Agent._run's loop only; the loop is the target of the agent's only thread")
    ctx.rule("R-THREAD.foreign", "no function running on another thread reaches a computation callback through calls (only through queued messages)")
    ctx.rule("R-THREAD.handoff", "posting / receiving a message only enqueues it: the comm layer never calls a computation")
    ctx.rule("R-THREAD.mgt", "orchestrator actions are sent as messages to its own agent; direct reads of the management computation are limited to observers")
    ctx.rule("R-THREAD.spawn", "computations and algorithms create no thread or timer of their own (periodic work goes through the agent loop)")
    ctx.rule("R-THREAD.shared", "per-agent / per-computation tables (periodic actions, computations, buffers) are per-instance: no class-level mutable container mutated through self")
    from .. import sharedrules
    sharedrules.check_no_shared_state(ctx, "R-THREAD.shared", ["pydcop.infrastructure.agents", "pydcop.infrastructure.computations", "pydcop.infrastructure.communication",
                                                             "pydcop.infrastructure.orchestratedagents", "pydcop.infrastructure.orchestrator", "pydcop.infrastructure.discovery"], min_classes=25)
    cg, side, cf, fires, mgt_names = build(repo)
    for m in (AG, ORC, COMPS, COMM, DISC, "pydcop.infrastructure.orchestratedagents"):
        ctx.touch(repo.module(m))
    ctx.note(f"call graph: {len(cg.funcs)} functions, {cg.resolved} call sites resolved, {cg.unresolved} left untyped (builtins, loggers, library objects, dynamic receivers)")
    ctx.note(f"confined functions: {len(cf)} ({sum(1 for v in cf.values() if v.startswith('handler'))} message handlers); discovery functions firing callbacks: {len(fires)}")

    run = repo.func(AG, "Agent._run")
    # ---- R-THREAD.loop ------------------------------------------------------------------------------
    th = [(c, t, call) for c, t, call, k in cg.thread_targets if c.cls is not None and repo.cls(AG, "Agent") in repo.mro(c.cls)]
    ctx.check(len(th) == 1 and th[0][1].fq == run.fq, "R-THREAD.loop", "Agent creates one thread whose target is Agent._run", run, th[0][2] if th else run.node,
              f"threads created by Agent classes: {[(c.qualname, t.qualname) for c, t, _ in th]}")
    # callers of the loop-only steps and of the computations' delivery entry
    callers = {}
    for src, es in cg.edges.items():
        for tgt, call in es:
            callers.setdefault(tgt, []).append((src, call))
    agent_cls = repo.cls(AG, "Agent")
    for name in sorted(AGENT_LOOP_ONLY):
        f = repo.lookup_method(agent_cls, name)
        srcs = set()
        for c in repo.all_classes():
            if agent_cls in repo.mro(c) and name in c.methods:
                for src, call in callers.get(c.methods[name].fq, []):
                    sf = cg.funcs[src]
                    # super() chains inside the same method name are part of the same step
                    if sf.name == name and sf.cls is not None and agent_cls in repo.mro(sf.cls):
                        continue
                    srcs.add((src, call))
        bad = [(s, c) for s, c in srcs if s != run.fq]
        for s, c in bad:
            ctx.bad("R-THREAD.loop", f"Agent.{name} is called from the agent loop only", cg.funcs[s], c, f"{cg.funcs[s].qualname} calls {name}(): this step must only run inside Agent._run")
        if not bad:
            ctx.check(any(s == run.fq for s, _ in srcs), "R-THREAD.loop", f"Agent.{name} is called from the agent loop only", run, run.node, f"no call to {name} found in Agent._run")
    # textual cross-check over the whole package (catches receivers the graph cannot type)
    n_txt = 0
    for m in repo.modules.values():
        if ".tests" in m.name or not m.name.startswith("pydcop"):
            continue
        for f in repo.all_functions(m):
            for c in ast.walk(f.node):
                if isinstance(c, ast.Call) and isinstance(c.func, ast.Attribute) and c.func.attr in ("_handle_message", "_process_periodic_action"):
                    n_txt += 1
                    ok = f.fq == run.fq or (f.name == c.func.attr and isinstance(c.func.value, ast.Call) and norm(c.func.value.func) == "super")
                    ctx.check(ok, "R-THREAD.loop", f"{c.func.attr}() call sites", f, c, f"{f.qualname} calls {c.func.attr}() outside the agent loop")
    # inside the loop: steps are plain sequential calls (no executor / thread hand-off)
    for fn in (run, repo.func(AG, "Agent._handle_message"), repo.func(AG, "Agent._process_periodic_action")):
        spawn = [c for c in ast.walk(fn.node) if isinstance(c, ast.Call) and norm(c.func).split(".")[-1] in ("Thread", "Timer", "submit", "ThreadPoolExecutor", "start_new_thread", "run_in_executor")]
        ctx.check(not spawn, "R-THREAD.loop", f"{fn.qualname}: callbacks are called inline, one after the other", fn, spawn[0] if spawn else fn.node,
                  "the loop must call the computation itself; handing the call to another thread breaks the one-call-at-a-time guarantee")
    hm = repo.func(AG, "Agent._handle_message")
    deliver = [c for c in ast.walk(hm.node) if isinstance(c, ast.Call) and isinstance(c.func, ast.Attribute) and c.func.attr == "on_message"]
    ctx.check(len(deliver) >= 1, "R-THREAD.loop", "Agent._handle_message delivers by calling on_message", hm, hm.node, "delivery call not found")

    # ---- R-THREAD.foreign ---------------------------------------------------------------------------
    roots = foreign_roots(repo, cg)
    ctx.note(f"foreign roots: {len(roots)}")
    side_fn = lambda fq: cg.funcs[fq].cls is not None and cg.funcs[fq].cls.fq in side
    out_roots = [r for r in roots if not side_fn(r)]
    in_roots = [r for r in roots if side_fn(r)]
    # part 1: foreign code outside the agent-side classes, stopping at the boundary
    stop = {fq for fq in cg.funcs if side_fn(fq)}
    seen_out = cg.reach(out_roots, stop=stop)
    entries = []
    for src in seen_out:
        if side_fn(src):
            continue
        for tgt, call in cg.edges.get(src, []):
            if side_fn(tgt):
                entries.append((src, tgt, call))
    n_entries = 0
    done = set()
    for src, tgt, call in sorted(entries, key=lambda e: (e[0], e[2].lineno, e[1])):
        k = (src, stmt_key(call), tgt)
        if k in done:
            continue
        done.add(k)
        n_entries += 1
        sf, tf = cg.funcs[src], cg.funcs[tgt]
        sub = cg.reach([tgt])
        hit = None
        # constructors that never start the agent thread run before any concurrency exists
        pre_start = sf.name == "__init__" and (AG + ":Agent.start") not in cg.reach([src])
        for fq in sub:
            if fq in cf:
                hit = (fq, cf[fq])
                break
            if fq in fires and tf.name not in WIRING_API and not pre_start:
                hit = (fq, "fires discovery callbacks inline")
                break
        inst = f"{sf.qualname} -> {tf.qualname}"
        if hit is None:
            ctx.ok("R-THREAD.foreign", inst, sf, call, sample=False)
        else:
            path = cg.path(sub, hit[0])
            ctx.bad("R-THREAD.foreign", inst, sf, call,
                    f"{sf.qualname} runs on a foreign thread ({roots.get(src) or 'reached from ' + cg.path(seen_out, src)[0]}) and, through this call, reaches {hit[0].split(':')[1]} ({hit[1]}) without queueing a message",
                    path=[f"{src}"] + path)
    ctx.floor("R-THREAD.foreign", 15)
    # part 2: roots that live inside agent-side classes (thread targets, comm-layer receive paths)
    handoff = [COMM + ":Messaging.post_msg", COMM + ":InProcessCommunicationLayer.receive_msg", COMM + ":InProcessCommunicationLayer.send_msg",
               COMM + ":HttpCommunicationLayer.on_post_message", COMM + ":HttpCommunicationLayer.send_msg", COMM + ":MPCHttpHandler.do_POST"]
    for fq in handoff:
        if fq not in cg.funcs:
            ctx.bad("R-THREAD.handoff", fq, repo.module(COMM), repo.module(COMM).tree, "anchor vanished")
            continue
        f = cg.funcs[fq]
        sub = cg.reach([fq])
        hit = next(((x, cf[x]) for x in sub if x in cf), None) or next(((x, "fires discovery callbacks") for x in sub if x in fires), None)
        # receivers the graph cannot type: no call named like a callback at all inside the hand-off functions
        named = [c for c in walk_no_nested(f.node) if isinstance(c, ast.Call) and isinstance(c.func, ast.Attribute) and c.func.attr in (LIFECYCLE - {"start", "stop"}) | AGENT_LOOP_ONLY]
        ctx.check(hit is None and not named, "R-THREAD.handoff", f"{f.qualname} only enqueues", f, named[0] if named else f.node,
                  f"reaches {hit[0].split(':')[1] if hit else (norm(named[0].func) if named else '')}: a message must be queued for the destination agent's thread, not delivered by the caller's")
    pm = cg.funcs.get(COMM + ":Messaging.post_msg")
    if pm is not None:
        puts = [c for c in ast.walk(pm.node) if isinstance(c, ast.Call) and isinstance(c.func, ast.Attribute) and c.func.attr in ("put", "put_nowait") and "queue" in norm(c.func.value).lower()]
        ctx.check(len(puts) >= 1, "R-THREAD.handoff", "Messaging.post_msg puts local messages on the agent's queue", pm, pm.node, "no queue put found")
    for r in in_roots:
        f = cg.funcs[r]
        sub = cg.reach([r])
        hit = next(((x, cf[x]) for x in sub if x in cf and x != r), None)
        ctx.check(hit is None, "R-THREAD.foreign", f"{f.qualname} ({roots[r]})", f, f.node,
                  f"runs on its own thread and reaches {hit[0].split(':')[1] if hit else ''}", )
    # ---- R-THREAD.mgt --------------------------------------------------------------------------------
    orch = repo.cls(ORC, "Orchestrator")
    mm = orch.methods.get("_mgt_method")
    ok = False
    if mm is not None:
        posts = [c for c in walk_no_nested(mm.node) if isinstance(c, ast.Call) and isinstance(c.func, ast.Attribute) and c.func.attr == "post_msg"]
        ok = len(posts) == 1 and len(posts[0].args) >= 3 and norm(posts[0].args[1]) == "ORCHESTRATOR_MGT" and call_name(posts[0].args[2]) == "Message" \
            and norm(posts[0].args[2].args[0]) == mm.params[1]
        direct = [c for c in walk_no_nested(mm.node) if isinstance(c, ast.Call) and (norm(c.func).startswith("self.mgt.") or call_name(c) == "getattr")]
        ok = ok and not direct
    ctx.check(ok, "R-THREAD.mgt", "Orchestrator._mgt_method posts Message(method, arg) to the management computation", mm or orch, (mm or orch).node,
              "the orchestrator must ask its agent's thread to run the method, by a message addressed to ORCHESTRATOR_MGT")
    mgt = repo.cls(ORC, "AgentsMgt")
    for n in sorted(mgt_names):
        ctx.check(repo.lookup_method(mgt, n) is not None, "R-THREAD.mgt", f"management method {n} exists on AgentsMgt", orch, orch.node, f"_mgt_method('{n}') names no method of AgentsMgt")
    om = repo.func(ORC, "AgentsMgt.on_message")
    ga = [c for c in ast.walk(om.node) if isinstance(c, ast.Call) and call_name(c) == "getattr" and len(c.args) >= 2 and norm(c.args[1]).endswith(".type")]
    ctx.check(len(ga) == 1, "R-THREAD.mgt", "AgentsMgt.on_message runs the named method when the message arrives", om, om.node, "indirect dispatch on the message type not found")
    # ---- R-THREAD.spawn ------------------------------------------------------------------------------
    n_sp = 0
    comp = repo.cls(COMPS, "MessagePassingComputation")
    for c in repo.all_classes():
        if comp not in repo.mro(c) or c.name == "UiServer":
            continue
        for f in c.methods.values():
            n_sp += 1
            sp = [x for x in ast.walk(f.node) if isinstance(x, ast.Call) and norm(x.func).split(".")[-1] in ("Thread", "Timer", "ThreadPoolExecutor", "start_new_thread")]
            if sp:
                ctx.bad("R-THREAD.spawn", f"{c.name}.{f.name} creates no thread", f, sp[0], "a computation must not run code on a thread of its own: use add_periodic_action or messages")
    ctx.ok("R-THREAD.spawn", f"{n_sp} methods of computation classes scanned", sample=False)
    ctx.decided = ("start / on_message (and the registered handlers) / pause / stop / periodic actions are reachable only from Agent._run; all foreign entry points reach them only by posting messages")
    ctx.undecided = ("discovery callbacks fired from Agent.add_computation during wiring (Orchestrator.start adds the management computation after its agent thread started: no subscriber exists for it, which is a runtime fact); "
                  "data races between agents on shared objects (thread mode shares the DCOP objects)")


_O = "pydcop/infrastructure/orchestrator.py"
_A = "pydcop/infrastructure/agents.py"
_C = "pydcop/infrastructure/communication.py"
VARIANTS = [
    ("periodic_table_shared_by_all_agents", _A, ["    def __init__(self, name,\n                 comm: CommunicationLayer,", "        self._periodic_cb = {}  # type: Dict[Callable, Tuple[float, float]]\n"], ["    _periodic_cb = {}\n\n    def __init__(self, name,\n                 comm: CommunicationLayer,", ""], "break", "R-THREAD.shared"),
    ("orchestrator_runs_directly", _O, "        self._mgt_method('_orchestrator_run_computations', None)", "        self.mgt._orchestrator_run_computations(None, 0)", "break", "R-THREAD.foreign"),
    ("mgt_method_direct_call", _O, "        self.messaging.post_msg(\n            ORCHESTRATOR_MGT, ORCHESTRATOR_MGT,\n            Message(method, arg), msg_type=5)", "        getattr(self.mgt, method)(Message(method, arg), 0)", "break", "R-THREAD.mgt"),
    ("timeout_stops_mgt", _O, "        self.stop_agents(5)\n        self.mgt.ready_to_run.set()", "        self.stop_agents(5)\n        self.mgt.stop()\n        self.mgt.ready_to_run.set()", "break", "R-THREAD.foreign"),
    ("inprocess_direct_delivery", _C, "        self.messaging.post_msg(src_computation, dest_computation, msg_obj, msg_type)\n", "        self.messaging.post_msg(src_computation, dest_computation, msg_obj, msg_type)\n        self.discovery.discovery_computation.on_message(src_computation, msg_obj, 0)\n", "break", "R-THREAD.handoff"),
    ("periodic_on_timer", _A, "                self._process_periodic_action()\n\n        except Exception as e:", "                threading.Timer(0, self._process_periodic_action).start()\n\n        except Exception as e:", "break", "R-THREAD.loop"),
    ("handle_in_thread", _A, "                            self._handle_message(sender, dest, msg, t)", "                            threading.Thread(target=self._handle_message, args=(sender, dest, msg, t)).start()", "break", "R-THREAD.loop"),
    ("clean_shutdown_stops_comps", _A, "        self._shutdown.set()\n        self._messaging.shutdown()", "        self._shutdown.set()\n        self._messaging.shutdown()\n        self._on_stop()", "break", "R-THREAD.loop"),
    ("orchestrator_start_runs_on_caller", _O, "        self._own_agt.add_computation(self.mgt, ORCHESTRATOR_MGT)\n        self._own_agt.start(run_computations=True)", "        self._own_agt.add_computation(self.mgt, ORCHESTRATOR_MGT)\n        self._own_agt.start()\n        self._own_agt.run()", "break", "R-THREAD.foreign"),
    ("orchestrator_pauses_directly", _O, "        self.mgt.wait_stop_agents(timeout)", "        self._own_agt.pause_computations(None)\n        self.mgt.wait_stop_agents(timeout)", "break", "R-THREAD.foreign"),
    ("neutral_observer", _O, "        return self.mgt.current_global_cost()", "        cost = self.mgt.current_global_cost()\n        return cost", "neutral"),
    ("neutral_mgt_kw", _O, "            Message(method, arg), msg_type=5)", "            Message(method, arg), msg_type=MSG_MGT)", "neutral"),
]
