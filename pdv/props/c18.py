"""C18 - agent messaging delivers each message once, by priority, FIFO per sender.

Decided (R-QUEUE, R-FIFO on the retry buffer, shutdown domination): see rule texts.
"""
import ast

from ..model import walk_no_nested, is_self_attr, norm, call_name
from ..facts import FuncFacts, facts_at, count_paths, calls_hit
from ..report import Ctx, AnalysisError

COMM = "pydcop.infrastructure.communication"
AGENTS = "pydcop.infrastructure.agents"
DISC = "pydcop.infrastructure.discovery"


def _int_const(repo, mod, name):
    v = repo.module(mod).constants.get(name)
    if v is None or not isinstance(v.value, int):
        raise AnalysisError(f"integer constant {mod}.{name} not found")
    return v.value


def _fact_texts(ff, node):
    return {(norm(t), p) for t, p in facts_at(ff, node)}


def check(ctx: Ctx):
    repo = ctx.repo
    ctx.decided = ("R-QUEUE: shape of the priority-queue key (type, counter, time, payload), counter incremented "
                   "exactly once before each put, reader unpacks the same arity and returns the payload, priority "
                   "constants ordered; every post ends in exactly one of {local put, transport send, retry buffer}; "
                   "retry buffer is FIFO with exactly-once re-post on registration; clean shutdown only drops new "
                   "posts and the agent loop leaves only on an empty queue; in-process transport forwards roles.")
    ctx.undecided = ("atomicity of the counter increment under truly concurrent posters, real thread "
                     "interleavings, behaviour of the HTTP transport under network faults.")
    ctx.rule("R-QUEUE.kind", "the agent queue is a queue.PriorityQueue")
    ctx.rule("R-QUEUE.key", "every put is a tuple (message type, monotonic counter, ..., payload): the orderable slots come first")
    ctx.rule("R-QUEUE.counter", "the counter is incremented by a positive constant exactly once immediately before each put and written nowhere else")
    ctx.rule("R-QUEUE.reader", "next_msg unpacks the arity that post_msg puts, blocks on get, and returns the payload slot")
    ctx.rule("R-QUEUE.consts", "MSG_DISCOVERY < MSG_MGT < MSG_VALUE < MSG_ALGO and the default type is MSG_ALGO")
    ctx.rule("R-QUEUE.once", "every path of post_msg hands the message to exactly one of: local queue, transport, retry buffer (or drops it after shutdown)")
    ctx.rule("R-QUEUE.roles", "the 4 slots (src, dest, msg, type) keep their roles from post_msg through the transport to the handler")
    ctx.rule("R-RETRY.buffer", "a message to an unknown computation is appended at the tail of the retry buffer with a one-shot registration callback")
    ctx.rule("R-RETRY.drain", "on registration the retry buffer is scanned forward over a copy; a matching entry is re-posted and removed exactly once")
    ctx.rule("R-SHUTDOWN", "clean shutdown never discards queued messages: the agent loop breaks only when the queue is empty, each dequeued message is handled once")

    messaging = repo.cls(COMM, "Messaging")
    init = repo.func(COMM, "Messaging.__init__")
    post = repo.func(COMM, "Messaging.post_msg")
    nxt = repo.func(COMM, "Messaging.next_msg")
    shut = repo.func(COMM, "Messaging.shutdown")
    onreg = repo.func(COMM, "Messaging._on_computation_registration")
    for f in (init, post, nxt, shut, onreg):
        ctx.touch(f)

    # ---- queue kind ------------------------------------------------------
    qa = [n for n in walk_no_nested(init.node) if isinstance(n, ast.Assign) and any(is_self_attr(t, "_queue") for t in n.targets)]
    if not qa:
        raise AnalysisError("Messaging.__init__ does not create self._queue")
    for n in qa:
        ctx.check(isinstance(n.value, ast.Call) and call_name(n.value) == "PriorityQueue" and not n.value.args,
                  "R-QUEUE.kind", "Messaging._queue", init, n, "the agent queue must be an unbounded PriorityQueue")
    # any other assignment of _queue in the class
    for m in messaging.methods.values():
        if m is init:
            continue
        for n in walk_no_nested(m.node):
            if isinstance(n, ast.Assign) and any(is_self_attr(t, "_queue") for t in n.targets):
                ctx.bad("R-QUEUE.kind", f"{m.name} re-assigns _queue", m, n, "the queue must not be replaced (queued messages would be lost)")

    # ---- constants -------------------------------------------------------
    d, mg, v, a = (_int_const(repo, DISC, "MSG_DISCOVERY"), _int_const(repo, COMM, "MSG_MGT"),
                   _int_const(repo, COMM, "MSG_VALUE"), _int_const(repo, COMM, "MSG_ALGO"))
    ctx.check(d < mg < v < a, "R-QUEUE.consts", "priority order", repo.module(COMM), repo.module(COMM).constants["MSG_MGT"],
              f"expected MSG_DISCOVERY({d}) < MSG_MGT({mg}) < MSG_VALUE({v}) < MSG_ALGO({a})")
    # default + None normalisation of msg_type in post_msg
    params = post.params
    if len(params) < 6:
        raise AnalysisError("Messaging.post_msg signature changed")
    p_src, p_dest, p_msg, p_type, p_err = params[1:6]
    defaults = post.node.args.defaults
    dflt = defaults[len(defaults) - (len(params) - params.index(p_type))] if len(defaults) >= len(params) - params.index(p_type) else None
    ctx.check(dflt is not None and norm(dflt) == "MSG_ALGO", "R-QUEUE.consts", "post_msg default type", post, post.node,
              "the default priority of a posted message must be MSG_ALGO")
    normed = False
    for n in walk_no_nested(post.node):
        if isinstance(n, ast.Assign) and len(n.targets) == 1 and isinstance(n.targets[0], ast.Name) and n.targets[0].id == p_type:
            okn = (isinstance(n.value, ast.IfExp) and norm(n.value.test) in (f"{p_type} is None",) and norm(n.value.body) == "MSG_ALGO"
                   and norm(n.value.orelse) == p_type) or \
                  (isinstance(n.value, ast.IfExp) and norm(n.value.test) == f"{p_type} is not None" and norm(n.value.orelse) == "MSG_ALGO"
                   and norm(n.value.body) == p_type)
            normed = True
            ctx.check(okn, "R-QUEUE.consts", "None priority -> MSG_ALGO", post, n,
                      "a None priority must be normalised to MSG_ALGO and any other value kept")
    if not normed:
        ctx.bad("R-QUEUE.consts", "None priority -> MSG_ALGO", post, post.node,
                "computations post with prio=None: it must be normalised to MSG_ALGO before it becomes the queue key")

    # ---- put key ---------------------------------------------------------
    ff = FuncFacts(post.node)
    puts = [c for c in walk_no_nested(post.node) if isinstance(c, ast.Call) and isinstance(c.func, ast.Attribute)
            and c.func.attr in ("put", "put_nowait") and is_self_attr(c.func.value, "_queue")]
    if not puts:
        ctx.bad("R-QUEUE.key", "no put", post, post.node, "post_msg no longer puts local messages in the queue")
    put_arity = None
    time_slot = None
    full_msg_name = None
    for c in puts:
        arg = c.args[0] if c.args else None
        if not isinstance(arg, ast.Tuple) or len(arg.elts) < 3:
            ctx.bad("R-QUEUE.key", "put tuple", post, c, "the queue entry must be a tuple (type, counter, ..., payload)")
            continue
        put_arity = len(arg.elts)
        e0, e1, elast = arg.elts[0], arg.elts[1], arg.elts[-1]
        ctx.check(isinstance(e0, ast.Name) and e0.id == p_type, "R-QUEUE.key", "slot 0 = message type", post, c,
                  f"slot 0 of the queue entry must be the message type parameter, found {norm(e0)}")
        ctx.check(is_self_attr(e1, "msg_queue_count"), "R-QUEUE.key", "slot 1 = counter", post, c,
                  f"slot 1 must be the monotonic counter (ties between equal types are broken in posting order), found {norm(e1)}")
        if isinstance(elast, ast.Name):
            full_msg_name = elast.id
        if put_arity >= 4 and isinstance(arg.elts[2], ast.Name):
            time_slot = 2
        # counter incremented exactly once just before, in the same block
        st = ff.stmt(c)
        blk = _block_of(post.node, st)
        idx = blk.index(st) if blk and st in blk else -1
        incs = []
        for prev in (blk[:idx] if idx >= 0 else []):
            if isinstance(prev, ast.AugAssign) and is_self_attr(prev.target, "msg_queue_count"):
                incs.append(prev)
        okc = (len(incs) == 1 and isinstance(incs[0].op, ast.Add) and isinstance(incs[0].value, ast.Constant)
               and isinstance(incs[0].value.value, int) and incs[0].value.value > 0)
        ctx.check(okc, "R-QUEUE.counter", "increment before put", post, incs[0] if incs else c,
                  "the counter must be incremented by a positive constant exactly once, unconditionally, right before the put")
        # local branch
        facts = _fact_texts(ff, c)
        okl = any(p and t in (f"dest_agent == self._local_agent", f"self._local_agent == dest_agent") for t, p in facts)
        ctx.check(okl, "R-QUEUE.once", "put only for a local destination", post, c,
                  "a message is queued locally only when the destination is hosted by this agent")
    # counter written elsewhere?
    for m in messaging.methods.values():
        for n in walk_no_nested(m.node):
            tg = None
            if isinstance(n, ast.Assign):
                tg = [t for t in n.targets if is_self_attr(t, "msg_queue_count")]
            elif isinstance(n, ast.AugAssign) and is_self_attr(n.target, "msg_queue_count"):
                tg = [n.target]
            if not tg:
                continue
            if m is init and isinstance(n, ast.Assign) and isinstance(n.value, ast.Constant):
                ctx.ok("R-QUEUE.counter", "initialised", init, n)
            elif m is post and isinstance(n, ast.AugAssign):
                pass
            else:
                ctx.bad("R-QUEUE.counter", f"written in {m.name}", m, n, "the counter may only be initialised once and incremented before a put")

    # payload construction roles
    if full_msg_name:
        for n in walk_no_nested(post.node):
            if isinstance(n, ast.Assign) and len(n.targets) == 1 and isinstance(n.targets[0], ast.Name) and n.targets[0].id == full_msg_name:
                okp = (isinstance(n.value, ast.Call) and call_name(n.value) == "ComputationMessage"
                       and [norm(x) for x in n.value.args] == [p_src, p_dest, p_msg, p_type])
                ctx.check(okp, "R-QUEUE.roles", "ComputationMessage(src, dest, msg, type)", post, n,
                          "the payload must carry (source, destination, message, type) in that order")
    cm = repo.module(COMM).assigns.get("ComputationMessage")
    fields = None
    if isinstance(cm, ast.Call) and len(cm.args) >= 2 and isinstance(cm.args[1], (ast.List, ast.Tuple)):
        fields = [e.value for e in cm.args[1].elts if isinstance(e, ast.Constant)]
    ctx.check(fields is not None and len(fields) == 4, "R-QUEUE.roles", "ComputationMessage has 4 fields", repo.module(COMM),
              cm if cm is not None else repo.module(COMM).tree, "ComputationMessage must be a 4-field namedtuple")

    # ---- reader ----------------------------------------------------------
    gets = [c for c in walk_no_nested(nxt.node) if isinstance(c, ast.Call) and isinstance(c.func, ast.Attribute)
            and c.func.attr in ("get", "get_nowait") and is_self_attr(c.func.value, "_queue")]
    if not gets:
        raise AnalysisError("next_msg no longer reads self._queue")
    ffn = FuncFacts(nxt.node)
    for c in gets:
        st = ffn.stmt(c)
        tgt = st.targets[0] if isinstance(st, ast.Assign) and len(st.targets) == 1 else None
        oka = isinstance(tgt, ast.Tuple) and put_arity is not None and len(tgt.elts) == put_arity
        ctx.check(oka, "R-QUEUE.reader", "unpack arity", nxt, st, f"next_msg must unpack the {put_arity}-tuple that post_msg puts")
        kw = {k.arg: norm(k.value) for k in c.keywords}
        okb = c.func.attr == "get" and (kw.get("block", "True") == "True")
        ctx.check(okb, "R-QUEUE.reader", "blocking get with timeout", nxt, c, "next_msg must block (with timeout) on the queue")
        if oka:
            names = [e.id if isinstance(e, ast.Name) else None for e in tgt.elts]
            rets = [r for r in walk_no_nested(nxt.node) if isinstance(r, ast.Return) and ffn.in_except(r) is False]
            rets = [r for r in rets if not (isinstance(r.value, ast.Tuple) and all(isinstance(e, ast.Constant) and e.value is None for e in r.value.elts))]
            okr = bool(rets)
            for r in rets:
                if not (isinstance(r.value, ast.Tuple) and len(r.value.elts) == 2 and isinstance(r.value.elts[0], ast.Name)
                        and r.value.elts[0].id == names[-1] and (time_slot is None or (isinstance(r.value.elts[1], ast.Name)
                                                                                  and r.value.elts[1].id == names[time_slot]))):
                    okr = False
            ctx.check(okr, "R-QUEUE.reader", "returns (payload, time)", nxt, rets[0] if rets else nxt.node,
                      "next_msg must return the payload slot (last) and the reception time slot")
    # Empty -> (None, None)
    exc = [h for h in ast.walk(nxt.node) if isinstance(h, ast.ExceptHandler)]
    ctx.check(any(h.type is not None and norm(h.type) == "Empty" for h in exc), "R-QUEUE.reader", "Empty handled", nxt, nxt.node,
              "an empty queue must yield (None, None), not an exception")

    # ---- exactly one destination per post ---------------------------------
    def hit(st):
        n = 0
        hdr = [st] if not isinstance(st, (ast.If, ast.For, ast.While, ast.Try, ast.With, ast.FunctionDef)) else []
        for h in hdr:
            for c in walk_no_nested(h):
                if isinstance(c, ast.Call) and isinstance(c.func, ast.Attribute):
                    if c.func.attr in ("put", "put_nowait") and is_self_attr(c.func.value, "_queue"):
                        n += 1
                    elif c.func.attr == "send_msg" and is_self_attr(c.func.value, "_comm"):
                        n += 1
                    elif c.func.attr == "append" and is_self_attr(c.func.value, "_failed"):
                        n += 1
            if isinstance(h, ast.Return):
                facts = _fact_texts(ff, h)
                if any(t == "self._shutdown" and p for t, p in facts):
                    n += 1  # dropping after shutdown is the documented outcome
        return n
    o = count_paths(post.node.body, hit)
    okx = all(o.k[k] == (1, 1) for k in o.k if k in ("fall", "return")) and any(k in o.k for k in ("fall", "return"))
    ctx.check(okx, "R-QUEUE.once", "post_msg: one outcome per path", post, post.node,
              f"every path must queue, send or buffer the message exactly once (path intervals {o.k})")
    # transport send roles
    sends = [c for c in walk_no_nested(post.node) if isinstance(c, ast.Call) and isinstance(c.func, ast.Attribute)
             and c.func.attr == "send_msg" and is_self_attr(c.func.value, "_comm")]
    for c in sends:
        got = [norm(x) for x in c.args]
        kw = {k.arg: norm(k.value) for k in c.keywords}
        ctx.check(got[:3] == ["self._local_agent", "dest_agent", full_msg_name] and kw.get("on_error", p_err) == p_err,
                  "R-QUEUE.roles", "send_msg(local agent, dest agent, payload)", post, c,
                  f"transport must receive (own agent, destination agent, payload), found {got} {kw}")
    if not sends:
        ctx.bad("R-QUEUE.once", "remote send", post, post.node, "post_msg no longer sends remote messages through the transport")
    # dest_agent comes from discovery lookup of the destination computation
    da = [n for n in walk_no_nested(post.node) if isinstance(n, ast.Assign) and len(n.targets) == 1
          and isinstance(n.targets[0], ast.Name) and n.targets[0].id == "dest_agent"]
    ctx.check(len(da) == 1 and norm(da[0].value) == f"self.discovery.computation_agent({p_dest})", "R-QUEUE.roles",
              "destination agent lookup", post, da[0] if da else post.node,
              "the destination agent must be looked up from the destination computation")

    # ---- retry buffer -----------------------------------------------------
    apps = [c for c in walk_no_nested(post.node) if isinstance(c, ast.Call) and isinstance(c.func, ast.Attribute)
            and is_self_attr(c.func.value, "_failed")]
    stored = None
    for c in apps:
        if c.func.attr != "append":
            ctx.bad("R-RETRY.buffer", f"_failed.{c.func.attr}", post, c, "failed messages must be appended at the tail")
            continue
        arg = c.args[0] if c.args else None
        okt = isinstance(arg, ast.Tuple) and [norm(e) for e in arg.elts] == [p_src, p_dest, p_msg, p_type, p_err]
        stored = 5 if okt else None
        ctx.check(okt, "R-RETRY.buffer", "stored tuple", post, c, "the retry entry must hold (src, dest, msg, type, on_error)")
        ctx.check(ff.in_except(c, "UnknownComputation"), "R-RETRY.buffer", "only for unknown computation", post, c,
                  "messages are buffered for retry only when the destination computation is unknown")
        # followed by return, preceded/accompanied by a one-shot subscription on the same destination
        st = ff.stmt(c)
        blk = _block_of(post.node, st)
        subs = [x for s in blk for x in walk_no_nested(s) if isinstance(x, ast.Call) and call_name(x) == "subscribe_computation"]
        oks = False
        for s in subs:
            kw = {k.arg: norm(k.value) for k in s.keywords}
            a = [norm(x) for x in s.args]
            if a[:2] == [p_dest, "self._on_computation_registration"] and (kw.get("one_shot") == "True" or (len(a) > 2 and a[2] == "True")):
                oks = True
        ctx.check(oks, "R-RETRY.buffer", "one-shot registration callback", post, st,
                  "a one-shot registration callback for the destination must be subscribed with the buffered message")
        ctx.check(isinstance(blk[-1], ast.Return), "R-RETRY.buffer", "return after buffering", post, blk[-1],
                  "after buffering the message post_msg must return (not fall through to delivery)")
    if not apps:
        ctx.bad("R-RETRY.buffer", "no retry buffer", post, post.node, "messages to unknown computations are no longer kept for retry")
    fi = [n for n in walk_no_nested(init.node) if isinstance(n, ast.Assign) and any(is_self_attr(t, "_failed") for t in n.targets)]
    ctx.check(len(fi) == 1 and isinstance(fi[0].value, ast.List) and not fi[0].value.elts, "R-RETRY.buffer", "init", init,
              fi[0] if fi else init.node, "_failed must start as an empty list")

    # drain
    ffr = FuncFacts(onreg.node)
    rp = onreg.params
    loops = [n for n in walk_no_nested(onreg.node) if isinstance(n, ast.For) and any(is_self_attr(x, "_failed") for x in ast.walk(n.iter))]
    if not loops:
        ctx.bad("R-RETRY.drain", "no scan", onreg, onreg.node, "registration callback no longer scans the retry buffer")
    for lp in loops:
        it = lp.iter
        copy_fwd = (isinstance(it, ast.Subscript) and is_self_attr(it.value, "_failed") and norm(it.slice) == ":") or \
                   (isinstance(it, ast.Call) and call_name(it) in ("list", "tuple") and it.args and is_self_attr(it.args[0], "_failed"))
        ctx.check(copy_fwd, "R-RETRY.drain", "forward scan over a copy", onreg, lp,
                  "the buffer must be scanned forward (posting order) over a copy since entries are removed while scanning")
        facts = _fact_texts(ffr, lp)
        ctx.check(any(p and t == f"{rp[1]} == 'computation_added'" for t, p in facts), "R-RETRY.drain", "only on computation_added", onreg, lp,
                  "retries happen when a computation is added")
        elem = lp.target.id if isinstance(lp.target, ast.Name) else None
        unpack = None
        for s in lp.body:
            if isinstance(s, ast.Assign) and isinstance(s.targets[0], ast.Tuple) and isinstance(s.value, ast.Name) and s.value.id == elem:
                unpack = [e.id if isinstance(e, ast.Name) else None for e in s.targets[0].elts]
        if isinstance(lp.target, ast.Tuple):
            unpack = [e.id if isinstance(e, ast.Name) else None for e in lp.target.elts]
        if unpack is None or stored is None or len(unpack) != stored:
            ctx.bad("R-RETRY.drain", "unpack", onreg, lp, "the scan must unpack the 5 stored slots")
            continue
        # filter on destination slot
        flt = [s for s in lp.body if isinstance(s, ast.If)]
        okf = False
        for s in flt:
            t = norm(s.test)
            if t in (f"{unpack[1]} != {rp[2]}", f"{rp[2]} != {unpack[1]}") and len(s.body) == 1 and isinstance(s.body[0], ast.Continue):
                okf = True
            if t in (f"{unpack[1]} == {rp[2]}", f"{rp[2]} == {unpack[1]}"):
                okf = True
        ctx.check(okf, "R-RETRY.drain", "filter on destination", onreg, lp,
                  "only entries whose destination is the registered computation are retried")

        def is_post(c):
            return is_self_attr(c.func, "post_msg")

        def is_remove(c):
            return isinstance(c.func, ast.Attribute) and c.func.attr == "remove" and is_self_attr(c.func.value, "_failed")
        for nm, pred in (("re-post", is_post), ("remove", is_remove)):
            oc = count_paths(lp.body, calls_hit(pred))
            vals = [v for k, v in oc.k.items() if k == "fall"]
            others = [k for k in oc.k if k in ("break", "return", "raise")]
            # matching iterations fall through with exactly one hit; skipped ones `continue` with zero
            cont = oc.k.get("continue")
            okc = bool(vals) and all(v == (1, 1) for v in vals) and not others and (cont is None or cont == (0, 0))
            ctx.check(okc, "R-RETRY.drain", f"exactly one {nm} per matching entry", onreg, lp,
                      f"each matching entry must be {nm}ed exactly once and the scan must not stop early ({oc.k})")
        for c in walk_no_nested(lp):
            if isinstance(c, ast.Call) and is_post(c):
                ctx.check([norm(x) for x in c.args] == unpack, "R-RETRY.drain", "re-post roles", onreg, c,
                          "the entry must be re-posted with its stored slots in their original positions")
            if isinstance(c, ast.Call) and is_remove(c):
                ctx.check(len(c.args) == 1 and norm(c.args[0]) == (elem or ""), "R-RETRY.drain", "remove the scanned entry", onreg, c,
                          "the entry removed must be the one that was re-posted")
    for m in messaging.methods.values():
        for c in walk_no_nested(m.node):
            if isinstance(c, ast.Call) and isinstance(c.func, ast.Attribute) and is_self_attr(c.func.value, "_failed") \
                    and c.func.attr in ("pop", "clear", "insert", "reverse", "sort"):
                ctx.bad("R-RETRY.drain", f"_failed.{c.func.attr} in {m.name}", m, c, "unexpected mutation of the retry buffer")

    # ---- shutdown ----------------------------------------------------------
    bad_shut = [c for c in walk_no_nested(shut.node) if isinstance(c, ast.Call) and any(is_self_attr(x, "_queue") or is_self_attr(x, "_failed") for x in ast.walk(c))]
    sets = [n for n in walk_no_nested(shut.node) if isinstance(n, ast.Assign) and any(is_self_attr(t, "_shutdown") for t in n.targets)]
    ctx.check(not bad_shut and len(sets) == 1 and norm(sets[0].value) == "True", "R-SHUTDOWN", "Messaging.shutdown only sets the flag", shut,
              (bad_shut or sets or [shut.node])[0], "shutdown must not touch the queue: messages queued before it are still handled")
    ctx.check(not any(is_self_attr(n, "_shutdown") for n in ast.walk(nxt.node)), "R-SHUTDOWN", "next_msg ignores the flag", nxt, nxt.node,
              "next_msg must keep returning queued messages after shutdown")
    drop = [n for n in post.node.body if isinstance(n, ast.If) and norm(n.test) == "self._shutdown"]
    ctx.check(len(drop) == 1 and len(drop[0].body) == 1 and isinstance(drop[0].body[0], ast.Return) and post.node.body.index(drop[0]) <= 1,
              "R-SHUTDOWN", "post after shutdown is dropped first", post, drop[0] if drop else post.node,
              "posts after shutdown are dropped before any side effect")

    run = repo.func(AGENTS, "Agent._run")
    cs = repo.func(AGENTS, "Agent.clean_shutdown")
    hm = repo.func(AGENTS, "Agent._handle_message")
    for f in (run, cs, hm):
        ctx.touch(f)
    ffa = FuncFacts(run.node)
    loops = [n for n in walk_no_nested(run.node) if isinstance(n, ast.While) and "_stopping" in norm(n.test)]
    if not loops:
        raise AnalysisError("Agent._run main loop not found")
    lp = loops[0]
    # the dequeue
    deq = [n for n in walk_no_nested(lp) if isinstance(n, ast.Assign) and isinstance(n.value, ast.Call) and call_name(n.value) == "next_msg"]
    if len(deq) != 1 or not isinstance(deq[0].targets[0], ast.Tuple):
        raise AnalysisError("Agent._run: dequeue `full_msg, t = self._messaging.next_msg(..)` not found")
    fm, tt = [e.id for e in deq[0].targets[0].elts]
    for b in [n for n in walk_no_nested(lp) if isinstance(n, ast.Break)]:
        facts = _fact_texts(ffa, b)
        okb = any(t == f"{fm} is None" and p for t, p in facts) and any("_shutdown" in t and p for t, p in facts)
        ctx.check(okb, "R-SHUTDOWN", "loop exit only on empty queue during shutdown", run, b,
                  "the agent loop may only be left when no message is pending and shutdown was requested")
    for r in [n for n in walk_no_nested(lp) if isinstance(n, ast.Return)]:
        ctx.bad("R-SHUTDOWN", "return inside the loop", run, r, "the agent loop must not return while messages may be pending")
    hcalls = [c for c in walk_no_nested(lp) if isinstance(c, ast.Call) and is_self_attr(c.func, "_handle_message")]
    ctx.check(len(hcalls) == 1, "R-SHUTDOWN", "one handler call site", run, hcalls[0] if hcalls else lp,
              "each dequeued message is handled by exactly one call")
    for c in hcalls:
        facts = _fact_texts(ffa, c)
        okn = any(t == f"{fm} is None" and not p for t, p in facts) or any(t == f"{fm} is not None" and p for t, p in facts)
        extra = [(t, p) for t, p in facts if t not in (f"{fm} is None", f"{fm} is not None", "not self._stopping.is_set()", "self._stopping.is_set()")]
        ctx.check(okn and not extra, "R-SHUTDOWN", "handled whenever a message was dequeued", run, c,
                  f"the handler call must depend only on a message being present (extra conditions: {extra})")
        # unpack roles
        un = [n for n in walk_no_nested(lp) if isinstance(n, ast.Assign) and isinstance(n.value, ast.Name) and n.value.id == fm
              and isinstance(n.targets[0], ast.Tuple)]
        okr = False
        if un and len(un[0].targets[0].elts) == 4:
            s, dd, mm, _ = [norm(e) for e in un[0].targets[0].elts]
            okr = [norm(x) for x in c.args] == [s, dd, mm, tt]
        ctx.check(okr, "R-QUEUE.roles", "_run -> _handle_message(sender, dest, msg, t)", run, c,
                  "the payload slots must reach the handler in the roles they were posted with")
        oc = count_paths(lp.body, calls_hit(lambda x: x is c))
        ctx.check(all(v[1] <= 1 for v in oc.k.values()), "R-SHUTDOWN", "at most once per iteration", run, c, "a message must not be handled twice")
    # _handle_message roles
    hp = hm.params
    oc_ = [c for c in walk_no_nested(hm.node) if isinstance(c, ast.Call) and call_name(c) == "on_message"]
    okh = len(oc_) == 1 and [norm(x) for x in oc_[0].args] == [hp[1], hp[3], hp[4]]
    lookup = [n for n in walk_no_nested(hm.node) if isinstance(n, ast.Assign) and isinstance(n.value, ast.Call)
              and is_self_attr(n.value.func, "computation") and [norm(x) for x in n.value.args] == [hp[2]]]
    if okh:
        kk = count_paths(hm.node.body, calls_hit(lambda x: x is oc_[0])).k
        okh = all(v == (1, 1) for kind, v in kk.items() if kind in ("fall", "return"))
    ctx.check(okh and len(lookup) == 1 and isinstance(oc_[0].func, ast.Attribute) and norm(oc_[0].func.value) == norm(lookup[0].targets[0]),
              "R-QUEUE.roles", "_handle_message -> dest.on_message(sender, msg, t)", hm, oc_[0] if oc_ else hm.node,
              "the destination computation (looked up by name) must receive (sender, message, time), on every path: it is on_message that keeps messages for a computation not running yet")
    # clean_shutdown
    txt = [norm(c) for c in walk_no_nested(cs.node) if isinstance(c, ast.Call)]
    other = [t for t in txt if not t.startswith("self.logger.") and t not in ("self._shutdown.set()", "self._messaging.shutdown()")]
    ctx.check(not other, "R-SHUTDOWN", "clean_shutdown does nothing but raise the two shutdown flags", cs, next((c for c in walk_no_nested(cs.node) if isinstance(c, ast.Call) and norm(c) in other), cs.node),
              f"found {other}: a clean shutdown lets the agent thread drain its queue into running computations; stopping / pausing computations (or anything else) first means the "
              "queued messages are only parked by on_message and never reach their handlers")
    ctx.check("self._shutdown.set()" in txt and "self._messaging.shutdown()" in txt and "self._stopping.set()" not in txt,
              "R-SHUTDOWN", "clean_shutdown sets the shutdown flags only", cs, cs.node,
              "clean_shutdown must request shutdown (not an immediate stop) on both the agent and its messaging")

    # ---- in-process transport ----------------------------------------------
    snd = repo.func(COMM, "InProcessCommunicationLayer.send_msg")
    rcv = repo.func(COMM, "InProcessCommunicationLayer.receive_msg")
    ctx.touch(snd)
    ctx.touch(rcv)
    sp = snd.params
    rc = [c for c in walk_no_nested(snd.node) if isinstance(c, ast.Call) and call_name(c) == "receive_msg"]
    ctx.check(len(rc) == 1 and [norm(x) for x in rc[0].args] == sp[1:4], "R-QUEUE.roles", "in-process send -> receive_msg", snd,
              rc[0] if rc else snd.node, "the in-process transport must hand (src agent, dest agent, payload) to the destination layer exactly once")
    if rc:
        oc = count_paths(snd.node.body, calls_hit(lambda x: x is rc[0]))
        ctx.check(all(v[1] <= 1 for v in oc.k.values()), "R-QUEUE.once", "in-process delivery at most once", snd, rc[0], "no duplicate delivery")
    rp_ = rcv.params
    un = [n for n in walk_no_nested(rcv.node) if isinstance(n, ast.Assign) and isinstance(n.targets[0], ast.Tuple)
          and isinstance(n.value, ast.Name) and n.value.id == rp_[3]]
    pm = [c for c in walk_no_nested(rcv.node) if isinstance(c, ast.Call) and call_name(c) == "post_msg"]
    okr = len(un) == 1 and len(pm) == 1 and len(un[0].targets[0].elts) == 4 and \
        [norm(x) for x in pm[0].args] == [norm(e) for e in un[0].targets[0].elts]
    ctx.check(okr, "R-QUEUE.roles", "receive_msg -> messaging.post_msg(src, dest, msg, type)", rcv, pm[0] if pm else rcv.node,
              "the received payload must be re-posted with all 4 slots (including its priority) in order")

    # late registration: the agent must know the computation before discovery announces it (the registration callback re-posts the
    # messages kept for it, and the agent thread may dequeue one at once)
    ctx.rule("R-RETRY.order", "Agent.add_computation stores the computation before registering it with discovery")
    addc = repo.func("pydcop.infrastructure.agents", "Agent.add_computation")
    ctx.touch(addc)
    top = list(addc.node.body)
    i_store = [i for i, st in enumerate(top) if isinstance(st, ast.Assign) and isinstance(st.targets[0], ast.Subscript) and norm(st.targets[0].value) == "self._computations"]
    i_reg = [i for i, st in enumerate(top) if any(isinstance(c, ast.Call) and norm(c.func) == "self.discovery.register_computation" for c in ast.walk(st))]
    i_send = [i for i, st in enumerate(top) if isinstance(st, ast.Assign) and norm(st.targets[0]).endswith(".message_sender")]
    ctx.check(len(i_store) == 1 and len(i_reg) == 1 and i_store[0] < i_reg[0], "R-RETRY.order", "the computation is in the agent's table before discovery learns of it", addc,
              top[i_reg[0]] if i_reg else addc.node,
              "registration fires Messaging._on_computation_registration, which re-posts the messages kept for this computation; if the agent thread dequeues one "
              "before the computation is in self._computations, _handle_message raises UnknownComputation and the agent loop dies")
    ctx.check(len(i_send) == 1 and i_reg and i_send[0] < i_reg[0], "R-RETRY.order", "the computation can send before it can receive", addc, top[i_send[0]] if i_send else addc.node,
              "a handler run right after registration may post messages: message_sender must already be wired")
    ctx.floor("R-QUEUE.key", 2)
    ctx.floor("R-RETRY.drain", 6)
    ctx.floor("R-SHUTDOWN", 6)


def _block_of(func_node, stmt):
    """The statement list that directly contains stmt."""
    for n in ast.walk(func_node):
        for fld in ("body", "orelse", "finalbody"):
            blk = getattr(n, fld, None)
            if isinstance(blk, list) and any(s is stmt for s in blk):
                return blk
        if isinstance(n, ast.Try):
            for h in n.handlers:
                if any(s is stmt for s in h.body):
                    return h.body
    return []


_F = "pydcop/infrastructure/communication.py"
_A = "pydcop/infrastructure/agents.py"
VARIANTS = [
    ("clean_shutdown_stops_computations_first", _A, "        self.logger.debug('Clean shutdown requested')\n        self._shutdown.set()", "        self.logger.debug('Clean shutdown requested')\n        for computation in self.computations():\n            if computation.is_running:\n                computation.stop()\n        self._shutdown.set()", "break", "R-SHUTDOWN"),
    ("deliver_only_if_running", _A, "        dest = self.computation(dest_name)\n        dest.on_message(sender_name, msg, t)\n", "        dest = self.computation(dest_name)\n        if dest.is_running:\n            dest.on_message(sender_name, msg, t)\n", "break", "R-QUEUE.roles"),
    ("register_before_store", "pydcop/infrastructure/agents.py", "        self._computations[comp_name] = computation\n        self.discovery.register_computation(comp_name, self.name,self.address,\n                                            publish=publish)\n",
     "        self.discovery.register_computation(comp_name, self.name,self.address,\n                                            publish=publish)\n        self._computations[comp_name] = computation\n", "break", "R-RETRY.order"),
    ("lifo_queue", _F, "        self._queue = PriorityQueue()", "        self._queue = LifoQueue()", "break", "R-QUEUE.kind"),
    ("key_time_first", _F, "self._queue.put((msg_type, self.msg_queue_count, now, full_msg))", "self._queue.put((msg_type, now, self.msg_queue_count, full_msg))", "break", "R-QUEUE.key"),
    ("key_no_type", _F, "self._queue.put((msg_type, self.msg_queue_count, now, full_msg))", "self._queue.put((self.msg_queue_count, msg_type, now, full_msg))", "break", "R-QUEUE.key"),
    ("counter_decrement", _F, "            self.msg_queue_count += 1\n", "            self.msg_queue_count -= 1\n", "break", "R-QUEUE.counter"),
    ("counter_conditional", _F, "            self.msg_queue_count += 1\n", "            if msg_type != MSG_MGT:\n                self.msg_queue_count += 1\n", "break", "R-QUEUE.counter"),
    ("counter_dropped", _F, "            self.msg_queue_count += 1\n", "", "break", "R-QUEUE.counter"),
    ("reader_wrong_slot", _F, "            return full_msg, t\n", "            return t, full_msg\n", "break", "R-QUEUE.reader"),
    ("const_order", _F, "MSG_VALUE = 15", "MSG_VALUE = 25", "break", "R-QUEUE.consts"),
    ("none_prio_mgt", _F, "msg_type = MSG_ALGO if msg_type is None else msg_type", "msg_type = MSG_MGT if msg_type is None else msg_type", "break", "R-QUEUE.consts"),
    ("none_prio_unnormalised", _F, "        msg_type = MSG_ALGO if msg_type is None else msg_type\n", "", "break", "R-QUEUE.consts"),
    ("retry_no_return", _F, "                (src_computation, dest_computation, msg, msg_type, on_error)\n            )\n            return\n", "                (src_computation, dest_computation, msg, msg_type, on_error)\n            )\n", "break"),
    ("retry_drop_type", _F, "                (src_computation, dest_computation, msg, msg_type, on_error)\n            )", "                (src_computation, dest_computation, msg, MSG_ALGO, on_error)\n            )", "break", "R-RETRY.buffer"),
    ("retry_insert_head", _F, "            self._failed.append(\n                (src_computation", "            self._failed.insert(0, \n                (src_computation", "break", "R-RETRY"),
    ("retry_reversed", _F, "for failed in self._failed[:]:", "for failed in reversed(self._failed):", "break", "R-RETRY.drain"),
    ("retry_no_copy", _F, "for failed in self._failed[:]:", "for failed in self._failed:", "break", "R-RETRY.drain"),
    ("retry_no_remove", _F, "                self.post_msg(src, dest, msg, msg_type, on_error)\n                self._failed.remove(failed)", "                self.post_msg(src, dest, msg, msg_type, on_error)", "break", "R-RETRY.drain"),
    ("retry_break_after_first", _F, "                self._failed.remove(failed)", "                self._failed.remove(failed)\n                break", "break", "R-RETRY.drain"),
    ("retry_lose_prio", _F, "self.post_msg(src, dest, msg, msg_type, on_error)", "self.post_msg(src, dest, msg, on_error=on_error)", "break", "R-RETRY.drain"),
    ("retry_wrong_filter", _F, "                if dest != computation:\n                    continue", "                if src != computation:\n                    continue", "break", "R-RETRY.drain"),
    ("not_one_shot", _F, "dest_computation, self._on_computation_registration, one_shot=True", "dest_computation, self._on_computation_registration", "break", "R-RETRY.buffer"),
    ("shutdown_clears_queue", _F, "        self._shutdown = True\n", "        self._shutdown = True\n        self._queue = PriorityQueue()\n", "break"),
    ("next_msg_checks_shutdown", _F, "    def next_msg(self, timeout: float = 0):\n        try:", "    def next_msg(self, timeout: float = 0):\n        if self._shutdown:\n            return None, None\n        try:", "break", "R-SHUTDOWN"),
    ("run_breaks_on_shutdown", _A, "                if full_msg is None:\n                    self._idle = True\n                    if self._shutdown.is_set():", "                if self._shutdown.is_set():\n                    break\n                if full_msg is None:\n                    self._idle = True\n                    if self._shutdown.is_set():", "break", "R-SHUTDOWN"),
    ("handle_skipped_on_shutdown", _A, "                        if not self._stopping.is_set():\n                            self._handle_message(sender, dest, msg, t)", "                        if not self._shutdown.is_set():\n                            self._handle_message(sender, dest, msg, t)", "break", "R-SHUTDOWN"),
    ("clean_shutdown_stops", _A, "        self._shutdown.set()\n        self._messaging.shutdown()", "        self._shutdown.set()\n        self._stopping.set()\n        self._messaging.shutdown()", "break", "R-SHUTDOWN"),
    ("inprocess_drop_type", _F, "self.messaging.post_msg(src_computation, dest_computation, msg_obj, msg_type)", "self.messaging.post_msg(src_computation, dest_computation, msg_obj)", "break", "R-QUEUE.roles"),
    ("swap_sender_dest", _A, "        dest.on_message(sender_name, msg, t)", "        dest.on_message(dest_name, msg, t)", "break", "R-QUEUE.roles"),
    ("payload_roles", _F, "full_msg = ComputationMessage(src_computation, dest_computation, msg, msg_type)", "full_msg = ComputationMessage(dest_computation, src_computation, msg, msg_type)", "break", "R-QUEUE.roles"),
    ("remote_also_queued", _F, "        if dest_agent == self._local_agent:\n            if self.logger", "        if dest_agent != self._local_agent:\n            if self.logger", "break", "R-QUEUE.once"),
    # neutral
    ("n_comment", _F, "            self.msg_queue_count += 1\n", "            self.msg_queue_count += 1  # monotonic\n", "neutral"),
    ("n_list_copy", _F, "for failed in self._failed[:]:", "for failed in list(self._failed):", "neutral"),
    ("n_rename", _F, "                src, dest, msg, msg_type, on_error = failed\n                if dest != computation:\n                    continue\n                self.logger.info(\n                    \"Retrying failed message to %s on %s : %s\", dest, agent, msg\n                )\n                self.post_msg(src, dest, msg, msg_type, on_error)",
     "                s, d, m, mt, oe = failed\n                if d != computation:\n                    continue\n                self.post_msg(s, d, m, mt, oe)", "neutral"),
]
