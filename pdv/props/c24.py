"""C24 - the ILP distribution methods (oilp_cgdp, ilp_fgdp) are cost-minimal.

The optimum is a solver result and is NOT decided.  Decided: the *model* handed
to the solver is the model of the method's own distribution_cost and hard rules,
clause by clause, on every path of the model builders:

* R-LINEAR    every product variable (beta[c,a,c',a'] = x[c,a]*x[c',a'];
              alpha[(i,j),k] = x[i,k]*f[j,k]) is constrained, on every path of its
              case analysis, to equal that product: the constraints of each path
              are evaluated over all 0/1 worlds consistent with the path's
              conditions (finite truth table over the AST of the constraints; no
              solver, no execution of repository code);
* R-REGISTER  every linearisation variable created is registered in the table
              the objective sums over, unconditionally; both orientations of an
              agent pair exist;
* R-OBJECTIVE objective and distribution_cost agree: same cost helpers with the
              arguments in the same roles, same RATIO_HOST_COMM weighting, the
              key unpacking of the objective follows the key construction,
              minimisation sense / sign coherent;
* R-HARD      hard rules: capacity (<=) for every agent, every computation hosted
              exactly once, zero hosting cost pins (== 1 here, == 0 elsewhere, and
              the bookkeeping lists the linearisation relies on record the same
              keys), ilp_fgdp's at-least-one only for agents without a pinned
              computation and over all free computations, capacity reduced by the
              pinned footprints;
* R-RESULT    non-optimal status raises; the mapping is read from variables equal
              to 1, pinned computations included.
"""
import ast
import itertools

from ..model import walk_no_nested, norm, call_name, is_self_attr
from ..facts import FuncFacts, facts_at, stmt_paths
from ..report import Ctx, AnalysisError
from ..flow import bound_arg, resolve_local, local_defs

CG = "pydcop.distribution.oilp_cgdp"
FG = "pydcop.distribution.ilp_fgdp"


# --------------------------------------------------------------------------- tiny constraint evaluator
class Foreign(Exception):
    pass


def _key_text(sub: ast.Subscript) -> str:
    s = sub.slice
    if isinstance(s, ast.Tuple):
        return "(" + ", ".join(_key_elt(e) for e in s.elts) + ")"
    return norm(s)


def _key_elt(e):
    if isinstance(e, ast.Tuple):
        return "(" + ", ".join(_key_elt(x) for x in e.elts) + ")"
    return norm(e)


def _eval(e, env, tables, is_prod):
    """Value of a linear expression in the world `env`.
    env: factor name -> 0/1 (None = this variable does not exist on this path),
    tables: table name -> {key text: factor name}; is_prod(node) recognises the
    product variable, whose candidate value is env['__prod__']."""
    if is_prod(e):
        return env["__prod__"]
    if isinstance(e, ast.Constant) and isinstance(e.value, (int, float)) and not isinstance(e.value, bool):
        return e.value
    if isinstance(e, ast.Subscript) and isinstance(e.value, ast.Name) and e.value.id in tables:
        k = _key_text(e)
        nm = tables[e.value.id].get(k)
        if nm is None:
            raise Foreign(f"{e.value.id}[{k}]")
        if env.get(nm) is None:
            raise Foreign(f"{e.value.id}[{k}] (no such decision variable on this path)")
        return env[nm]
    if isinstance(e, ast.BinOp) and isinstance(e.op, (ast.Add, ast.Sub, ast.Mult)):
        l, r = _eval(e.left, env, tables, is_prod), _eval(e.right, env, tables, is_prod)
        return l + r if isinstance(e.op, ast.Add) else l - r if isinstance(e.op, ast.Sub) else l * r
    if isinstance(e, ast.UnaryOp) and isinstance(e.op, ast.USub):
        return -_eval(e.operand, env, tables, is_prod)
    raise Foreign(norm(e))


def _holds(c: ast.Compare, env, tables, is_prod) -> bool:
    l = _eval(c.left, env, tables, is_prod)
    for op, r_ in zip(c.ops, c.comparators):
        r = _eval(r_, env, tables, is_prod)
        ok = (l == r) if isinstance(op, ast.Eq) else (l <= r) if isinstance(op, ast.LtE) else (l >= r) if isinstance(op, ast.GtE) else None
        if ok is None:
            raise Foreign(norm(c))
        if not ok:
            return False
        l = r
    return True


def _constraint_of(st):
    """`pb += <compare>` or `pb += <compare>, 'name'` -> compare node"""
    if isinstance(st, ast.AugAssign) and isinstance(st.op, ast.Add) and isinstance(st.target, ast.Name):
        v = st.value
        if isinstance(v, ast.Tuple) and v.elts:
            v = v.elts[0]
        if isinstance(v, ast.Compare):
            return v
    return None


def _bool(e, atom):
    """three-valued evaluation of a path condition; atom(text) -> bool | None"""
    if isinstance(e, ast.BoolOp):
        vals = [_bool(v, atom) for v in e.values]
        if isinstance(e.op, ast.And):
            if any(v is False for v in vals):
                return False
            return None if any(v is None for v in vals) else True
        if any(v is True for v in vals):
            return True
        return None if any(v is None for v in vals) else False
    if isinstance(e, ast.UnaryOp) and isinstance(e.op, ast.Not):
        v = _bool(e.operand, atom)
        return None if v is None else not v
    if isinstance(e, ast.Compare) and len(e.ops) == 1 and isinstance(e.ops[0], ast.NotIn):
        v = atom(norm(ast.Compare(left=e.left, ops=[ast.In()], comparators=e.comparators)))
        return None if v is None else not v
    if isinstance(e, ast.Compare) and len(e.ops) == 1 and isinstance(e.ops[0], ast.NotEq):
        v = atom(norm(ast.Compare(left=e.left, ops=[ast.Eq()], comparators=e.comparators)))
        return None if v is None else not v
    return atom(norm(e))


def _check_product(ctx, f, rule, what, paths, is_prod, worlds, tables, sense, fallback_node):
    """On every path and in every 0/1 world consistent with the path's
    conditions, the constraints mentioning the product variable must make the
    value the optimiser prefers equal to X*Y: with a non-negative cost on the
    variable (sense 'min') the smallest admissible value, with a non-negative
    gain (sense 'max') the largest.  worlds: dicts {X, Y, env, atoms}."""
    n = 0
    for p in paths:
        cons = [(s, _constraint_of(s)) for s in p.stmts if _constraint_of(s) is not None]
        cons = [(s, c) for s, c in cons if any(is_prod(x) for x in ast.walk(c))]
        if p.exit in ("continue", "break") and not cons:
            continue
        bad = None
        seen = False
        for w in worlds:
            at = w["atoms"].get
            if any((lambda v: v is not None and v != pol)(_bool(t, at)) for t, pol in p.facts):
                continue
            seen = True
            try:
                sols = []
                for b in (0, 1):
                    env = dict(w["env"])
                    env["__prod__"] = b
                    if all(_holds(c, env, tables, is_prod) for _, c in cons):
                        sols.append(b)
            except Foreign as fe:
                bad = (cons[0][0] if cons else fallback_node, f"a constraint mentions {fe}, which is not a factor of this product variable")
                break
            want = w["X"] * w["Y"]
            pick = (min(sols) if sense == "min" else max(sols)) if sols else None
            if pick != want:
                bad = (cons[0][0] if cons else fallback_node,
                       f"when {w['desc']} the admissible values are {sols}; the optimiser takes {pick}, the product is {want}")
                break
        if not seen:
            continue
        n += 1
        if bad:
            ctx.bad(rule, what, f, bad[0], "linearisation is not the product on this path: " + bad[1])
        else:
            ctx.ok(rule, what, f, cons[0][0] if cons else fallback_node)
    return n


# --------------------------------------------------------------------------- oilp_cgdp
def _cgdp(ctx, repo):
    f = repo.func(CG, "ilp_cgdp")
    ctx.touch(f)
    ff = FuncFacts(f.node)
    # registrations  betas[(k1,k2,k3,k4)] = b
    regs = [n for n in ast.walk(f.node) if isinstance(n, ast.Assign) and isinstance(n.targets[0], ast.Subscript) and norm(n.targets[0].value) == "betas"
            and isinstance(n.targets[0].slice, ast.Tuple) and len(n.targets[0].slice.elts) == 4]
    creates = [n for n in ast.walk(f.node) if isinstance(n, ast.Assign) and isinstance(n.value, ast.Call) and call_name(n.value) == "LpVariable" and isinstance(n.targets[0], ast.Name)]
    if not regs or not creates:
        raise AnalysisError("ilp_cgdp: beta variables not found")
    # each creation is followed, in the same block, unconditionally, by its registration
    parent_block = {}
    for n in ast.walk(f.node):
        for fld in ("body", "orelse", "finalbody"):
            blk = getattr(n, fld, None)
            if isinstance(blk, list):
                for i, s in enumerate(blk):
                    parent_block[id(s)] = (blk, i)
    keys = []
    for cr in creates:
        blk, i = parent_block[id(cr)]
        nm = cr.targets[0].id
        nxt = blk[i + 1] if i + 1 < len(blk) else None
        ok = nxt is not None and nxt in regs and norm(nxt.value) == nm
        ctx.check(ok, "R-REGISTER", f"beta variable created at line {cr.lineno} is registered in betas unconditionally", f, cr,
                  "a linearisation variable that is not in `betas` is left out of the objective: the solver is free to set it and the communication cost of that pair is not counted")
        if ok:
            key = [norm(e) for e in nxt.targets[0].slice.elts]
            keys.append((key, cr, nxt, blk, i + 1))
    # both orientations
    loops = [g for g in ff.guards_at(creates[0]) if g.kind == "for"]
    agent_loop = next((g for g in loops if "combinations(agt_names, 2)" in norm(g.test)), None)
    comp_loop = next((g for g in loops if "combinations(" in norm(g.test) and ".nodes" in norm(g.test)), None)
    link_loop = next((g for g in loops if norm(g.test) == "cg.links"), None)
    ok = agent_loop is not None and comp_loop is not None and link_loop is not None
    ctx.check(ok, "R-REGISTER", "beta variables range over every link, every pair of its ends and every pair of agents", f, creates[0],
              "the communication term of distribution_cost ranges over combinations(l.nodes, 2) for every link")
    if ok:
        a1, a2 = [norm(e) for e in agent_loop.node.target.elts]
        c1, c2 = [norm(e) for e in comp_loop.node.target.elts]
        have = {tuple(k) for k, *_ in keys}
        ctx.check(have == {(c1, a1, c2, a2), (c1, a2, c2, a1)}, "R-REGISTER", "both orientations (c1@a1,c2@a2) and (c1@a2,c2@a1) have a variable", f, creates[0],
                  f"found keys {sorted(have)}: a placement of the two computations on the two agents in the other order would cost nothing")
        # the only way to skip a (pair of ends, pair of agents) is that its variable already exists: `continue` under `<its key> in betas`
        # (written as a guard clause or as an enclosing `if`: every condition that dominates a registration inside the loop over the pairs)
        for key, cr, reg, blk_, _i in keys:
            for g in ff.guards_at(reg):
                if g.kind == "if" and any(n is g.node for n in ast.walk(comp_loop.node)):
                    tt = norm(g.node.test)
                    okg = (not g.pol and tt in (f"({c1}, {a1}, {c2}, {a2}) in betas", f"({c1}, {a2}, {c2}, {a1}) in betas")) or \
                          (g.pol and tt in (f"({c1}, {a1}, {c2}, {a2}) not in betas", f"({c1}, {a2}, {c2}, {a1}) not in betas"))
                    ctx.check(okg, "R-REGISTER", "a pair is skipped only when its own beta variable already exists", f, g.node,
                              "a de-duplication keyed by less than (c1, a1, c2, a2) (e.g. the pair of computations alone) creates the variables for the first pair of agents only: "
                              "communication over every other pair of agents drops out of the objective")
        skips = [x for x in ast.walk(comp_loop.node) if isinstance(x, (ast.Continue, ast.Break))]
        for sk in skips:
            fs = {(norm(t_), p_) for t_, p_ in facts_at(ff, sk)}
            oks = any(p_ and t_ in (f"({c1}, {a1}, {c2}, {a2}) in betas", f"({c1}, {a2}, {c2}, {a1}) in betas") for t_, p_ in fs) and isinstance(sk, ast.Continue)
            ctx.check(oks, "R-REGISTER", "a pair is skipped only when its own beta variable already exists", f, sk,
                      "a de-duplication keyed by less than (c1, a1, c2, a2) (e.g. the pair of computations alone) creates the variables for the first pair of agents only: "
                      "communication over every other pair of agents drops out of the objective")
    # fixed lists agree with the pin constraints
    for lst, val in (("x_fixed_to_1", 1), ("x_fixed_to_0", 0)):
        apps = [c for c in ast.walk(f.node) if isinstance(c, ast.Call) and norm(c.func) == f"{lst}.append" and len(c.args) == 1]
        ok = len(apps) == 1
        if ok:
            blk, i = parent_block[id(next(s for s in ast.walk(f.node) if isinstance(s, ast.Expr) and s.value is apps[0]))]
            prev = blk[i - 1] if i > 0 else None
            c = _constraint_of(prev) if prev is not None else None
            key = "(" + ", ".join(norm(e) for e in apps[0].args[0].elts) + ")" if isinstance(apps[0].args[0], ast.Tuple) else norm(apps[0].args[0])
            ok = c is not None and isinstance(c.left, ast.Subscript) and norm(c.left.value) == "xs" and _key_text(c.left) == key and isinstance(c.ops[0], ast.Eq) \
                and isinstance(c.comparators[0], ast.Constant) and c.comparators[0].value == val
        ctx.check(ok, "R-HARD", f"{lst} records exactly the variables constrained to {val}", f, apps[0] if apps else f.node,
                  "the linearisation replaces a product by a single variable when the other factor is in this list: the list must mirror the constraints")
    pins = [c for c in ast.walk(f.node) if isinstance(c, ast.Call) and norm(c.func) == "x_fixed_to_1.append"]
    if pins:
        fs = {(norm(t), p) for t, p in facts_at(ff, pins[0])}
        ok = any(t.endswith(".hosting_cost(comp) == 0") and p for t, p in fs)
        zero = [c for c in ast.walk(f.node) if isinstance(c, ast.Call) and norm(c.func) == "x_fixed_to_0.append"]
        okz = False
        if zero:
            fz = {(norm(t), p) for t, p in facts_at(ff, zero[0])}
            # excluded from every OTHER agent: the inner agent differs from the pinning one (named through a local or directly)
            pin_agent = next((t.split(".hosting_cost(")[0] for t, p in fz if t.endswith(".hosting_cost(comp) == 0") and p), None)
            same = {"assigned_agent", f"{pin_agent}.name"}
            def _differs(t, p):
                for op, want in ((" == ", False), (" != ", True)):
                    if op in t and p is want:
                        l, r = t.split(op, 1)
                        if (l in same) != (r in same) and (l.endswith(".name") or r.endswith(".name")):
                            return True
                return False
            okz = pin_agent is not None and any(_differs(t, p) for t, p in fz)
        ctx.check(ok and okz, "R-HARD", "zero hosting cost pins the computation on that agent and excludes it from every other agent", f, pins[0],
                  "hard rule of the method: computations with zero hosting cost are pinned")
    # ---- linearisation ------------------------------------------------------------------
    F0, F1 = "x_fixed_to_0", "x_fixed_to_1"
    for key, cr, reg, blk, i_reg in keys:
        xk, yk = f"({key[0]}, {key[1]})", f"({key[2]}, {key[3]})"
        nm = cr.targets[0].id
        j = i_reg + 1
        seg = []
        while j < len(blk) and blk[j] not in creates:
            seg.append(blk[j])
            j += 1
        tables = {"xs": {xk: "X", yk: "Y"}}
        worlds = []
        for X, Y, x0, x1, y0, y1 in itertools.product((0, 1), repeat=6):
            if (x0 and X != 0) or (x1 and X != 1) or (y0 and Y != 0) or (y1 and Y != 1):
                continue
            worlds.append({"X": X, "Y": Y, "env": {"X": X, "Y": Y},
                           "atoms": {f"{xk} in {F0}": bool(x0), f"{xk} in {F1}": bool(x1), f"{yk} in {F0}": bool(y0), f"{yk} in {F1}": bool(y1)},
                           "desc": f"xs[{xk}]={X}{' (fixed 0)' if x0 else ' (fixed 1)' if x1 else ''}, xs[{yk}]={Y}{' (fixed 0)' if y0 else ' (fixed 1)' if y1 else ''}"})
        n = _check_product(ctx, f, "R-LINEAR", f"beta[{', '.join(key)}] == xs[{xk}] * xs[{yk}]", stmt_paths(seg),
                           lambda e, nm=nm: isinstance(e, ast.Name) and e.id == nm, worlds, tables, "min", reg)
        if n == 0:
            ctx.bad("R-LINEAR", f"beta[{', '.join(key)}] is constrained", f, reg, "no linearisation constraint follows the creation of this variable")
    # ---- objective -------------------------------------------------------------------------
    obj = repo.func(CG, "_objective")
    dc = repo.func(CG, "distribution_cost")
    ctx.touch(obj)
    ctx.touch(dc)
    loops = [l for l in walk_no_nested(obj.node) if isinstance(l, ast.For) and norm(l.iter) == obj.params[1] and isinstance(l.target, ast.Tuple) and len(l.target.elts) == 4]
    ok = len(loops) == 1
    if ok:
        k = [norm(e) for e in loops[0].target.elts]
        adds = [s for s in loops[0].body if isinstance(s, ast.AugAssign) and isinstance(s.op, ast.Add)]
        ok = len(adds) == 1
        if ok:
            facs = _factors(adds[0].value)
            texts = sorted(norm(x) for x in facs)
            want = sorted([f"{obj.params[2]}({k[1]}, {k[3]})", f"{obj.params[3]}({k[0]}, {k[2]})", f"{obj.params[1]}[{k[0]}, {k[1]}, {k[2]}, {k[3]}]"])
            ok = texts == want
    ctx.check(ok, "R-OBJECTIVE", "communication term: route(a, a') * msg_load(c, c') * beta[c, a, c', a'] for every beta, unpacked in key order", obj, loops[0] if loops else obj.node,
              "the key is (computation, agent, computation, agent): route takes the two agents, msg_load the two computations in the order of the key")
    # same helpers / roles in distribution_cost
    t = norm(dc.node)
    cl = [l for l in walk_no_nested(dc.node) if isinstance(l, ast.For) and "combinations(" in norm(l.iter) and ".nodes" in norm(l.iter)]
    ok = len(cl) == 1 and isinstance(cl[0].target, ast.Tuple)
    if ok:
        c1, c2 = [norm(e) for e in cl[0].target.elts]
        ags = {norm(s.targets[0]): norm(s.value) for s in cl[0].body if isinstance(s, ast.Assign)}
        inv = {v: k for k, v in ags.items()}
        a1, a2 = inv.get(f"distribution.agent_for({c1})"), inv.get(f"distribution.agent_for({c2})")
        adds = [s for s in cl[0].body if isinstance(s, ast.AugAssign)]
        ok = a1 is not None and a2 is not None and len(adds) == 1 and sorted(norm(x) for x in _factors(adds[0].value)) == sorted([f"route({a1}, {a2})", f"msg_load({c1}, {c2})"])
        ok = ok and "route = route_fonc(agentsdef)" in t and "msg_load = msg_load_func(computation_graph, communication_load)" in t and "hosting_cost = hosting_cost_func(agentsdef)" in t
        ll = [g for g in FuncFacts(dc.node).guards_at(cl[0]) if g.kind == "for"]
        ok = ok and len(ll) == 1 and norm(ll[0].test) == "computation_graph.links"
    ctx.check(ok, "R-OBJECTIVE", "distribution_cost: same communication term over every link and every pair of its ends", dc, cl[0] if cl else dc.node,
              "the measured cost must be the cost the model minimises")
    hosts = [c for c in ast.walk(obj.node) if isinstance(c, ast.Call) and norm(c.func) == obj.params[4]]
    ok = len(hosts) == 1
    if ok:
        comp_ = next((n for n in ast.walk(obj.node) if isinstance(n, ast.ListComp) and any(h is hosts[0] for h in ast.walk(n))), None)
        ok = comp_ is not None and len(comp_.generators) == 1 and norm(comp_.generators[0].iter) == obj.params[0] and isinstance(comp_.generators[0].target, ast.Tuple)
        if ok:
            cv, av = [norm(e) for e in comp_.generators[0].target.elts]
            ok = [norm(a) for a in hosts[0].args] == [av, cv] and sorted(norm(x) for x in _factors(comp_.elt)) == sorted([f"{obj.params[4]}({av}, {cv})", f"{obj.params[0]}[{cv}, {av}]"]) \
                and not comp_.generators[0].ifs
    ctx.check(ok, "R-OBJECTIVE", "hosting term: hosting_cost(agent, computation) * x[computation, agent] for every x", obj, hosts[0] if hosts else obj.node,
              "xs is keyed (computation, agent); hosting_cost takes (agent, computation)")
    hd = [c for c in ast.walk(dc.node) if isinstance(c, ast.Call) and norm(c.func) == "hosting_cost"]
    ok = len(hd) == 1 and len(hd[0].args) == 2 and "agent = distribution.agent_for(computation.name)" in t and [norm(a) for a in hd[0].args] == ["agent", "computation.name"] \
        and "for computation in computation_graph.nodes" in t
    ctx.check(ok, "R-OBJECTIVE", "distribution_cost: hosting_cost(host agent, computation) for every computation", dc, hd[0] if hd else dc.node, "")
    # weights
    r_obj = [r for r in walk_no_nested(obj.node) if isinstance(r, ast.Return)]
    wts_o = sorted(norm(x) for x in (r_obj[0].value.args[0].elts if r_obj and isinstance(r_obj[0].value, ast.Call) and r_obj[0].value.args and isinstance(r_obj[0].value.args[0], (ast.List, ast.Tuple)) else []))
    ok = wts_o == sorted(["RATIO_HOST_COMM * comm", "(1 - RATIO_HOST_COMM) * costs"])
    ctx.check(ok, "R-OBJECTIVE", "objective = RATIO*communication + (1-RATIO)*hosting", obj, r_obj[0] if r_obj else obj.node, f"found {wts_o}")
    ctx.check("cost = RATIO_HOST_COMM * comm + (1 - RATIO_HOST_COMM) * hosting" in t and "return (cost, comm, hosting)" in t.replace("return cost, comm, hosting", "return (cost, comm, hosting)"),
              "R-OBJECTIVE", "distribution_cost = RATIO*communication + (1-RATIO)*hosting", dc, dc.node, "the two weightings must agree")
    # objective installed, minimisation
    t_f = norm(f.node)
    ctx.check("LpProblem('oilp_cgdp', LpMinimize)" in t_f, "R-OBJECTIVE", "ilp_cgdp minimises", f, f.node, "")
    inst = [s for s in f.node.body if isinstance(s, ast.AugAssign) and isinstance(s.value, ast.Tuple) and isinstance(s.value.elts[0], ast.Call) and call_name(s.value.elts[0]) == "_objective"]
    ok = len(inst) == 1 and [norm(a) for a in inst[0].value.elts[0].args] == ["xs", "betas", f.params[4], f.params[5], f.params[6]]
    ctx.check(ok, "R-OBJECTIVE", "objective installed with (xs, betas, route, msg_load, hosting_cost)", f, inst[0] if inst else f.node, "")
    # ---- hard constraints ----------------------------------------------------------------------
    _hard_loop(ctx, f, "agt_names", lambda v: (f"lpSum([{f.params[2]}(i) * xs[i, {v}] for i in cg.node_names()])", "<=", f"{f.params[3]}({v})"),
               "capacity: sum of footprints hosted on an agent <= its capacity, for every agent")
    _hard_loop(ctx, f, "cg.node_names()", lambda v: (f"lpSum([xs[{v}, a] for a in agt_names])", "==", "1"),
               "every computation hosted exactly once")
    # ---- result -------------------------------------------------------------------------------------
    _result(ctx, f, "mapping")


def _factors(e):
    if isinstance(e, ast.BinOp) and isinstance(e.op, ast.Mult):
        return _factors(e.left) + _factors(e.right)
    return [e]


def _hard_loop(ctx, f, iter_text, want, what):
    loops = [l for l in f.node.body if isinstance(l, ast.For) and norm(l.iter) == iter_text and isinstance(l.target, ast.Name)]
    found = False
    node = f.node
    for l in loops:
        v = l.target.id
        wl, wop, wr = want(v)
        for s in l.body:
            c = _constraint_of(s)
            if c is None:
                continue
            op = {"<=": ast.LtE, "==": ast.Eq, ">=": ast.GtE}[wop]
            lt = norm(c.left)
            if lt == wl:
                node = s
                if isinstance(c.ops[0], op) and norm(c.comparators[0]) == wr and s in l.body and not any(isinstance(n, (ast.Break, ast.Continue)) for n in ast.walk(l)):
                    found = True
    ctx.check(found, "R-HARD", what, f, node, f"expected, for every element of {iter_text}, the constraint `{' '.join(want('<v>'))}`")


def _result(ctx, f, var):
    t = norm(f.node)
    raises = [n for n in walk_no_nested(f.node) if isinstance(n, ast.Raise)]
    ff = FuncFacts(f.node)
    ok = any(("status != LpStatusOptimal", True) in {(norm(t_), p) for t_, p in facts_at(ff, r)} and "ImpossibleDistributionException" in norm(r) for r in raises)
    ctx.check(ok, "R-RESULT", f"{f.name}: a non-optimal solver status raises ImpossibleDistributionException", f, f.node,
              "a mapping read from a non-optimal (infeasible / undefined) status is not a minimiser")


# --------------------------------------------------------------------------- ilp_fgdp
def _fgdp(ctx, repo):
    f = repo.func(FG, "factor_graph_lp_model")
    ctx.touch(f)
    ff = FuncFacts(f.node)
    t = norm(f.node)
    # linearisation loop
    ll = [l for l in f.node.body if isinstance(l, ast.For) and norm(l.iter) == "cg.links"]
    lin = None
    for l in ll:
        inner = [x for x in l.body if isinstance(x, ast.For) and norm(x.iter) == "agents_names"]
        if inner and any(_constraint_of(s) is not None and "alphas[" in norm(s) for s in ast.walk(inner[0]) if isinstance(s, ast.stmt)):
            lin = (l, inner[0])
    if lin is None:
        ctx.bad("R-LINEAR", "alpha variables are constrained for every link and agent", f, f.node, "no loop over cg.links x agents_names constraining alphas[...]")
        return
    l, inner = lin
    un = [s for s in l.body if isinstance(s, ast.Assign) and isinstance(s.targets[0], ast.Tuple) and norm(s.value) == f"{norm(l.target)}.variable_node, {norm(l.target)}.factor_node".replace(", ", ", ")]
    un = [s for s in l.body if isinstance(s, ast.Assign) and isinstance(s.targets[0], ast.Tuple) and isinstance(s.value, ast.Tuple) and [norm(e) for e in s.value.elts] == [f"{norm(l.target)}.variable_node", f"{norm(l.target)}.factor_node"]]
    if len(un) != 1:
        raise AnalysisError("factor_graph_lp_model: (i, j) = link.variable_node, link.factor_node not found")
    iv, jv = [norm(e) for e in un[0].targets[0].elts]
    kv = norm(inner.target)
    prod_text = f"alphas[(({iv}, {jv}), {kv})]"
    tables = {"xs": {f"({iv}, {kv})": "X"}, "fs": {f"({jv}, {kv})": "Y"}}
    worlds = []
    for X, Y, fi, fj in itertools.product((0, 1), repeat=4):
        # a free computation has a decision variable; a pinned one is on agent k iff fixed_dist.agent_for(.) == k
        worlds.append({"X": X, "Y": Y, "env": {"X": X if fi else None, "Y": Y if fj else None},
                       "atoms": {f"{iv} in vars_to_host": bool(fi), f"{jv} in facs_to_host": bool(fj),
                                 f"fixed_dist.agent_for({iv}) == {kv}": (bool(X) if not fi else None),
                                 f"fixed_dist.agent_for({jv}) == {kv}": (bool(Y) if not fj else None)},
                       "desc": f"x_i^k={X} ({'free' if fi else 'pinned'}), f_j^k={Y} ({'free' if fj else 'pinned'})"})
    n = _check_product(ctx, f, "R-LINEAR", "alpha[(i,j),k] == x_i^k * f_j^k on every path of the free/pinned case analysis", stmt_paths(inner.body),
                       lambda e: isinstance(e, ast.Subscript) and isinstance(e.value, ast.Name) and e.value.id == "alphas" and f"alphas[{_key_text(e)}]" == prod_text,
                       worlds, tables, "max", inner)
    if n == 0:
        ctx.bad("R-LINEAR", "alpha variables are constrained", f, inner, "no path constrains alphas[((i, j), k)]")
    others = [x for x in ast.walk(inner) if isinstance(x, ast.Subscript) and isinstance(x.value, ast.Name) and x.value.id == "alphas" and f"alphas[{_key_text(x)}]" != prod_text]
    ctx.check(not others, "R-LINEAR", "only alpha[(i,j),k] of the current link and agent is constrained in the loop", f, others[0] if others else inner, "")
    # alpha variables exist for every link and agent
    ba = repo.func(FG, "_build_alphaijk_binvars")
    ta = norm(ba.node)
    ctx.check("[(link.variable_node, link.factor_node) for link in cg.links]" in ta and "agents_names" in ta and "LpVariable.dict" in ta, "R-REGISTER",
              "one alpha variable per (link, agent), keyed ((variable, factor), agent)", ba, ba.node, "")
    # objective
    of = repo.func(FG, "_objective_function")
    ctx.touch(of)
    comp = [n_ for n_ in ast.walk(of.node) if isinstance(n_, ast.ListComp)]
    ok = len(comp) == 1 and len(comp[0].generators) == 2 and not any(g.ifs for g in comp[0].generators)
    if ok:
        g1, g2 = comp[0].generators
        lv, kv2 = norm(g1.target), norm(g2.target)
        ok = norm(g1.iter) == "cg.links" and norm(g2.iter) == of.params[3]
        facs = _factors(comp[0].elt)
        texts = sorted(norm(x) for x in facs)
        want = sorted([f"-{of.params[1]}(cg.computation({lv}.variable_node), {lv}.factor_node)", f"{of.params[2]}[({lv}.variable_node, {lv}.factor_node), {kv2}]"])
        ok = ok and texts == want
    ctx.check(ok and "LpProblem('distribution', LpMinimize)" in t, "R-OBJECTIVE", "objective = minimise -sum(load(variable, factor) * alpha) over every link and agent", of, comp[0] if comp else of.node,
              "co-located ends save their communication load: with LpMinimize the term must be negated; key order ((variable, factor), agent)")
    inst = [s for s in f.node.body if isinstance(s, ast.AugAssign) and isinstance(s.value, ast.Tuple) and isinstance(s.value.elts[0], ast.Call) and call_name(s.value.elts[0]) == "_objective_function"]
    ok = len(inst) == 1 and [norm(a) for a in inst[0].value.elts[0].args] == ["cg", f.params[4], "alphas", "agents_names"]
    ctx.check(ok, "R-OBJECTIVE", "objective installed with (cg, communication_load, alphas, agents_names)", f, inst[0] if inst else f.node, "")
    dc = repo.func(FG, "distribution_cost")
    ctx.touch(dc)
    td = norm(dc.node)
    cl = [x for x in ast.walk(dc.node) if isinstance(x, ast.For) and "combinations(" in norm(x.iter) and ".nodes" in norm(x.iter)]
    ok = len(cl) == 1
    if ok:
        c1, c2 = [norm(e) for e in cl[0].target.elts]
        ffd = FuncFacts(dc.node)
        adds = [s for s in ast.walk(cl[0]) if isinstance(s, ast.AugAssign) and norm(s.target) == "comm"]
        ok = len(adds) == 1
        if ok:
            fs = {(norm(a), b) for a, b in facts_at(ffd, adds[0])}
            v = resolve_local(dc, adds[0].value)
            ok = (f"distribution.agent_for({c1}) != distribution.agent_for({c2})", True) in fs and norm(v) == f"communication_load(computation_graph.computation({c1}), {c2})"
    ctx.check(ok, "R-OBJECTIVE", "distribution_cost: communication load of every link whose ends are on different agents", dc, cl[0] if cl else dc.node,
              "the model maximises the load saved by co-location; the measure must charge exactly the non co-located pairs")
    # ---- hard rules --------------------------------------------------------------------------
    for lst, tbl, what in (("vars_to_host", "xs", "variable"), ("facs_to_host", "fs", "factor")):
        loops = [x for x in f.node.body if isinstance(x, ast.For) and norm(x.iter) == lst]
        ok = False
        node = f.node
        for x in loops:
            v = norm(x.target)
            for s in x.body:
                c = _constraint_of(s)
                if c is not None and norm(c.left) == f"lpSum([{tbl}[{v}, k] for k in agents_names])":
                    node = s
                    ok = isinstance(c.ops[0], ast.Eq) and norm(c.comparators[0]) == "1"
        ctx.check(ok, "R-HARD", f"every free {what} computation hosted exactly once", f, node, "")
        d = local_defs(f, lst)
        okd = len(d) == 1 and isinstance(d[0], ast.ListComp) and len(d[0].generators[0].ifs) == 1 and norm(d[0].generators[0].ifs[0]) == f"not fixed_dist.has_computation({norm(d[0].generators[0].target)}.name)" \
            and norm(d[0].elt) == f"{norm(d[0].generators[0].target)}.name"
        ctx.check(okd, "R-HARD", f"free {what}s = those the pinned distribution does not already host", f, f.node, "")
    ctx.check("fixed_dist = Distribution(must_host)" in t, "R-HARD", "pinned distribution built from must_host", f, f.node, "")
    # at least one
    alo = []
    for s in ast.walk(f.node):
        c = _constraint_of(s) if isinstance(s, ast.stmt) else None
        if c is not None and isinstance(c.ops[0], ast.GtE) and norm(c.comparators[0]) == "1" and "lpSum" in norm(c.left):
            alo.append((s, c))
    ok = len(alo) == 1
    if ok:
        s, c = alo[0]
        g = [x for x in ff.guards_at(s) if x.kind == "for"]
        ok = len(g) == 1
        if ok:
            kv3 = norm(g[0].node.target)
            src = resolve_local(f, g[0].test)
            filt = False
            if isinstance(src, ast.ListComp) and len(src.generators) == 1 and norm(src.generators[0].iter) == "agents_names":
                a = norm(src.generators[0].target)
                filt = [norm(x) for x in src.generators[0].ifs] == [f"not must_host[{a}]"] and norm(src.elt) == a
            elif norm(src) == "agents_names":
                fs = {(norm(a), b) for a, b in facts_at(ff, s)}
                filt = (f"must_host[{kv3}]", False) in fs or (f"not must_host[{kv3}]", True) in fs
            lhs = norm(c.left)
            both = f"lpSum([xs[({ '%s' }, {kv3})] for { '%s' } in vars_to_host])"
            terms = _sum_terms(c.left)
            tt = sorted(norm(x) for x in terms)
            want_t = sorted([f"lpSum([xs[i, {kv3}] for i in vars_to_host])", f"lpSum([fs[j, {kv3}] for j in facs_to_host])"])
            ok = filt and tt == want_t
    ctx.check(ok, "R-HARD", "at-least-one constraint only for agents without a pinned computation, over all free computations", f, alo[0][0] if alo else f.node,
              "an agent that already hosts a pinned computation satisfies 'every agent hosts something': forcing one more free computation on it excludes the true optimum")
    # capacity
    cap = [s for s in ast.walk(f.node) if isinstance(s, ast.stmt) and _constraint_of(s) is not None and isinstance(_constraint_of(s).ops[0], ast.LtE) and "_computation_memory_in_cg" in norm(s)]
    ok = len(cap) == 1
    if ok:
        c = _constraint_of(cap[0])
        g = [x for x in ff.guards_at(cap[0]) if x.kind == "for"]
        ok = len(g) == 1 and norm(g[0].test) == "agents"
        if ok:
            av = norm(g[0].node.target)
            rhs = resolve_local(f, c.comparators[0])
            # capacity = a.capacity - sum(mem(c) for c in must_host[a.name])
            rd = [s_.value for s_ in g[0].node.body if isinstance(s_, ast.Assign) and norm(s_.targets[0]) == norm(c.comparators[0])]
            ok = len(rd) == 1 and isinstance(rd[0], ast.BinOp) and isinstance(rd[0].op, ast.Sub) and norm(rd[0].left) == f"{av}.capacity" and \
                norm(rd[0].right) == f"sum([_computation_memory_in_cg(c, cg, computation_memory) for c in must_host[{av}.name]])"
            terms = sorted(norm(x) for x in _sum_terms(c.left))
            want_t = sorted([f"lpSum([_computation_memory_in_cg(i, cg, computation_memory) * xs[i, {av}.name] for i in vars_to_host])",
                             f"lpSum([_computation_memory_in_cg(j, cg, computation_memory) * fs[j, {av}.name] for j in facs_to_host])"])
            ok = ok and terms == want_t
    ctx.check(ok, "R-HARD", "capacity: footprints of the free computations placed on an agent <= its capacity minus its pinned footprints, for every agent", f, cap[0] if cap else f.node, "")
    # must_host built from zero hosting cost
    d = repo.func(FG, "distribute")
    apps = [c for c in ast.walk(d.node) if isinstance(c, ast.Call) and isinstance(c.func, ast.Attribute) and c.func.attr == "append" and norm(c.func.value).startswith("must_host[")]
    ok = len(apps) == 1
    if ok:
        fs = {(norm(a), b) for a, b in facts_at(FuncFacts(d.node), apps[0])}
        ok = ("agent.hosting_cost(comp) == 0", True) in fs and norm(apps[0].func.value) == "must_host[agent.name]" and norm(apps[0].args[0]) == "comp"
    ctx.check(ok, "R-HARD", "zero hosting cost pins the computation on that agent (must_host)", d, apps[0] if apps else d.node, "")
    call = [c for c in ast.walk(d.node) if isinstance(c, ast.Call) and call_name(c) == "factor_graph_lp_model"]
    ok = len(call) == 1 and [norm(a) for a in call[0].args] == [d.params[0], "agents", "must_host", d.params[3], d.params[4]]
    ctx.check(ok, "R-HARD", "distribute hands (graph, agents, must_host, memory, load) to the model builder", d, call[0] if call else d.node, "")
    # result
    _result(ctx, f, "comp_dist")
    # for every agent k: host_on_agent(k, the computations whose solved variable for k is 1), once for the variables (xs) and once for the factors (fs);
    # the selection may be named first or written in the call, with any comprehension variable names
    from ..normalise import canon as _canon
    hosts = [c for c in ast.walk(f.node) if isinstance(c, ast.Call) and norm(c.func) == "comp_dist.host_on_agent" and len(c.args) == 2]
    ffr = FuncFacts(f.node)
    got_sel = []
    for c in hosts:
        g = [x for x in ffr.guards_at(c) if x.kind == "for"]
        kv = norm(g[-1].node.target) if g else None
        sel = c.args[1]
        if isinstance(sel, ast.Name) and g:
            defs = [s_.value for s_ in g[-1].node.body if isinstance(s_, ast.Assign) and norm(s_.targets[0]) == sel.id]
            sel = defs[0] if len(defs) == 1 else sel
        got_sel.append((norm(g[-1].test) if g else None, norm(c.args[0]) == kv, _canon(sel) if isinstance(sel, ast.ListComp) else norm(sel)))
    want_sel = sorted(("agents_names", True, _canon(ast.parse(f"[i for i, ka in {d_} if ka == k and value({d_}[i, ka]) == 1]", mode="eval").body)) for d_ in ("xs", "fs"))
    ok = "comp_dist = fixed_dist" in t and sorted(got_sel) == want_sel and (not hosts or all(norm(ffr.guards_at(c)[-1].node.target) == "k" for c in hosts if ffr.guards_at(c)))
    ctx.check(ok, "R-RESULT", "result = pinned computations + every free computation on the agent whose variable is 1", f, f.node, "")


def _sum_terms(e):
    if isinstance(e, ast.BinOp) and isinstance(e.op, ast.Add):
        return _sum_terms(e.left) + _sum_terms(e.right)
    return [e]


def check(ctx: Ctx):
    repo = ctx.repo
    ctx.decided = ("the ILP models of oilp_cgdp and ilp_fgdp: every linearisation variable equals the product it stands for on every path of its "
                   "case analysis (finite truth table over the constraint ASTs), is registered for the objective, the objective agrees with "
                   "distribution_cost term by term, the hard rules (capacity, hosted once, zero-cost pins, at-least-one for unpinned agents) are "
                   "stated with the right relation over the right index sets, non-optimal status raises, the mapping is read from variables at 1.")
    ctx.undecided = ("optimality of the solver's answer; that the model has no further error not listed; symmetry of user-supplied communication loads "
                     "(ilp_fgdp's objective uses load(variable, factor), its distribution_cost the order of the link's node set).")
    ctx.rule("R-LINEAR", "each product variable is constrained to the product of its two factors on every path (truth table over the constraint ASTs)")
    ctx.rule("R-REGISTER", "every linearisation variable is in the table the objective sums over; both agent orientations exist")
    ctx.rule("R-OBJECTIVE", "objective and distribution_cost agree term by term (helpers, argument roles, weights, sense)")
    ctx.rule("R-HARD", "hard rules stated with the right relation over the right index sets; bookkeeping lists mirror the pin constraints")
    ctx.rule("R-RESULT", "non-optimal status raises; mapping read from variables equal to 1")
    _cgdp(ctx, repo)
    _fgdp(ctx, repo)
    ctx.floor("R-LINEAR", 12)
    ctx.floor("R-OBJECTIVE", 9)
    ctx.floor("R-HARD", 10)


_C = "pydcop/distribution/oilp_cgdp.py"
_Fg = "pydcop/distribution/ilp_fgdp.py"
VARIANTS = [
    ("betas_deduplicated_by_computation_pair", "pydcop/distribution/oilp_cgdp.py", ["    betas = {}\n    count = 0\n", "                if (c1, a1, c2, a2) in betas:\n                    continue\n"], ["    betas = {}\n    linked = set()\n    count = 0\n", "                if (c1, c2) in linked:\n                    continue\n                linked.add((c1, c2))\n"], "break", "R-REGISTER"),
    ("cgdp_second_block_copy_paste", _C, "                elif (c1, a2) in x_fixed_to_1:\n                    pb += b == xs[(c2, a1)]", "                elif (c1, a2) in x_fixed_to_1:\n                    pb += b == xs[(c2, a2)]", "break", "R-LINEAR"),
    ("cgdp_register_in_else", _C, "                b = LpVariable(\"b_{}_{}_{}_{}\".format(c1, a2, c2, a1), cat=LpBinary)\n                betas[(c1, a2, c2, a1)] = b\n                if (c1, a2) in x_fixed_to_0 or (c2, a1) in x_fixed_to_0:\n                    pb += b == 0",
     "                b = LpVariable(\"b_{}_{}_{}_{}\".format(c1, a2, c2, a1), cat=LpBinary)\n                if (c1, a2) in x_fixed_to_0 or (c2, a1) in x_fixed_to_0:\n                    pb += b == 0", "break", "R-REGISTER"),
    ("cgdp_lower_bound_dropped", _C, "                    pb += b <= xs[(c2, a2)]\n                    pb += b >= xs[(c2, a2)] + xs[(c1, a1)] - 1\n", "                    pb += b <= xs[(c2, a2)]\n", "break", "R-LINEAR"),
    ("cgdp_fixed1_swapped", _C, "                elif (c1, a1) in x_fixed_to_1:\n                    pb += b == xs[(c2, a2)]\n                elif (c2, a2) in x_fixed_to_1:\n                    pb += b == xs[(c1, a1)]",
     "                elif (c1, a1) in x_fixed_to_1:\n                    pb += b == xs[(c1, a1)]\n                elif (c2, a2) in x_fixed_to_1:\n                    pb += b == xs[(c2, a2)]", "break", "R-LINEAR"),
    ("cgdp_zero_test_and", _C, "                if (c1, a1) in x_fixed_to_0 or (c2, a2) in x_fixed_to_0:\n                    pb += b == 0\n                elif (c1, a1) in x_fixed_to_1:\n                    pb += b == xs[(c2, a2)]",
     "                if (c1, a1) in x_fixed_to_0 or (c2, a2) in x_fixed_to_1:\n                    pb += b == 0\n                elif (c1, a1) in x_fixed_to_1:\n                    pb += b == xs[(c2, a2)]", "break", "R-LINEAR"),
    ("cgdp_objective_roles_swapped", _C, "        comm += route(a1, a2) * msg_load(c1, c2) * betas[(c1, a1, c2, a2)]", "        comm += route(c1, c2) * msg_load(a1, a2) * betas[(c1, a1, c2, a2)]", "break", "R-OBJECTIVE"),
    ("cgdp_objective_unpack_order", _C, "    for c1, a1, c2, a2 in betas:\n", "    for c1, c2, a1, a2 in betas:\n", "break", "R-OBJECTIVE"),
    ("cgdp_weights_swapped", _C, "    return lpSum([RATIO_HOST_COMM * comm, (1 - RATIO_HOST_COMM) * costs])", "    return lpSum([(1 - RATIO_HOST_COMM) * comm, RATIO_HOST_COMM * costs])", "break", "R-OBJECTIVE"),
    ("cgdp_hosting_args_swapped", _C, "    costs = lpSum([hosting_cost(a, c) * xs[(c, a)] for c, a in xs])", "    costs = lpSum([hosting_cost(c, a) * xs[(c, a)] for c, a in xs])", "break", "R-OBJECTIVE"),
    ("cgdp_capacity_ge", _C, "            lpSum([footprint(i) * xs[i, a] for i in cg.node_names()]) <= capacity(a),", "            lpSum([footprint(i) * xs[i, a] for i in cg.node_names()]) >= capacity(a),", "break", "R-HARD"),
    ("cgdp_hosted_at_least", _C, "            lpSum([xs[c, a] for a in agt_names]) == 1,", "            lpSum([xs[c, a] for a in agt_names]) >= 1,", "break", "R-HARD"),
    ("cgdp_fixed0_list_wrong_key", _C, "                    x_fixed_to_0.append((comp, other_agent.name))", "                    x_fixed_to_0.append((comp, agent.name))", "break", "R-HARD"),
    ("cgdp_status_ignored", _C, "    if status != LpStatusOptimal:\n        raise ImpossibleDistributionException(f\"No possible optimal distribution {status}\")\n", "", "break", "R-RESULT"),
    ("fgdp_atleastone_all_agents", _Fg, "    empty_agents = [a for a in agents_names if not must_host[a]]\n    for k in empty_agents:\n", "    for k in agents_names:\n", "break", "R-HARD"),
    ("fgdp_lin_pinned_factor_wrong", _Fg, "                if fixed_dist.agent_for(j) == k:\n                    pb += alphas[((i, j), k)] == xs[(i, k)]\n                else:\n                    pb += alphas[((i, j), k)] == 0",
     "                if fixed_dist.agent_for(j) == k:\n                    pb += alphas[((i, j), k)] == 1\n                else:\n                    pb += alphas[((i, j), k)] == 0", "break", "R-LINEAR"),
    ("fgdp_lin_both_pinned_or", _Fg, "                if fixed_dist.agent_for(i) == k and fixed_dist.agent_for(j) \\\n                        == k:", "                if fixed_dist.agent_for(i) == k or fixed_dist.agent_for(j) \\\n                        == k:", "break", "R-LINEAR"),
    ("fgdp_lin3_missing", _Fg, "                pb += alphas[((i, j), k)] >= xs[(i, k)] + fs[(j, k)] - 1, \\\n                    'lin3 {}{}{}'.format(i, j, k)\n", "", "neutral"),
    ("fgdp_lin1_missing", _Fg, "                pb += alphas[((i, j), k)] <= xs[(i, k)], \\\n                    'lin1 {}{}{}'.format(i, j, k)\n", "", "break", "R-LINEAR"),
    ("fgdp_objective_sign", _Fg, "    return lpSum([-communication_load(cg.computation(link.variable_node),", "    return lpSum([communication_load(cg.computation(link.variable_node),", "break", "R-OBJECTIVE"),
    ("fgdp_capacity_ignores_pinned", _Fg, "        capacity = a.capacity - \\\n                   sum([_computation_memory_in_cg(c, cg, computation_memory)\n                        for c in must_host[a.name]])\n", "        capacity = a.capacity\n", "break", "R-HARD"),
    ("fgdp_cost_charges_colocated", _Fg, "            if distribution.agent_for(c1) != distribution.agent_for(c2):", "            if distribution.agent_for(c1) == distribution.agent_for(c2):", "break", "R-OBJECTIVE"),
    ("n_cgdp_lin_reordered", _C, "                    pb += b <= xs[(c1, a1)]\n                    pb += b <= xs[(c2, a2)]\n                    pb += b >= xs[(c2, a2)] + xs[(c1, a1)] - 1\n",
     "                    pb += b >= xs[(c1, a1)] + xs[(c2, a2)] - 1\n                    pb += b <= xs[(c2, a2)]\n                    pb += xs[(c1, a1)] >= b\n", "neutral"),
    ("n_cgdp_branch_order", _C, "                if (c1, a1) in x_fixed_to_0 or (c2, a2) in x_fixed_to_0:\n                    pb += b == 0\n                elif (c1, a1) in x_fixed_to_1:\n                    pb += b == xs[(c2, a2)]\n                elif (c2, a2) in x_fixed_to_1:\n                    pb += b == xs[(c1, a1)]",
     "                if (c1, a1) in x_fixed_to_0 or (c2, a2) in x_fixed_to_0:\n                    pb += b == 0\n                elif (c2, a2) in x_fixed_to_1:\n                    pb += b == xs[(c1, a1)]\n                elif (c1, a1) in x_fixed_to_1:\n                    pb += b == xs[(c2, a2)]", "neutral"),
]
