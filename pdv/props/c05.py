"""C05 - Max-Sum without damping is exact on acyclic factor graphs.

Decided: objective propagation and comparator coherence of the marginal /
selection helpers, message content structure (a factor's marginal excludes the
recipient's own message, a variable's message excludes the recipient factor and
includes the variable's own cost), no-echo rule of the asynchronous version,
stability cut-off structure, protocol table, damping formula.
"""
import ast

from ..model import walk_no_nested, norm, call_name, is_self_attr
from ..facts import FuncFacts, facts_at
from ..report import Ctx, AnalysisError
from .. import moderules as M

MS = "pydcop.algorithms.maxsum"
AMS = "pydcop.algorithms.amaxsum"


def _facts(ff, node):
    return {(norm(t), p) for t, p in facts_at(ff, node)}


def _cutoff(ctx, f, loop, key_expr, costs_name, same_count):
    """if not approx_match(c, prev, coef): post + store (c, 1)
       elif count < SAME_COUNT:         post + store (c, count + 1)
       else: nothing"""
    ff = FuncFacts(f.node)
    posts = [c for c in ast.walk(loop) if isinstance(c, ast.Call) and is_self_attr(c.func, "post_msg")]
    stores = [n for n in ast.walk(loop) if isinstance(n, ast.Assign) and isinstance(n.targets[0], ast.Subscript) and is_self_attr(n.targets[0].value, "_prev_messages")]
    unp = [n for n in ast.walk(loop) if isinstance(n, ast.Assign) and isinstance(n.targets[0], ast.Tuple) and isinstance(n.value, ast.Subscript)
           and is_self_attr(n.value.value, "_prev_messages")]
    inst = f"{f.qualname}"
    if len(unp) != 1 or len(posts) != 2 or len(stores) != 2:
        ctx.bad("R-CUTOFF", f"{inst}: two sending branches", f, loop, f"expected one read of the previous message, two sends and two stores, found {len(unp)}/{len(posts)}/{len(stores)}")
        return
    prev, count = [norm(e) for e in unp[0].targets[0].elts]
    am_true = None
    for p_, s_ in zip(sorted(posts, key=lambda x: x.lineno), sorted(stores, key=lambda x: x.lineno)):
        fp, fs = _facts(ff, p_), _facts(ff, s_)
        same = {x for x in fp if "approx_match" in x[0] or "SAME_COUNT" in x[0]} == {x for x in fs if "approx_match" in x[0] or "SAME_COUNT" in x[0]}
        ctx.check(same, "R-CUTOFF", f"{inst}: the message sent is the message remembered", f, s_, "each send must be paired with the store of what was sent, on the same branch")
        am = [x for x in fp if "approx_match" in x[0]]
        okm = len(am) == 1 and am[0][0].split("approx_match")[1].startswith(f"({costs_name}, {prev}, self.stability_coef)")
        ctx.check(okm, "R-CUTOFF", f"{inst}: stability test on (new costs, previous costs, stability)", f, p_, "the cut-off compares the new message with the previous one sent to the same neighbour")
        payload = p_.args[1]
        ctx.check(isinstance(payload, ast.Call) and call_name(payload) == "MaxSumMessage" and norm(payload.args[0]) == costs_name and norm(p_.args[0]) == key_expr,
                  "R-CUTOFF", f"{inst}: payload and recipient", f, p_, f"the message to {key_expr} must carry {costs_name}")
        if am and am[0][1] is False:
            ok = norm(s_.value) == f"({costs_name}, 1)" and not any("SAME_COUNT" in x[0] for x in fp)
            ctx.check(ok, "R-CUTOFF", f"{inst}: a changed message is always sent and restarts the count at 1", f, s_, "")
        else:
            lt = [x for x in fp if "SAME_COUNT" in x[0]]
            ok = len(lt) == 1 and lt[0] == (f"{count} < {same_count}", True) and norm(s_.value) == f"({costs_name}, {count} + 1)"
            ctx.check(ok, "R-CUTOFF", f"{inst}: an unchanged message is re-sent while count < SAME_COUNT, count + 1 stored", f, s_,
                      "a stable message is repeated a bounded number of times; the counter must advance or it repeats for ever")


def _peval(e, env):
    """Partial evaluation of a boolean expression; env: expression text -> python constant or ast node.
    Returns True / False / residual ast."""
    t = norm(e)
    if t in env:
        v = env[t]
        return _peval(v, env) if isinstance(v, ast.AST) else v
    if isinstance(e, ast.Constant):
        return e.value
    if isinstance(e, ast.UnaryOp) and isinstance(e.op, ast.Not):
        v = _peval(e.operand, env)
        return (not v) if isinstance(v, bool) else ast.UnaryOp(op=ast.Not(), operand=v)
    if isinstance(e, ast.BoolOp):
        is_or = isinstance(e.op, ast.Or)
        rest = []
        for x in e.values:
            v = _peval(x, env)
            if isinstance(v, bool):
                if v == is_or:
                    return is_or
                continue
            rest.append(v)
        if not rest:
            return not is_or
        return rest[0] if len(rest) == 1 else ast.BoolOp(op=e.op, values=rest)
    if isinstance(e, ast.Compare) and len(e.ops) == 1:
        l, r = _peval(e.left, env), _peval(e.comparators[0], env)
        if isinstance(l, str) and not isinstance(l, ast.AST):
            if isinstance(r, str):
                if isinstance(e.ops[0], ast.Eq):
                    return l == r
                if isinstance(e.ops[0], ast.NotEq):
                    return l != r
            if isinstance(e.comparators[0], (ast.List, ast.Tuple, ast.Set)) and all(isinstance(x, ast.Constant) for x in e.comparators[0].elts):
                vals = [x.value for x in e.comparators[0].elts]
                if isinstance(e.ops[0], ast.In):
                    return l in vals
                if isinstance(e.ops[0], ast.NotIn):
                    return l not in vals
    return e


def _disjuncts(e):
    if isinstance(e, bool):
        return [e]
    if isinstance(e, ast.BoolOp) and isinstance(e.op, ast.Or):
        out = []
        for v in e.values:
            out += _disjuncts(v)
        return out
    return [e]


def _async_factor(ctx, repo):
    """R-ASYNC (from a triaged defect): a factor that defers its answers until it has heard from all its
    variables (a) must not defer in a start mode where some variables stay silent until they receive
    something, (b) must answer the sender too at the moment the set becomes complete."""
    af = repo.func(AMS, "MaxSumFactorComputation._on_maxsum_msg")
    avs = repo.func(AMS, "MaxSumVariableComputation.on_start")
    sender = af.params[1]
    modes = None
    for c in ast.walk(repo.module(MS).tree):
        if isinstance(c, ast.Call) and call_name(c) == "AlgoParameterDef" and c.args and norm(c.args[0]) == "'start_messages'" and len(c.args) >= 3 and isinstance(c.args[2], ast.List):
            modes = [x.value for x in c.args[2].elts if isinstance(x, ast.Constant)]
    if not modes:
        ctx.bad("R-ASYNC", "start_messages values", repo.module(MS), repo.module(MS).tree, "the enumeration of start modes was not found")
        return
    # modes in which every variable sends at start (its init send is not restricted to leaves)
    ffs = FuncFacts(avs.node)
    all_send = set()
    posts = [c for c in ast.walk(avs.node) if isinstance(c, ast.Call) and is_self_attr(c.func, "post_msg")]
    for m in modes:
        for c in posts:
            conds = [(t, p) for t, p in facts_at(ffs, c)]
            val = True
            for t, p in conds:
                v = _peval(t if p else ast.UnaryOp(op=ast.Not(), operand=t), {"self.start_messages": m})
                if v is False:
                    val = False
                    break
                if v is not True:
                    val = None if val is True else val
            if val is True:
                all_send.add(m)
    ctx.check(bool(all_send), "R-ASYNC", "A-MaxSum variable: at least one start mode makes every variable send", avs, avs.node, "")
    calls = [c for c in ast.walk(af.node) if isinstance(c, ast.Call) and norm(c.func) == "maxsum.factor_costs_for_var"]
    if len(calls) != 1:
        ctx.bad("R-ASYNC", "A-MaxSum factor: one place computes the answers", af, af.node, f"found {len(calls)}")
        return
    ff = FuncFacts(af.node)
    defs = {}
    for n_ in walk_no_nested(af.node):
        if isinstance(n_, ast.Assign) and len(n_.targets) == 1 and isinstance(n_.targets[0], ast.Name):
            defs.setdefault(n_.targets[0].id, []).append(n_)
    env0 = {k: v[0].value for k, v in defs.items() if len(v) == 1 and "start_messages" in norm(v[0].value)}
    store = [n_ for n_ in walk_no_nested(af.node) if isinstance(n_, ast.Assign) and norm(n_.targets[0]) == f"self._costs[{sender}]"]
    conds = [(t, p) for t, p in ff.conds_at(calls[0])]
    for m in modes:
        env = dict(env0)
        env["self.start_messages"] = m
        gated, others = False, []
        for t, p in conds:
            v = _peval(t if p else ast.UnaryOp(op=ast.Not(), operand=t), env)
            if v is True:
                continue
            if v is False:
                ctx.bad("R-ASYNC", f"A-MaxSum factor ({m}): answers are computed", af, calls[0], f"under start_messages={m!r} the factor never answers")
                break
            txt = norm(v)
            if "len(self._costs)" in txt:
                gated = True
                ctx.check(txt in ("len(self._costs) == len(self.factor.dimensions)", "len(self._costs) == len(self.variables)",
                                  "len(self._costs) >= len(self.factor.dimensions)", "len(self._costs) >= len(self.variables)"),
                          "R-ASYNC", f"A-MaxSum factor ({m}): deferral waits exactly for all variables", af, calls[0], f"found `{txt}`")
            else:
                others.append(v)
        else:
            ctx.check(not gated or m in all_send, "R-ASYNC", f"A-MaxSum factor ({m}): deferred answers need every variable to send at start", af, calls[0],
                      f"under start_messages={m!r} inner variables send nothing until they receive a message, while the factor waits for all its variables: nobody ever sends (deadlock on any tree deeper than one hop)")
            # who is excluded?
            for v in others:
                ds = _disjuncts(v)
                txts = [norm(d) if isinstance(d, ast.AST) else repr(d) for d in ds]
                excl_sender = f"v.name != {sender}" in txts or f"{sender} != v.name" in txts
                rest = [d for d, t_ in zip(ds, txts) if t_ not in (f"v.name != {sender}", f"{sender} != v.name")]
                ctx.check(excl_sender, "R-ASYNC", f"A-MaxSum factor ({m}): only the sender may be skipped", af, calls[0], f"unexpected restriction `{norm(v)}` on the recipients")
                if gated:
                    first = False
                    for d in rest:
                        dn = d
                        if isinstance(d, ast.Name) and d.id in defs and len(defs[d.id]) == 1:
                            dn = defs[d.id][0]
                            ok_def = norm(dn.value) == f"{sender} not in self._costs" and store and dn.lineno < store[0].lineno
                            first = first or bool(ok_def)
                    ctx.check(first, "R-ASYNC", f"A-MaxSum factor ({m}): the message completing the set is answered to its sender too", af, calls[0],
                              "while waiting for all variables nothing was sent: the variable whose first message completes the set must receive its costs, "
                              "they depend on the other variables' messages received meanwhile")
            if gated and not others:
                ctx.ok("R-ASYNC", f"A-MaxSum factor ({m}): all variables answered when the set is complete", af, calls[0])


def _slot_getter(e, i) -> bool:
    """`lambda p: p[i]` for any parameter name"""
    return isinstance(e, ast.Lambda) and len(e.args.args) == 1 and not e.args.defaults and isinstance(e.body, ast.Subscript) and isinstance(e.body.value, ast.Name) \
        and e.body.value.id == e.args.args[0].arg and isinstance(e.body.slice, ast.Constant) and e.body.slice.value == i


def check(ctx: Ctx):
    repo = ctx.repo
    ctx.decided = ("factor_costs_for_var: per value of the target variable the optimum over all assignments of the other variables "
                   "of factor value + messages received from the *other* variables, with a +/-inf identity per value and an "
                   "objective-coherent strict update; costs_for_factor: own variable cost + messages of all factors but the "
                   "recipient; select_value: variable cost + all factor messages, min/max by mode; all call sites pass the "
                   "computation's mode; stability cut-off structure at the four sending loops; asynchronous version waits for "
                   "all variables and never echoes to the sender; damping formula; 'max_sum' handler and field tables.")
    ctx.undecided = "convergence and exactness of message passing on a concrete tree; floating point stability."
    ctx.rule("R-MODE.a", "helpers receive the computation's mode")
    ctx.rule("R-MODE.b", "running optimum / min-max selection follow the objective")
    ctx.rule("R-MODE.c", "running optimum starts at +inf under min, -inf under max, for every target value")
    ctx.rule("R-MARGINAL", "a message to X is built from everything except what X itself sent")
    ctx.rule("R-CUTOFF", "changed message: send, count=1; unchanged: send while count < SAME_COUNT, count+1; else silent")
    ctx.rule("R-PROTO", "max_sum messages have a registered handler in the four classes and handlers read declared fields")
    ctx.rule("R-ASYNC", "asynchronous factor/variable: recipients of an update; deferral cannot deadlock or starve the last sender")
    ctx.rule("R-DAMPING", "damped = damping*previous + (1-damping)*new, identity when there is no previous message")

    fcv = repo.func(MS, "factor_costs_for_var")
    cff = repo.func(MS, "costs_for_factor")
    sel = repo.func(MS, "select_value")
    dmp = repo.func(MS, "apply_damping")
    apm = repo.func(MS, "approx_match")
    for f in (fcv, cff, sel, dmp, apm):
        ctx.touch(f)
    # ---- factor marginal -----------------------------------------------------
    M.check_comparator_coherence(ctx, fcv, "R-MODE.b", need_strict=False, min_instances=2)
    M.check_init_identity(ctx, fcv, "R-MODE.c", min_instances=1)
    p_f, p_v, p_rc, p_mode = fcv.params[:4]
    dl = [n for n in walk_no_nested(fcv.node) if isinstance(n, ast.For) and norm(n.iter) == f"{p_v}.domain"]
    ok = len(dl) == 1
    if ok:
        d = norm(dl[0].target)
        body = dl[0].body
        init_in = [n for n in body if isinstance(n, ast.Assign) and M.inf_sign(n.value.body if isinstance(n.value, ast.IfExp) else n.value) is not None]
        ok = len(init_in) == 1
        acc = norm(init_in[0].targets[0]) if ok else None
        st = [n for n in body if isinstance(n, ast.Assign) and isinstance(n.targets[0], ast.Subscript) and norm(n.targets[0].value) == "costs" and norm(n.targets[0].slice) == d]
        ok = ok and len(st) == 1 and norm(st[0].value) == acc and body.index(st[0]) == len(body) - 1
    ctx.check(ok, "R-MODE.c", "factor_costs_for_var: optimum re-initialised for each target value and stored for it", fcv, dl[0] if dl else fcv.node,
              "for each value d of the target variable the running optimum must restart from the identity and be stored as costs[d]")
    t = norm(fcv.node)
    ov = [n for n in walk_no_nested(fcv.node) if isinstance(n, ast.Assign) and norm(n.targets[0]) == "other_vars"]
    ctx.check(len(ov) == 1 and norm(ov[0].value) in (f"{p_f}.dimensions[:]", f"list({p_f}.dimensions)", f"{p_f}.dimensions.copy()") and f"other_vars.remove({p_v})" in t,
              "R-MARGINAL", "factor_costs_for_var: other variables = copy of the factor's dimensions minus the target", fcv, ov[0] if ov else fcv.node,
              "the factor's own dimension list must not be modified; the optimisation ranges over all the other variables")
    ctx.check(f"generate_assignment_as_dict(other_vars)" in t and f"assignment[{p_v}.name] = d" in t and f"f_val = {p_f}(**assignment)" in t, "R-MARGINAL",
              "factor_costs_for_var: factor evaluated on (others' assignment + target value)", fcv, fcv.node, "")
    skip = [n for n in ast.walk(fcv.node) if isinstance(n, ast.If) and norm(n.test) == f"another_var == {p_v}.name" and len(n.body) == 1 and isinstance(n.body[0], ast.Continue)]
    ctx.check(len(skip) == 1, "R-MARGINAL", "factor_costs_for_var: the target variable's own message is excluded", fcv, skip[0] if skip else fcv.node,
              "the marginal sent to a variable must not include the costs received from that variable")
    ctx.check(f"sum_cost += {p_rc}[another_var][var_value]" in t and "current_val = f_val + sum_cost" in t, "R-MARGINAL",
              "factor_costs_for_var: candidate = factor value + other variables' messages", fcv, fcv.node, "")
    z = [n for n in ast.walk(fcv.node) if isinstance(n, ast.Assign) and norm(n.targets[0]) == "sum_cost" and norm(n.value) == "0"]
    ffz = FuncFacts(fcv.node)
    ctx.check(len(z) == 1 and sum(1 for g in ffz.guards_at(z[0]) if g.kind == "for") == 2, "R-MARGINAL", "factor_costs_for_var: message sum restarts for every assignment", fcv,
              z[0] if z else fcv.node, "sum_cost must be reset for each assignment of the other variables")
    # ---- variable message ------------------------------------------------------------
    t = norm(cff.node)
    pv, pf, pfs, pc = cff.params[:4]
    ctx.check(f"msg_costs = {{d: {pv}.cost_for_val(d) for d in {pv}.domain}}" in t, "R-MARGINAL", "costs_for_factor: starts from the variable's own cost per value", cff, cff.node, "")
    sk = [n for n in ast.walk(cff.node) if isinstance(n, ast.If) and f"f == {pf}" in norm(n.test) and len(n.body) == 1 and isinstance(n.body[0], ast.Continue)]
    ctx.check(len(sk) == 1, "R-MARGINAL", "costs_for_factor: the recipient factor's own message is excluded", cff, sk[0] if sk else cff.node,
              "the message sent to a factor sums the costs received from all the *other* factors")
    ctx.check("msg_costs[d] += c" in t and f"c = f_costs[d]" in t, "R-MARGINAL", "costs_for_factor: other factors' costs added per value", cff, cff.node, "")
    nm = [n for n in walk_no_nested(cff.node) if isinstance(n, ast.Assign) and isinstance(n.value, ast.DictComp) and "avg_cost" in norm(n.value)]
    ctx.check(len(nm) == 1 and norm(nm[0].value) == "{d: c - avg_cost for d, c in msg_costs.items()}", "R-MARGINAL", "costs_for_factor: normalisation shifts every value by the same constant", cff,
              nm[0] if nm else cff.node, "normalisation must not change the differences between values")
    # every exit returns the normalised table (own costs + other factors' costs): no shortcut that sends something else, e.g. an all-zero table for a
    # leaf variable, which would hide the variable's own costs from the rest of the graph
    rets_c = [r for r in walk_no_nested(cff.node) if isinstance(r, ast.Return)]
    okr = len(rets_c) >= 1 and all(r.value is not None and (norm(r.value) == (norm(nm[0].targets[0]) if nm else "?") or (nm and norm(r.value) == norm(nm[0].value))) for r in rets_c)
    ctx.check(okr, "R-MARGINAL", "costs_for_factor: every exit returns the normalised (own cost + other factors) table", cff, next((r for r in rets_c if not nm or norm(r.value) not in (norm(nm[0].targets[0]), norm(nm[0].value))), cff.node),
              "a shortcut exit (nothing heard from the other factors yet, leaf variable) that returns anything else drops the variable's own costs from the message")
    for fq in (fcv,):
        rets_f = [r for r in walk_no_nested(fq.node) if isinstance(r, ast.Return)]
        ctx.check(len(rets_f) == 1 and norm(rets_f[0].value) == "costs", "R-MARGINAL", "factor_costs_for_var: the single exit returns the table of marginals", fq, rets_f[0] if rets_f else fq.node,
                  "a shortcut exit returning anything else sends a message that is not the marginal of the factor")
    # ---- selection ---------------------------------------------------------------------
    M.check_minmax_selection(ctx, sel, "R-MODE.b", min_instances=2)
    t = norm(sel.node)
    sv = sel.params[0]
    ctx.check(f"d_costs = {{d: {sv}.cost_for_val(d) for d in {sv}.domain}}" in t and "d_costs[d] += f_costs[d]" in t and f"for f_costs in {sel.params[1]}.values()" in t,
              "R-MARGINAL", "select_value: variable cost + every factor's message", sel, sel.node, "")
    # the optimum is taken over (value, cost) items by their cost slot, and (value, cost) is returned in that order: either the pair is kept
    # and indexed [0], [1], or it is unpacked into two names returned in the same order
    sels = [c for c in ast.walk(sel.node) if isinstance(c, ast.Call) and call_name(c) in ("min", "max") and any(k.arg == "key" and (norm(k.value) in ("itemgetter(1)", "operator.itemgetter(1)") or _slot_getter(k.value, 1)) for k in c.keywords)
            and c.args and norm(c.args[0]) == "d_costs.items()"]
    rets = [r for r in walk_no_nested(sel.node) if isinstance(r, ast.Return)]
    oks = len(sels) == 2 and len(rets) == 1 and isinstance(rets[0].value, ast.Tuple) and len(rets[0].value.elts) == 2
    if oks:
        tg = {norm(a.targets[0]) for a in ast.walk(sel.node) if isinstance(a, ast.Assign) and a.value in sels}
        oks = len(tg) == 1
        if oks:
            tgt = next(iter(tg))
            r0, r1 = [norm(e) for e in rets[0].value.elts]
            oks = (r0, r1) == (f"{tgt}[0]", f"{tgt}[1]") or f"({r0}, {r1})" == tgt or f"{r0}, {r1}" == tgt.strip("()")
    ctx.check(oks, "R-MODE.b", "select_value: optimum on the cost slot, returns (value, cost)", sel, rets[0] if rets else sel.node, "")
    # ---- mode at call sites ---------------------------------------------------------------
    funcs = []
    for mod in (MS, AMS):
        for cname in ("MaxSumFactorComputation", "MaxSumVariableComputation"):
            funcs += list(repo.cls(mod, cname).methods.values())
    n = M.check_mode_args(ctx, funcs, "R-MODE.a", {"factor_costs_for_var": (3, "mode"), "select_value": (2, "mode")})
    ctx.floor("R-MODE.a", 10)
    # ---- cut-off ------------------------------------------------------------------------------
    for mod, pre in ((MS, ""), (AMS, "maxsum.")):
        fc = repo.func(mod, "MaxSumFactorComputation." + ("on_new_cycle" if mod == MS else "_on_maxsum_msg"))
        vc = repo.func(mod, "MaxSumVariableComputation." + ("on_new_cycle" if mod == MS else "_on_maxsum_msg"))
        ctx.touch(fc)
        ctx.touch(vc)
        lf = [n_ for n_ in ast.walk(fc.node) if isinstance(n_, ast.For) and norm(n_.iter) == "self.variables"]
        lv = [n_ for n_ in ast.walk(vc.node) if isinstance(n_, ast.For) and norm(n_.iter) in ("self.factors", "self._factors")]
        if len(lf) != 1 or len(lv) != 1:
            ctx.bad("R-CUTOFF", f"{mod}: sending loops", fc, fc.node, "sending loops over the neighbours not found")
            continue
        _cutoff(ctx, fc, lf[0], "v.name", "costs_v", pre + "SAME_COUNT")
        _cutoff(ctx, vc, lv[0], "f_name", "costs_f", pre + "SAME_COUNT")
        # messages recorded before use
        for f_, fld in ((fc, "_costs"), (vc, "costs" if mod == MS else "_costs")):
            st = [n_ for n_ in ast.walk(f_.node) if isinstance(n_, ast.Assign) and isinstance(n_.targets[0], ast.Subscript) and is_self_attr(n_.targets[0].value, fld)]
            ctx.check(len(st) == 1 and norm(st[0].value).endswith(".costs"), "R-PROTO", f"{f_.qualname}: received costs recorded per sender", f_, st[0] if st else f_.node, "")
    # async specifics: who gets a message when a factor hears from `sender`
    _async_factor(ctx, repo)
    av = repo.func(AMS, "MaxSumVariableComputation._on_maxsum_msg")
    lv = [n_ for n_ in ast.walk(av.node) if isinstance(n_, ast.For) and norm(n_.iter) in ("self.factors", "self._factors")]
    posts = [c for c in ast.walk(av.node) if isinstance(c, ast.Call) and is_self_attr(c.func, "post_msg")]
    ffv = FuncFacts(av.node)
    for c in posts:
        extra = {x for x in _facts(ffv, c) if "approx_match" not in x[0] and "SAME_COUNT" not in x[0] and "damping" not in x[0]}
        ctx.check(extra <= {(f"f_name == {av.params[1]}", False), (f"f_name != {av.params[1]}", True)}, "R-ASYNC", "A-MaxSum variable: every factor other than the sender is answered", av, c,
                  f"the message to a factor may only be withheld from the factor that just wrote; extra conditions {sorted(extra)}")
    # ---- protocol -----------------------------------------------------------------------------------
    for mod in (MS, AMS):
        for cname in ("MaxSumFactorComputation", "MaxSumVariableComputation"):
            ci = repo.cls(mod, cname)
            ht = repo.handler_table(ci)
            ctx.check("max_sum" in ht, "R-PROTO", f"{mod.split('.')[-1]}.{cname}: handler for 'max_sum'", ci, ci.node, "the class posts and receives max_sum messages and must register a handler")
    mm = repo.cls(MS, "MaxSumMessage")
    init = mm.methods["__init__"]
    sup = [c for c in walk_no_nested(init.node) if isinstance(c, ast.Call) and isinstance(c.func, ast.Attribute) and c.func.attr == "__init__"]
    ctx.check(len(sup) == 1 and norm(sup[0].args[0]) == "'max_sum'", "R-PROTO", "MaxSumMessage type is 'max_sum'", init, sup[0] if sup else init.node, "")
    # ---- damping / match ---------------------------------------------------------------------------------
    t = norm(dmp.node)
    a, b, c_ = dmp.params[:3]
    ctx.check(f"damped_costs[d] = {c_} * {b}[d] + (1 - {c_}) * c" in t and f"if {b} is not None" in t and f"return {a}" in t, "R-DAMPING", "apply_damping formula", dmp, dmp.node,
              "with damping 0 the new costs must be returned unchanged; without a previous message the new costs are used as they are")
    t = norm(apm.node)
    first = [s for s in apm.node.body if isinstance(s, ast.If)][0]
    ctx.check(norm(first.test) == f"{apm.params[1]} is None" and norm(first.body[0]) == "return False" and t.rstrip().endswith("return True"), "R-CUTOFF",
              "approx_match: no previous message never matches; all values within tolerance match", apm, first, "")
    # per value: the loop body may fall through (= this value matches) only when the two costs are equal or
    # the relative-variation test against the stability coefficient passed
    loops = [n for n in apm.node.body if isinstance(n, ast.For)]
    coef = apm.params[2]
    n_fall = 0
    if len(loops) != 1:
        ctx.bad("R-CUTOFF", "approx_match: one loop over the values", apm, apm.node, "expected a single loop over the cost table")
    else:
        # truth table over the atomic conditions of the loop body: a value may count as matching (the body falls through) only in
        # worlds where the two costs are equal or the relative variation is below the coefficient
        from ..facts import bool_atoms, eval_bool, outcome_under
        import itertools
        atoms = bool_atoms(loops[0].body)
        eqa = [a for a in atoms if coef not in a and (" != " in a or " == " in a) and "+" not in a and " 0" not in a]
        tol = [a for a in atoms if coef in a and any(op in a for op in (" < ", " <= ", " > ", " >= "))]
        n_eq = n_tol = 0
        bad_world = None
        if len(eqa) == 1 and len(tol) == 1 and len(atoms) <= 6:
            for bits in itertools.product((False, True), repeat=len(atoms)):
                val = dict(zip(atoms, bits))
                kind, st = outcome_under(loops[0].body, val)
                differ = val[eqa[0]] if " != " in eqa[0] else not val[eqa[0]]
                within = val[tol[0]] if (" < " in tol[0] or " <= " in tol[0]) else not val[tol[0]]
                if kind in ("fall", "continue"):
                    n_fall += 1
                    if not differ:
                        n_eq += 1
                    elif within:
                        n_tol += 1
                    else:
                        bad_world = val
                elif kind == "return":
                    ctx.check(norm(st) == "return False", "R-CUTOFF", "approx_match: a per-value exit reports a mismatch", apm, st, "inside the loop only a mismatch may end the comparison")
                elif kind == "unknown":
                    bad_world = {"unrecognised statement": norm(st)[:60]}
            ctx.check(bad_world is None, "R-CUTOFF", "approx_match: a value matches only if equal or within the stability tolerance", apm, loops[0],
                      f"in the world {bad_world} the value counts as matching although the costs differ and the tolerance test did not pass")
            ctx.check(n_eq >= 1 and n_tol >= 1, "R-CUTOFF", "approx_match: equal / within-tolerance paths present", apm, loops[0], "expected at least the 'equal' and the 'within tolerance' worlds to match")
        else:
            ctx.bad("R-CUTOFF", "approx_match: equality test and tolerance test recognised", apm, loops[0], f"atoms found: {atoms}")
    # default tolerance of the cut-off: exactness on trees needs every *changed* message to be sent
    ctx.rule("R-STABILITY", "with default parameters the cut-off only suppresses unchanged messages (tolerance 0)")
    dflt = None
    for c in ast.walk(repo.module(MS).tree):
        if isinstance(c, ast.Call) and call_name(c) == "AlgoParameterDef" and c.args and norm(c.args[0]) == "'stability'" and len(c.args) >= 4:
            v = c.args[3]
            if isinstance(v, ast.Name) and v.id in repo.module(MS).constants:
                v = repo.module(MS).constants[v.id]
            dflt = (c, v.value if isinstance(v, ast.Constant) else None)
    if dflt is None:
        ctx.bad("R-STABILITY", "stability parameter declared", repo.module(MS), repo.module(MS).tree, "AlgoParameterDef('stability', ...) not found")
    else:
        ctx.check(dflt[1] == 0, "R-STABILITY", "default stability tolerance is 0", repo.module(MS), dflt[0],
                  f"default tolerance {dflt[1]}: a message whose relative change is below it is treated as unchanged and dropped after SAME_COUNT sends, "
                  "so a late small correction never reaches the neighbour and the selected assignment can differ from the optimum on a tree")
    _params(ctx, repo)
    sc = repo.module(MS).constants.get("SAME_COUNT")
    ctx.check(sc is not None and isinstance(sc.value, int) and sc.value >= 1, "R-CUTOFF", "SAME_COUNT is a positive integer", repo.module(MS), sc or repo.module(MS).tree, "")


def _params(ctx, repo):
    """'without damping and noise' is a statement about the *parameters*: each computation must read every parameter it uses under the parameter's own
    name.  The four constructors store damping / damping_nodes / stability / start_messages and hand `noise` to VariableNoisyCostFunc (only when it is
    not 0): each value is traced to `<algo>.params['<name>']` / `param_value('<name>')` with the matching name; a value that reaches the field any other
    way (positional tuple, record filled in another order) cannot be established and is reported."""
    ctx.rule("R-PARAMS", "every Max-Sum parameter a computation stores is read under its own name (stability, noise, damping, damping_nodes, start_messages)")
    want = {"damping": "damping", "damping_nodes": "damping_nodes", "stability_coef": "stability", "start_messages": "start_messages"}

    def key_of(e, f):
        """the parameter name an expression reads, through single-definition locals"""
        for _ in range(4):
            if isinstance(e, ast.Name):
                defs = [a.value for a in walk_no_nested(f.node) if isinstance(a, ast.Assign) and len(a.targets) == 1 and norm(a.targets[0]) == e.id]
                if len(defs) != 1:
                    return None
                e = defs[0]
                continue
            break
        if isinstance(e, ast.Subscript) and norm(e.value).endswith(".params") and isinstance(e.slice, ast.Constant):
            return e.slice.value
        if isinstance(e, ast.Call) and isinstance(e.func, ast.Attribute) and e.func.attr == "param_value" and e.args and isinstance(e.args[0], ast.Constant):
            return e.args[0].value
        return None
    n = 0
    for mod in (MS, AMS):
        for cn in ("MaxSumFactorComputation", "MaxSumVariableComputation"):
            ini = repo.func(mod, f"{cn}.__init__")
            ctx.touch(ini)
            for a in walk_no_nested(ini.node):
                if isinstance(a, ast.Assign) and len(a.targets) == 1 and is_self_attr(a.targets[0]) and a.targets[0].attr in want:
                    n += 1
                    k = key_of(a.value, ini)
                    ctx.check(k == want[a.targets[0].attr], "R-PARAMS", f"{mod.split('.')[-1]}.{cn}: self.{a.targets[0].attr} = parameter '{want[a.targets[0].attr]}'", ini, a,
                              f"read from {k!r}" if k else "cannot establish which parameter the value comes from")
            stored = {a.targets[0].attr for a in walk_no_nested(ini.node) if isinstance(a, ast.Assign) and len(a.targets) == 1 and is_self_attr(a.targets[0])}
            ctx.check(set(want) <= stored, "R-PARAMS", f"{mod.split('.')[-1]}.{cn}: the four common parameters are stored by the constructor", ini, ini.node, f"missing {sorted(set(want) - stored)}")
            for c in ast.walk(ini.node):
                if isinstance(c, ast.Call) and call_name(c) == "VariableNoisyCostFunc":
                    n += 1
                    nl = next((k_.value for k_ in c.keywords if k_.arg == "noise_level"), None)
                    k = key_of(nl, ini) if nl is not None else None
                    fs = {norm(t) for t, p_ in facts_at(FuncFacts(ini.node), c) if p_}
                    guard = any(g.endswith("!= 0") and key_of(ast.parse(g[:-5], mode="eval").body, ini) == "noise" for g in fs)
                    ctx.check(k == "noise" and guard, "R-PARAMS", f"{mod.split('.')[-1]}.{cn}: noise is added with the level of parameter 'noise', and only when that is not 0", ini, c,
                              f"noise level read from {k!r}, guard {sorted(fs)}")
    if n < 18:
        ctx.defer(f"R-PARAMS: {n} parameter reads found, 18 confirmed by reading (4 constructors x 4 fields + 2 noise sites)")


_F = "pydcop/algorithms/maxsum.py"
_A = "pydcop/algorithms/amaxsum.py"
VARIANTS = [
    ("varmsg_neutral_shortcut_for_leaves", _F, "    # If our variable has integrated costs, add them\n    msg_costs = {d: variable.cost_for_val(d) for d in variable.domain}\n",
     "    if not [f for f in factors if f != factor and f in costs]:\n        return {d: 0 for d in variable.domain}\n    # If our variable has integrated costs, add them\n    msg_costs = {d: variable.cost_for_val(d) for d in variable.domain}\n", "break", "R-MARGINAL"),
    ("stability_read_from_noise", _F, ["        self.stability_coef = comp_def.algo.params[\"stability\"]\n"], ["        self.stability_coef = comp_def.algo.params[\"noise\"]\n"], "break", "R-PARAMS"),
    ("noise_level_from_stability", _A, "                noise_level=comp_def.algo.params[\"noise\"],", "                noise_level=comp_def.algo.params[\"stability\"],", "break", "R-PARAMS"),
    ("n_params_local", _A, ["        self.damping = comp_def.algo.params[\"damping\"]\n        self.damping_nodes = comp_def.algo.params[\"damping_nodes\"]\n        self.stability_coef = comp_def.algo.params[\"stability\"]\n        self.start_messages = comp_def.algo.params[\"start_messages\"]\n        self.logger.info(f\"Running amaxsum"],
     ["        params = comp_def.algo.params\n        self.damping = params[\"damping\"]\n        self.damping_nodes = params[\"damping_nodes\"]\n        self.stability_coef = params[\"stability\"]\n        self.start_messages = params[\"start_messages\"]\n        self.logger.info(f\"Running amaxsum"], "neutral"),

    ("marginal_flip", _F, "            if (optimal_value > current_val and mode == \"min\") or (", "            if (optimal_value < current_val and mode == \"min\") or (", "break", "R-MODE.b"),
    ("marginal_identity", _F, "        optimal_value = float(\"inf\") if mode == \"min\" else -float(\"inf\")", "        optimal_value = float(\"inf\") if mode == \"max\" else -float(\"inf\")", "break", "R-MODE.c"),
    ("marginal_identity_hoisted", _F, "    for d in variable.domain:\n        # for each value d in the domain of v, calculate min cost (a)\n        # where a is any assignment where v = d\n        # cost (a) = f(a) + sum( costvar())\n        # where costvar is the cost received from our other variables\n\n        optimal_value = float(\"inf\") if mode == \"min\" else -float(\"inf\")\n",
     "    optimal_value = float(\"inf\") if mode == \"min\" else -float(\"inf\")\n    for d in variable.domain:\n", "break", "R-MODE.c"),
    ("marginal_includes_target", _F, "                if another_var == variable.name:\n                    continue\n", "", "break", "R-MARGINAL"),
    ("marginal_dims_alias", _F, "    other_vars = factor.dimensions[:]\n    other_vars.remove(variable)\n", "    other_vars = factor.dimensions\n    other_vars.remove(variable)\n", "break", "R-MARGINAL"),
    ("varmsg_includes_recipient", _F, "            if f == factor or f not in costs:\n                continue", "            if f not in costs:\n                continue", "break", "R-MARGINAL"),
    ("varmsg_no_own_cost", _F, "    msg_costs = {d: variable.cost_for_val(d) for d in variable.domain}", "    msg_costs = {d: 0 for d in variable.domain}", "break", "R-MARGINAL"),
    ("select_minmax_swapped", _F, "    if mode == \"min\":\n        optimal_d = min(d_costs.items(), key=itemgetter(1))\n    else:\n        optimal_d = max(d_costs.items(), key=itemgetter(1))", "    if mode == \"min\":\n        optimal_d = max(d_costs.items(), key=itemgetter(1))\n    else:\n        optimal_d = min(d_costs.items(), key=itemgetter(1))", "break", "R-MODE.b"),
    ("select_on_value_slot", _F, "        optimal_d = min(d_costs.items(), key=itemgetter(1))", "        optimal_d = min(d_costs.items(), key=itemgetter(0))", "break", "R-MODE.b"),
    ("mode_const_at_site", _F, "            costs_v = factor_costs_for_var(self.factor, v, self._costs, self.mode)\n            prev_costs, count", "            costs_v = factor_costs_for_var(self.factor, v, self._costs, \"min\")\n            prev_costs, count", "break", "R-MODE.a"),
    ("cutoff_count_not_advanced", _F, "                self.post_msg(f_name, MaxSumMessage(costs_f))\n                self._prev_messages[f_name] = costs_f, count + 1", "                self.post_msg(f_name, MaxSumMessage(costs_f))\n                self._prev_messages[f_name] = costs_f, count", "break", "R-CUTOFF"),
    ("cutoff_changed_not_sent", _F, "            if not approx_match(\n                    costs_v, prev_costs, self.stability_coef\n            ):", "            if not approx_match(\n                    costs_v, prev_costs, self.stability_coef\n            ) and count < SAME_COUNT:", "break", "R-CUTOFF"),
    ("approx_zero_sum_skipped", _F, "        if prev_c != c:\n            delta = abs(prev_c - c)\n            if prev_c + c != 0:\n                if not ((2 * delta / abs(prev_c + c)) < stability_coef):\n                    return False\n            else:\n                return False\n",
     "        if prev_c != c and prev_c + c != 0:\n            delta = abs(prev_c - c)\n            if not ((2 * delta / abs(prev_c + c)) < stability_coef):\n                return False\n", "break", "R-CUTOFF"),
    ("approx_flat_neutral", _F, "            if prev_c + c != 0:\n                if not ((2 * delta / abs(prev_c + c)) < stability_coef):\n                    return False\n            else:\n                return False\n",
     "            if prev_c + c == 0:\n                return False\n            if (2 * delta / abs(prev_c + c)) >= stability_coef:\n                return False\n", "neutral"),
    ("async_gate_all_modes", _A, "        wait_all = self.start_messages != \"leafs\"\n", "        wait_all = True\n", "break", "R-ASYNC"),
    ("async_last_sender_starved", _A, "                if v.name != var_name or (wait_all and first_msg_from_var):", "                if v.name != var_name:", "break", "R-ASYNC"),
    ("async_first_flag_after_store", _A, "        first_msg_from_var = var_name not in self._costs\n        self._costs[var_name] = msg.costs\n", "        self._costs[var_name] = msg.costs\n        first_msg_from_var = var_name not in self._costs\n", "break", "R-ASYNC"),
    ("async_skip_first_variable", _A, "                if v.name != var_name or (wait_all and first_msg_from_var):", "                if (v.name != var_name or (wait_all and first_msg_from_var)) and v is not self.variables[0]:", "break", "R-ASYNC"),
    ("async_no_gate_neutral", _A, "        if not wait_all or len(self._costs) == len(self.factor.dimensions):", "        if True:", "neutral"),
    ("async_echo_all_neutral", _A, "                if v.name != var_name or (wait_all and first_msg_from_var):", "                if True:", "neutral"),
    ("async_var_extra_skip", _A, "            if f_name == factor_name:\n                continue\n", "            if f_name == factor_name or f_name == self._factors[0]:\n                continue\n", "break", "R-ASYNC"),
    ("damping_swapped", _F, "            damped_costs[d] = damping * prev_costs[d] + (1 - damping) * c", "            damped_costs[d] = (1 - damping) * prev_costs[d] + damping * c", "break", "R-DAMPING"),
    ("handler_unregistered", _A, "    @register(\"max_sum\")\n    def _on_maxsum_msg(self, factor_name, msg, t):", "    def _on_maxsum_msg(self, factor_name, msg, t):", "break", "R-PROTO"),
]
