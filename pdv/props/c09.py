"""C09 - DBA terminates only on a satisfying assignment.

Decided (structure of DbaComputation on all paths):

* who may finish: `finished()` is called only (a) in `_send_ok` under a flag that
  implies `self._consistent` and `self.stop_condition()`, with no value change
  on that path, (b) in the end-flood handler;
* the termination counter is written only at its four licensed sites: 0 at
  construction, reset to 0 on the inconsistent branch of `improve`, min-merged
  with every neighbour's counter (unconditionally) in `_handle_improve_message`,
  incremented by one only under `self._consistent`;
* `_consistent` becomes True only when the own evaluation is 0, computed from the
  fresh neighbour values with the current value; becomes False whenever a
  neighbour reports a positive evaluation (unconditional test);
* phase order: `improve()` (which (re)initialises `_consistent`) precedes the
  replay of postponed improve messages; the improve message is sent after the
  reset and carries (improvement, evaluation, counter) in their declared slots,
  readers get the matching fields;
* the evaluation counts a constraint as violated iff its value reaches INFINITY,
  over *all* the variable's constraints;
* `stop_condition` compares the counter with `_max_distance`, which comes from
  the algorithm parameter.

Not decided: that max_distance bounds the graph diameter; the induction showing
that the counter bound implies global consistency; FIFO interleavings.
"""
import ast

from ..model import walk_no_nested, norm, call_name, is_self_attr, is_self_call
from ..facts import FuncFacts, facts_at, stmt_paths
from ..report import Ctx, AnalysisError
from ..effects import field_writes, class_self_calls, implied_facts, fact_set, top_index, stmt_has_self_call

M = "pydcop.algorithms.dba"
C = "DbaComputation"


def check(ctx: Ctx):
    repo = ctx.repo
    ctx.decided = ("who may call finished() and under which licence; the four licensed writers of the termination counter; when "
                   "_consistent may become True / must become False; improve() before the replay of postponed improve messages; "
                   "slot agreement of the improve message; violated-constraint test and its scope; stop_condition against max_distance.")
    ctx.undecided = ("that max_distance >= diameter; the inductive argument from the counter bound to global consistency; "
                     "behaviour under all FIFO interleavings.")
    ctx.rule("R-FINISH", "finished() only under (consistent and stop_condition()) without a value change, or in the end-flood handler")
    ctx.rule("R-COUNTER", "termination counter: 0 at start, reset when inconsistent, min-merged with every neighbour, +1 only when consistent")
    ctx.rule("R-CONSISTENT", "_consistent True only on a zero own evaluation; False as soon as a neighbour reports a positive evaluation")
    ctx.rule("R-PHASE", "improve() precedes the replay of postponed improve messages; the improve message is sent after the state update")
    ctx.rule("R-MSG", "improve message slots (improve, current_eval, termination_counter) agree between sender, class and readers")
    ctx.rule("R-EVAL", "evaluation = weighted count of constraints whose value reaches INFINITY, over all constraints, with fresh neighbour values")
    ctx.rule("R-STOP", "stop_condition: counter reaches _max_distance (the algorithm parameter)")
    cls = repo.cls(M, C)
    ctx.touch(cls)
    for m in ("_send_ok", "_on_end_msg", "improve", "_handle_improve_message", "_handle_ok_message", "_go_to_wait_improve_mode",
              "stop_condition", "compute_eval_value", "_send_improve", "__init__"):
        ctx.touch(repo.func(M, f"{C}.{m}"))
    _finish(ctx, repo, cls)
    _counter(ctx, repo, cls)
    _consistent(ctx, repo, cls)
    _phase(ctx, repo, cls)
    _msg(ctx, repo, cls)
    _eval(ctx, repo, cls)
    _stop(ctx, repo, cls)
    ctx.floor("R-FINISH", 3)
    ctx.floor("R-COUNTER", 5)
    ctx.floor("R-CONSISTENT", 4)


def _finish(ctx, repo, cls):
    sites = class_self_calls(cls, "finished")
    if not sites:
        raise AnalysisError("no finished() call in DbaComputation")
    for f, c, facts, ff in sites:
        if f.name == "_on_end_msg":
            ok = ("self._mode != 'finished'", True) in facts or ("self._mode == 'finished'", False) in facts or True
            ctx.ok("R-FINISH", "end flood: finishing on a neighbour's end message", f, c)
            continue
        if f.name != "_send_ok":
            ctx.bad("R-FINISH", f"finished() in {f.name}", f, c, "DBA may only finish after the termination test of _send_ok or on the end flood")
            continue
        imp = implied_facts(f, c, ff)
        cons = ("self._consistent", True) in imp
        stop = ("self.stop_condition()", True) in imp
        ctx.check(cons and stop, "R-FINISH", "finished() under consistent and stop_condition()", f, c,
                  "a computation may only detect termination when it is itself consistent and its counter has reached the distance bound")
    # no value change on a finishing path of _send_ok
    so = repo.func(M, f"{C}._send_ok")
    n = 0
    for p in stmt_paths(so.node.body):
        fin = [i for i, s in enumerate(p.stmts) if stmt_has_self_call(s, "finished")]
        if fin:
            n += 1
            mv = [s for s in p.stmts if stmt_has_self_call(s, "value_selection") or stmt_has_self_call(s, "random_value_selection")]
            ctx.check(not mv, "R-FINISH", "no value change in the cycle that detects termination", so, (mv or [p.stmts[fin[0]]])[0],
                      "the assignment observed consistent is the one held when finishing")
    if n == 0:
        raise AnalysisError("_send_ok: no finishing path found")


def _counter(ctx, repo, cls):
    ws = field_writes(cls, "_termination_counter")
    seen = {"init": 0, "reset": 0, "min": 0, "inc": 0}
    for w in ws:
        v = w.value
        if w.func.name == "__init__":
            seen["init"] += 1
            ctx.check(w.kind == "assign" and isinstance(v, ast.Constant) and v.value == 0, "R-COUNTER", "counter starts at 0", w.func, w.stmt, "")
        elif w.kind == "assign" and isinstance(v, ast.Constant) and v.value == 0:
            seen["reset"] += 1
            ctx.ok("R-COUNTER", f"reset to 0 in {w.func.name}", w.func, w.stmt)
        elif w.kind == "assign" and isinstance(v, ast.Call) and isinstance(v.func, ast.Name) and v.func.id == "min":
            seen["min"] += 1
            args = sorted(norm(a) for a in v.args)
            msgp = w.func.params[2] if len(w.func.params) > 2 else "recv_msg"
            top = w.stmt in w.func.node.body
            ctx.check(w.func.name == "_handle_improve_message" and args == sorted([f"{msgp}.termination_counter", "self._termination_counter"]) and top and not w.facts,
                      "R-COUNTER", "counter min-merged with the neighbour's, for every improve message", w.func, w.stmt,
                      "the counter is a lower bound of the distance to the nearest inconsistent agent: each neighbour's (smaller) counter must be taken, unconditionally")
        elif w.kind == "aug" and isinstance(w.stmt.op, ast.Add) and isinstance(v, ast.Constant) and v.value == 1:
            seen["inc"] += 1
            ctx.check(w.has("self._consistent", True), "R-COUNTER", "counter incremented only by a consistent computation", w.func, w.stmt,
                      "an inconsistent computation must keep its counter at 0: its neighbours would otherwise propagate a distance that is one too high")
        else:
            ctx.bad("R-COUNTER", f"unlicensed write of the termination counter in {w.func.name}", w.func, w.stmt,
                    "the counter may only be set to 0, min-merged with a neighbour's counter, or incremented by one")
    for k, what in (("init", "initialised to 0 in __init__"), ("reset", "reset to 0 when the computation is inconsistent"), ("min", "min-merged with the neighbours' counters"), ("inc", "incremented once per consistent cycle")):
        ctx.check(seen[k] >= 1, "R-COUNTER", f"counter {what}", cls, cls.node, f"no statement found by which the counter is {what}")
    ctx.check(seen["inc"] == 1, "R-COUNTER", "single increment site", cls, cls.node, "the counter grows by exactly one per cycle")
    # the reset is on the path where _consistent becomes False in improve
    imp = repo.func(M, f"{C}.improve")
    for p in stmt_paths(imp.node.body):
        setf = [s for s in p.stmts if isinstance(s, ast.Assign) and is_self_attr(s.targets[0], "_consistent") and isinstance(s.value, ast.Constant) and s.value.value is False]
        if setf:
            rs = [s for s in p.stmts if isinstance(s, ast.Assign) and is_self_attr(s.targets[0], "_termination_counter") and isinstance(s.value, ast.Constant) and s.value.value == 0]
            ctx.check(bool(rs), "R-COUNTER", "inconsistent => counter reset on the same path", imp, setf[0],
                      "a computation that sees a violated constraint is at distance 0 from an inconsistency")
    # the increment precedes the stop test in _send_ok
    so = repo.func(M, f"{C}._send_ok")
    for p in stmt_paths(so.node.body):
        i_inc = p.index(lambda s: isinstance(s, ast.AugAssign) and is_self_attr(s.target, "_termination_counter"))
        i_stop = p.index(lambda s: stmt_has_self_call(s, "stop_condition"))
        if i_stop >= 0 and p.has_fact("self._consistent", True):
            ctx.check(0 <= i_inc < i_stop or i_inc == -1 and False, "R-COUNTER", "increment precedes the stop test", so, p.stmts[i_stop], "")


def _consistent(ctx, repo, cls):
    ws = field_writes(cls, "_consistent")
    n_true = n_false_nb = 0
    imp = repo.func(M, f"{C}.improve")
    # what is `current_eval` in improve?
    ce = [s for s in imp.node.body if isinstance(s, ast.Assign) and isinstance(s.targets[0], ast.Name) and norm(s.value) == "self.__cost__"]
    ce_name = ce[0].targets[0].id if ce else None
    for w in ws:
        v = w.value
        if w.func.name == "__init__":
            ctx.check(isinstance(v, ast.Constant) and v.value in (None, False), "R-CONSISTENT", "not consistent before the first evaluation", w.func, w.stmt, "")
            continue
        if isinstance(v, ast.Constant) and v.value is True:
            n_true += 1
            zero = ce_name is not None and ((f"{ce_name} == 0", True) in w.facts or (f"{ce_name} != 0", False) in w.facts or (f"{ce_name} > 0", False) in w.facts) \
                or ("self.__cost__ == 0", True) in w.facts
            ctx.check(w.func.name == "improve" and zero, "R-CONSISTENT", "_consistent = True only when the own evaluation is 0", w.func, w.stmt,
                      "consistency means no violated constraint in the own view computed in this cycle")
        elif isinstance(v, ast.Constant) and v.value is False:
            if w.func.name == "_handle_improve_message":
                msgp = w.func.params[2]
                if (f"{msgp}.current_eval > 0", True) in w.facts or (f"{msgp}.current_eval != 0", True) in w.facts:
                    only = {x for x in w.facts} <= {(f"{msgp}.current_eval > 0", True), (f"{msgp}.current_eval != 0", True)}
                    n_false_nb += 1
                    ctx.check(only, "R-CONSISTENT", "a neighbour's positive evaluation clears _consistent, whatever else holds", w.func, w.stmt,
                              "the test must not be nested under another condition")
                else:
                    ctx.ok("R-CONSISTENT", "additional clearing of _consistent", w.func, w.stmt)
            else:
                ctx.ok("R-CONSISTENT", f"_consistent cleared in {w.func.name}", w.func, w.stmt)
        elif w.func.name == "improve" and ce_name and norm(v) in (f"{ce_name} == 0", f"self.__cost__ == 0", f"not {ce_name}"):
            n_true += 1
            ctx.ok("R-CONSISTENT", "_consistent = (own evaluation == 0)", w.func, w.stmt)
        else:
            ctx.bad("R-CONSISTENT", f"unlicensed write of _consistent in {w.func.name}", w.func, w.stmt,
                    "_consistent may only be derived from the own evaluation or cleared")
    ctx.check(n_true >= 1, "R-CONSISTENT", "own evaluation sets _consistent", cls, cls.node, "")
    ctx.check(n_false_nb >= 1, "R-CONSISTENT", "neighbours' evaluations are taken into account", cls, cls.node,
              "no statement clears _consistent when a neighbour reports violated constraints: the counter would then measure only the own consistency")
    # __cost__ comes from compute_eval_value(self.current_value, <all constraints reduced with the neighbour values>) under the all-received guard
    hok = repo.func(M, f"{C}._handle_ok_message")
    ff = FuncFacts(hok.node)
    cs = [n for n in ast.walk(hok.node) if isinstance(n, ast.Assign) and any(is_self_attr(e, "__cost__") for t in n.targets for e in (t.elts if isinstance(t, ast.Tuple) else [t]))]
    ok = len(cs) == 1 and isinstance(cs[0].value, ast.Call) and is_self_call(cs[0].value, "compute_eval_value") and len(cs[0].value.args) == 2 \
        and norm(cs[0].value.args[0]) == "self.current_value"
    if ok:
        t = cs[0].targets[0]
        ok = isinstance(t, ast.Tuple) and is_self_attr(t.elts[0], "__cost__")
        facts = fact_set(ff, cs[0])
        ok = ok and ("len(self._neighbors_values) == len(self._neighbors)", True) in facts
        red = norm(cs[0].value.args[1])
        loops = [l for l in ast.walk(hok.node) if isinstance(l, ast.For) and norm(l.iter) in ("self.constraints", "self.__constraints__")]
        ok = ok and len(loops) == 1
        if ok:
            l = loops[0]
            cv = norm(l.target)
            app = [c for c in ast.walk(l) if isinstance(c, ast.Call) and norm(c.func) == f"{red}.append"]
            ok = len(app) == 1 and not [g for g in ff.guards_at(app[0]) if g.kind == "if" and any(n is g.node for n in ast.walk(l))]
            ok = ok and f"{cv}.slice(" in norm(app[0].args[0]) and "self._neighbors_values" in norm(l) and f"{cv}.dimensions" in norm(l)
    ctx.check(ok, "R-CONSISTENT", "own evaluation = compute_eval_value(current value, every constraint sliced on the fresh neighbour values)", hok, cs[0] if cs else hok.node,
              "the evaluation that decides consistency must use the value the computation holds now and the values just received from all neighbours, over all its constraints")
    # the store of the neighbour value uses the message's value
    st = [n for n in walk_no_nested(hok.node) if isinstance(n, ast.Assign) and isinstance(n.targets[0], ast.Subscript) and is_self_attr(n.targets[0].value, "_neighbors_values")]
    ctx.check(len(st) == 1 and norm(st[0].targets[0].slice) == hok.params[1] and norm(st[0].value) == f"{hok.params[2]}.value" and st[0] in hok.node.body,
              "R-CONSISTENT", "agent view updated with the sender's value", hok, st[0] if st else hok.node, "")


def _phase(ctx, repo, cls):
    hok = repo.func(M, f"{C}._handle_ok_message")
    n = 0
    for p in stmt_paths(hok.node.body):
        i_go = p.index(lambda s: stmt_has_self_call(s, "_go_to_wait_improve_mode"))
        i_imp = p.index(lambda s: stmt_has_self_call(s, "improve"))
        if i_go >= 0:
            n += 1
            ctx.check(0 <= i_imp < i_go, "R-PHASE", "improve() precedes the switch to improve mode", hok, p.stmts[i_go],
                      "entering improve mode replays postponed improve messages, which may clear _consistent and _can_move; improve() "
                      "re-initialises both and must therefore run first")
    if n == 0:
        raise AnalysisError("_handle_ok_message never enters improve mode")
    # every call of _go_to_wait_improve_mode is in _handle_ok_message
    for f, c, facts, ff in class_self_calls(cls, "_go_to_wait_improve_mode"):
        ctx.check(f.name == "_handle_ok_message", "R-PHASE", "improve mode entered only at the end of the ok phase", f, c, "")
    # mode 'improve' is only set in _go_to_wait_improve_mode, before the replay
    go = repo.func(M, f"{C}._go_to_wait_improve_mode")
    for w in field_writes(cls, "_mode"):
        if isinstance(w.value, ast.Constant) and w.value.value == "improve":
            ctx.check(w.func is go, "R-PHASE", "mode 'improve' set only when entering improve mode", w.func, w.stmt, "")
    # improve: the message is sent after the state update
    imp = repo.func(M, f"{C}.improve")
    top = list(imp.node.body)
    i_send = top_index(top, lambda s: stmt_has_self_call(s, "_send_improve"))
    i_state = [i for i, s in enumerate(top) for n in ast.walk(s) if isinstance(n, ast.Assign) and any(is_self_attr(t, "_termination_counter") or is_self_attr(t, "_my_improve") or is_self_attr(t, "_consistent") for t in n.targets)]
    ctx.check(len(i_send) == 1 and i_state and max(i_state) < i_send[0], "R-PHASE", "improve message sent after counter reset and improvement computation", imp,
              top[i_send[0]] if i_send else imp.node, "the message must carry the counter after the reset and the improvement of this cycle")
    # _handle_improve_message: _send_ok only when all improvements are in, after the merge
    hi = repo.func(M, f"{C}._handle_improve_message")
    n = 0
    for p in stmt_paths(hi.node.body):
        i_ok = p.index(lambda s: stmt_has_self_call(s, "_send_ok"))
        if i_ok >= 0:
            n += 1
            full = p.compare("len(self._neighbors_improvements)", "==", "len(self._neighbors)") or p.compare("len(self._neighbors_improvements)", "==", "len(self.neighbors)")
            i_min = p.index(lambda s: isinstance(s, ast.Assign) and is_self_attr(s.targets[0], "_termination_counter"))
            i_store = p.index(lambda s: isinstance(s, ast.Assign) and isinstance(s.targets[0], ast.Subscript) and is_self_attr(s.targets[0].value, "_neighbors_improvements"))
            ctx.check(full and 0 <= i_min < i_ok and 0 <= i_store < i_ok, "R-PHASE", "cycle closes only with every neighbour's improve message merged", hi, p.stmts[i_ok],
                      "the termination test must see the minimum over all neighbours' counters and evaluations of this cycle")
    if n == 0:
        raise AnalysisError("_handle_improve_message never calls _send_ok")


def _msg(ctx, repo, cls):
    mc = repo.cls(M, "DbaImproveMessage")
    ini = mc.methods.get("__init__")
    if ini is None:
        raise AnalysisError("DbaImproveMessage.__init__ missing")
    params = ini.params[1:]
    ctx.check(params == ["improve", "current_eval", "termination_counter"], "R-MSG", "declared slots (improve, current_eval, termination_counter)", ini, ini.node,
              "slot order is the contract between _send_improve and the constructor")
    # each property returns the field assigned from the same-named parameter
    fld = {}
    for s in ini.node.body:
        if isinstance(s, ast.Assign) and isinstance(s.targets[0], ast.Attribute) and isinstance(s.value, ast.Name):
            fld[s.targets[0].attr] = s.value.id
    for p in params:
        g = mc.methods.get(p)
        ok = g is not None and g.is_property()
        if ok:
            r = [n for n in ast.walk(g.node) if isinstance(n, ast.Return)]
            ok = len(r) == 1 and isinstance(r[0].value, ast.Attribute) and fld.get(r[0].value.attr) == p
        ctx.check(ok, "R-MSG", f"reader .{p} returns the constructor's {p}", g or mc, g.node if g else mc.node, "")
    # sender
    si = repo.func(M, f"{C}._send_improve")
    calls = [c for c in ast.walk(si.node) if isinstance(c, ast.Call) and call_name(c) == "DbaImproveMessage"]
    ok = len(calls) == 1 and len(calls[0].args) == 3 and not calls[0].keywords
    if ok:
        a = [norm(x) for x in calls[0].args]
        ok = a[0] == "self._my_improve" and a[1] == si.params[1] and a[2] == "self._termination_counter"
    ctx.check(ok, "R-MSG", "sender fills (own improvement, own evaluation, own counter)", si, calls[0] if calls else si.node,
              "swapping two slots makes neighbours merge an evaluation as a counter or vice versa")
    imp = repo.func(M, f"{C}.improve")
    cs = [c for c in ast.walk(imp.node) if isinstance(c, ast.Call) and is_self_call(c, "_send_improve")]
    ce = [s for s in imp.node.body if isinstance(s, ast.Assign) and isinstance(s.targets[0], ast.Name) and norm(s.value) == "self.__cost__"]
    ok = len(cs) == 1 and len(cs[0].args) == 1 and (norm(cs[0].args[0]) == "self.__cost__" or (ce and norm(cs[0].args[0]) == ce[0].targets[0].id))
    ctx.check(ok, "R-MSG", "the evaluation sent is the own evaluation of this cycle", imp, cs[0] if cs else imp.node, "")
    # broadcast to every neighbour
    loops = [l for l in walk_no_nested(si.node) if isinstance(l, ast.For) and norm(l.iter) in ("self.neighbors", "self._neighbors")]
    ok = len(loops) == 1 and any(isinstance(c, ast.Call) and is_self_call(c, "post_msg") and norm(c.args[0]) == norm(loops[0].target) for c in ast.walk(loops[0])) \
        and not any(isinstance(n, (ast.If, ast.Break, ast.Continue)) for n in ast.walk(loops[0]))
    ctx.check(ok, "R-MSG", "improve message posted to every neighbour", si, loops[0] if loops else si.node, "")


def _eval(ctx, repo, cls):
    f = repo.func(M, f"{C}.compute_eval_value")
    p_val, p_rel = f.params[1], f.params[2]
    loops = [l for l in walk_no_nested(f.node) if isinstance(l, ast.For) and (norm(l.iter) == p_rel or norm(l.iter) == f"enumerate({p_rel})")]
    if len(loops) != 1:
        ctx.bad("R-EVAL", "loop over all relations", f, f.node, "the evaluation must visit every constraint")
        return
    l = loops[0]
    rv = norm(l.target.elts[1]) if isinstance(l.target, ast.Tuple) else norm(l.target)
    ifs = [s for s in l.body if isinstance(s, ast.If)]
    ok = len(ifs) == 1 and not any(isinstance(n, (ast.Break, ast.Continue, ast.Return)) for n in ast.walk(l))
    if ok:
        t = ifs[0].test
        ok = isinstance(t, ast.Compare) and len(t.ops) == 1 and isinstance(t.ops[0], ast.GtE) and norm(t.left) == f"{rv}({p_val})" and norm(t.comparators[0]) == "INFINITY"
        incs = [n for n in ifs[0].body if isinstance(n, ast.AugAssign) and isinstance(n.op, ast.Add)]
        ok = ok and len(incs) == 1 and "self.__constraints_weights__[" in norm(incs[0].value) and not ifs[0].orelse
        if ok:
            acc = norm(incs[0].target)
            r = [n for n in walk_no_nested(f.node) if isinstance(n, ast.Return)]
            ok = len(r) == 1 and isinstance(r[0].value, ast.Tuple) and norm(r[0].value.elts[0]) == acc
            init = [s for s in f.node.body if isinstance(s, ast.Assign) and norm(s.targets[0]) == acc]
            ok = ok and len(init) == 1 and isinstance(init[0].value, ast.Constant) and init[0].value.value == 0
    ctx.check(ok, "R-EVAL", "a constraint counts (with its weight) iff its value >= INFINITY", f, ifs[0] if ifs else l,
              "hard constraints are at the infinity value: a strict test or a different bound lets a violated constraint go uncounted")
    # weights are positive: initial 1, only += 1
    ws = field_writes(cls, "__constraints_weights__", containers=True)
    ok = True
    for w in ws:
        if w.kind == "assign":
            ok = ok and w.func.name == "__init__" and isinstance(w.value, ast.ListComp) and isinstance(w.value.elt, ast.Constant) and w.value.elt.value >= 1
        elif w.kind == "aug":
            ok = False
        elif w.kind == "setitem":
            ok = False
    for fn in cls.methods.values():
        for n in ast.walk(fn.node):
            if isinstance(n, ast.AugAssign) and isinstance(n.target, ast.Subscript) and is_self_attr(n.target.value, "__constraints_weights__"):
                ok = ok and isinstance(n.op, ast.Add) and isinstance(n.value, ast.Constant) and n.value.value > 0
    ctx.check(ok and ws, "R-EVAL", "constraint weights stay positive (1, then += 1)", cls, (ws[0].stmt if ws else cls.node),
              "a zero or negative weight lets a violated constraint evaluate to 0 = 'consistent'")
    # INFINITY is the parameter
    ini = repo.func(M, f"{C}.__init__")
    g = [s for s in walk_no_nested(ini.node) if isinstance(s, ast.Assign) and norm(s.targets[0]) == "INFINITY"]
    ctx.check(len(g) == 1 and norm(g[0].value) == "infinity" and any(isinstance(s, ast.Global) and "INFINITY" in s.names for s in ini.node.body),
              "R-EVAL", "INFINITY bound to the 'infinity' parameter", ini, g[0] if g else ini.node, "")


def _stop(ctx, repo, cls):
    f = repo.func(M, f"{C}.stop_condition")
    r = [n for n in walk_no_nested(f.node) if isinstance(n, ast.Return)]
    ok = len(r) == 1 and isinstance(r[0].value, ast.Compare) and len(r[0].value.ops) == 1
    if ok:
        c = r[0].value
        l, o, rr = norm(c.left), type(c.ops[0]), norm(c.comparators[0])
        ok = (l == "self._termination_counter" and rr == "self._max_distance" and o in (ast.Eq, ast.GtE)) or \
             (rr == "self._termination_counter" and l == "self._max_distance" and o in (ast.Eq, ast.LtE))
    ctx.check(ok, "R-STOP", "stop iff counter reaches _max_distance", f, r[0] if r else f.node,
              "stopping below the bound means some agent within that distance may still be inconsistent")
    ws = field_writes(cls, "_max_distance")
    ok = len(ws) == 1 and ws[0].func.name == "__init__" and norm(ws[0].value) == "max_distance" and ws[0].stmt in ws[0].func.node.body
    ctx.check(ok, "R-STOP", "_max_distance is the constructor parameter", cls, ws[0].stmt if ws else cls.node, "")
    # parameter declared and forwarded by name
    mod = repo.module(M)
    ap = mod.assigns.get("algo_params")
    names = []
    if isinstance(ap, ast.List):
        for e in ap.elts:
            if isinstance(e, ast.Call) and e.args and isinstance(e.args[0], ast.Constant):
                names.append(e.args[0].value)
    ini = repo.func(M, f"{C}.__init__")
    ctx.check("max_distance" in names and set(names) <= set(ini.params + ini.kwonly), "R-STOP", "algo parameters bind constructor parameters by name", ini, ini.node,
              "build_computation forwards **algo.params: every declared parameter must be a constructor parameter")
    bc = repo.func(M, "build_computation")
    ctx.check("**comp_def.algo.params" in norm(bc.node), "R-STOP", "build_computation forwards the algorithm parameters", bc, bc.node, "")


_F = "pydcop/algorithms/dba.py"
VARIANTS = [
    ("improve_after_mode_switch", _F, "            self.improve(reduced_cs)\n\n            self._go_to_wait_improve_mode()", "            self._go_to_wait_improve_mode()\n            self.improve(reduced_cs)", "break", "R-PHASE"),
    ("counter_inc_unconditional", _F, "        stop = False\n        if self._consistent:\n            self._termination_counter += 1\n            stop = self.stop_condition()\n",
     "        self._termination_counter += 1\n        stop = self._consistent and self.stop_condition()\n", "break", "R-COUNTER"),
    ("finish_without_consistent", _F, "        stop = False\n        if self._consistent:\n            self._termination_counter += 1\n            stop = self.stop_condition()\n",
     "        if self._consistent:\n            self._termination_counter += 1\n        stop = self.stop_condition()\n", "break", "R-FINISH"),
    ("no_reset", _F, "            self._consistent = False\n            self._termination_counter = 0\n", "            self._consistent = False\n", "break", "R-COUNTER"),
    ("min_dropped", _F, "        self._termination_counter = min(recv_msg.termination_counter,\n                                        self._termination_counter)\n", "", "break", "R-COUNTER"),
    ("min_is_max", _F, "        self._termination_counter = min(recv_msg.termination_counter,", "        self._termination_counter = max(recv_msg.termination_counter,", "break", "R-COUNTER"),
    ("neighbor_eval_ignored", _F, "        if recv_msg.current_eval > 0:\n            self._consistent = False\n", "", "break", "R-CONSISTENT"),
    ("neighbor_eval_nested", _F, "        if recv_msg.current_eval > 0:\n            self._consistent = False\n", "        if recv_msg.current_eval > 0 and recv_msg.improve > 0:\n            self._consistent = False\n", "break", "R-CONSISTENT"),
    ("consistent_on_no_improvement", _F, "        if current_eval == 0:\n            self._consistent = True", "        if current_eval == best_eval:\n            self._consistent = True", "break", "R-CONSISTENT"),
    ("strict_infinity", _F, "            if rel(val) >= INFINITY:", "            if rel(val) > INFINITY:", "break", "R-EVAL"),
    ("stop_one_early", _F, "        return self._termination_counter == self._max_distance", "        return self._termination_counter >= self._max_distance - 1", "break", "R-STOP"),
    ("msg_slots_swapped", _F, "        msg = DbaImproveMessage(self._my_improve, current_eval,\n                                self._termination_counter)", "        msg = DbaImproveMessage(current_eval, self._my_improve,\n                                self._termination_counter)", "break", "R-MSG"),
    ("eval_with_new_value", _F, "            self.__cost__, _ = self.compute_eval_value(self.current_value,\n                                                          reduced_cs)",
     "            self.__cost__, _ = self.compute_eval_value(self._new_value,\n                                                          reduced_cs)", "break", "R-CONSISTENT"),
    ("move_when_finishing", _F, "        if stop:\n            self._send_end_msg()", "        if stop:\n            if self._can_move:\n                self.value_selection(self._new_value, 0)\n            self._send_end_msg()", "break", "R-FINISH"),
    ("finish_elsewhere", _F, "    def _increase_weights(self, constraints):\n", "    def _increase_weights(self, constraints):\n        if not constraints:\n            self.finished()\n", "break", "R-FINISH"),
    ("send_before_reset", _F, "        current_eval = self.__cost__\n        bests, best_eval = self._compute_best_improvement(relations)\n", "        current_eval = self.__cost__\n        bests, best_eval = self._compute_best_improvement(relations)\n        self._send_improve(current_eval)\n", "break", "R-"),
    ("n_stop_ge", _F, "        return self._termination_counter == self._max_distance", "        return self._termination_counter >= self._max_distance", "neutral"),
    ("n_consistent_expr", _F, "        if current_eval == 0:\n            self._consistent = True\n        else:\n            self._consistent = False\n            self._termination_counter = 0\n",
     "        if current_eval != 0:\n            self._consistent = False\n            self._termination_counter = 0\n        else:\n            self._consistent = True\n", "neutral"),
    ("n_rename_stop", _F, ["        stop = ", "        if stop:"], ["        halt = ", "        if halt:"], "neutral"),
]
