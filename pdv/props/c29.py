"""C29 - batch parameter expansion (narrow).

The expansion itself is delegated to itertools.product and its value-level
exactness is NOT decided.  Decided are the structural clauses without which the
stated behaviour cannot hold:

* R-ALIGN    parameter names and value lists are unzipped from one (sorted) item
             sequence and stay position-aligned: every later rebinding of the
             value lists is an element-wise map over them; a combination is
             dict(zip(names, one element of product(*value lists)));
* R-ORDER    the order is independent of the writing order: items sorted by the whole
             parameter name (injective key), every value list sorted;
* R-NESTED   a dict-valued parameter is expanded by the same function (one level
             or more), any other value list is kept as is;
* R-REGULAR  regularize_parameters keeps every key exactly once on every path and
             turns each kind of value into a list of str (list / str / dict /
             scalar), recursing into dicts;
* R-ONCE     build_option_for_parameters renders exactly one option per chosen
             value: one per sub-parameter of a dict value, one otherwise, joined in
             order; build_option_string places the value once.
"""
import ast

from ..model import walk_no_nested, norm, call_name
from ..facts import FuncFacts, facts_at, stmt_paths, count_paths
from ..report import Ctx, AnalysisError

B = "pydcop.commands.batch"


def check(ctx: Ctx):
    repo = ctx.repo
    ctx.decided = ("names/values alignment through the expansion, nested expansion by recursion, every key kept and listified by regularize_parameters, "
                   "exactly one rendered option per chosen (sub-)value.")
    ctx.undecided = ("that the list of combinations is exactly the cartesian product without repetition (delegated to itertools.product, depends on the "
                     "run-time values, e.g. duplicated values in the definition); determinism of the order beyond the alignment.")
    ctx.rule("R-ALIGN", "names and value lists stay position-aligned from the unzip to dict(zip(names, combination))")
    ctx.rule("R-ORDER", "the order of the combinations is a function of the definition's content, not of its writing order: names sorted by the full name, value lists sorted")
    ctx.rule("R-NESTED", "dict-valued parameters are expanded recursively, other value lists kept")
    ctx.rule("R-REGULAR", "regularize_parameters keeps every key once and produces lists of str, recursing into dicts")
    ctx.rule("R-ONCE", "one rendered option per chosen value / sub-value; the value appears once in the option string")
    pc = repo.func(B, "parameters_configuration")
    ctx.touch(pc)
    p0 = pc.params[0]
    top = pc.node.body
    un = [s for s in top if isinstance(s, ast.Assign) and isinstance(s.targets[0], ast.Tuple) and len(s.targets[0].elts) == 2 and isinstance(s.value, ast.Call) and call_name(s.value) == "zip"]
    ok = len(un) == 1
    names = values = None
    if ok:
        names, values = [norm(e) for e in un[0].targets[0].elts]
        a = un[0].value.args
        ok = len(a) == 1 and isinstance(a[0], ast.Starred)
        src = a[0].value if ok else None
        if ok:
            ok = (isinstance(src, ast.Call) and call_name(src) == "sorted" and norm(src.args[0]) == f"{p0}.items()") or norm(src) == f"{p0}.items()"
    ctx.check(ok, "R-ALIGN", "names and value lists come from one unzip of the parameter items", pc, un[0] if un else pc.node,
              "taking names and values from two differently ordered traversals pairs a parameter with another parameter's values")
    if not ok:
        return
    # deterministic order, independent of the order in which the definition was written: items sorted by the parameter name itself
    okd = isinstance(src, ast.Call) and call_name(src) == "sorted" and not any(k.arg == "reverse" and norm(k.value) != "False" for k in src.keywords)
    if okd:
        keyf = next((k.value for k in src.keywords if k.arg == "key"), None)
        okd = keyf is None or (isinstance(keyf, ast.Lambda) and len(keyf.args.args) == 1 and norm(keyf.body) in (f"{keyf.args.args[0].arg}[0]", keyf.args.args[0].arg)) \
            or norm(keyf) in ("operator.itemgetter(0)", "itemgetter(0)")
    ctx.check(okd, "R-ORDER", "parameter items are sorted by their name (the whole name: an injective key)", pc, src,
              "the order of the combinations (hence the job numbering) must not depend on the order in which the parameters were written: a key under which two names tie "
              "(case folding, a prefix, a length) leaves their relative order to the writing order")
    vs = [s for s in top if isinstance(s, ast.Assign) and norm(s.targets[0]) == values and isinstance(s.value, ast.ListComp) and isinstance(s.value.elt, ast.IfExp)
          and isinstance(s.value.elt.body, ast.Call) and call_name(s.value.elt.body) == "sorted"]
    okv = len(vs) == 1
    if okv:
        e = vs[0].value.elt
        v_ = norm(vs[0].value.generators[0].target)
        okv = norm(e.test) == f"isinstance({v_}, list)" and norm(e.body) == f"sorted({v_})" and norm(e.orelse) == v_
    ctx.check(okv, "R-ORDER", "every value list is sorted (whole values, ascending)", pc, vs[0] if vs else pc.node, "the values of one parameter are enumerated in an order that does not depend on the writing order")
    rebinds = [s for s in top if isinstance(s, ast.Assign) and norm(s.targets[0]) in (names, values) and s is not un[0]]
    for s in rebinds:
        v = s.value
        okr = norm(s.targets[0]) == values and isinstance(v, ast.ListComp) and len(v.generators) == 1 and norm(v.generators[0].iter) == values and not v.generators[0].ifs
        ctx.check(okr, "R-ALIGN", f"`{norm(s.targets[0])}` is only rebound to an element-wise map of itself (same length, same positions)", pc, s,
                  "filtering, sorting or re-ordering the value lists (or the names) after the unzip breaks the pairing used by dict(zip(names, combination))")
    combos = [c for c in ast.walk(pc.node) if isinstance(c, ast.ListComp) and any(isinstance(x, ast.Call) and norm(x.func) == "itertools.product" for x in ast.walk(c))]
    ok = len(combos) == 1
    if ok:
        g = combos[0].generators
        ok = len(g) == 1 and isinstance(g[0].iter, ast.Call) and [norm(a) for a in g[0].iter.args] == [f"*{values}"] and not g[0].ifs and norm(combos[0].elt) == f"dict(zip({names}, {norm(g[0].target)}))"
    ctx.check(ok, "R-ALIGN", "a combination = dict(zip(names, one element of product(*value lists))), for every element of the product", pc, combos[0] if combos else pc.node,
              "every combination of one value per parameter must be listed")
    r = [x for x in walk_no_nested(pc.node) if isinstance(x, ast.Return)]
    ctx.check(len(r) == 1 and isinstance(r[0].value, ast.Name) and any(isinstance(s, ast.Assign) and norm(s.targets[0]) == r[0].value.id and s.value is combos[0] for s in top) if combos else False,
              "R-ALIGN", "the list of combinations is returned whole", pc, r[0] if r else pc.node, "")
    # nested
    rec = [s for s in rebinds if any(isinstance(c, ast.Call) and call_name(c) == "parameters_configuration" for c in ast.walk(s))]
    ok = len(rec) == 1
    if ok:
        e = rec[0].value.elt
        v = norm(rec[0].value.generators[0].target)
        ok = isinstance(e, ast.IfExp) and norm(e.test) == f"isinstance({v}, dict)" and norm(e.body) == f"parameters_configuration({v})" and norm(e.orelse) == v
        # the recursion comes after the per-list sort (a dict cannot be sorted) and before the product
        ok = ok and top.index(rec[0]) < top.index(next(s for s in top if any(c is combos[0] for c in ast.walk(s))))
    ctx.check(ok, "R-NESTED", "dict-valued parameters are replaced by the list of their own combinations; other value lists are kept unchanged", pc, rec[0] if rec else pc.node,
              "nested sub-parameters must be expanded into one choice per sub-combination")
    # regularize
    rg = repo.func(B, "regularize_parameters")
    ctx.touch(rg)
    q = rg.params[0]
    loops = [l for l in rg.node.body if isinstance(l, ast.For) and norm(l.iter) == f"{q}.items()"]
    ok = len(loops) == 1
    if ok:
        k, v = [norm(e) for e in loops[0].target.elts]
        o = count_paths(loops[0].body, lambda s: 1 if isinstance(s, ast.Assign) and norm(s.targets[0]) == f"regularized[{k}]" else 0)
        ok = o.k == {"fall": (1, 1)}
        kinds = {}
        for p in stmt_paths(loops[0].body):
            st = [s for s in p.stmts if isinstance(s, ast.Assign) and norm(s.targets[0]) == f"regularized[{k}]"]
            if not st:
                continue
            val = norm(st[0].value)
            if p.has_fact(f"isinstance({v}, list)", True):
                kinds["list"] = val in (f"[str(i) for i in {v}]", f"list(map(str, {v}))")
            elif p.has_fact(f"isinstance({v}, str)", True):
                kinds["str"] = val == f"[{v}]"
            elif p.has_fact(f"isinstance({v}, dict)", True):
                kinds["dict"] = val == f"regularize_parameters({v})"
            else:
                kinds["other"] = val == f"[str({v})]"
        ok = ok and kinds == {"list": True, "str": True, "dict": True, "other": True}
    r = [x for x in walk_no_nested(rg.node) if isinstance(x, ast.Return)]
    ok = ok and len(r) == 1 and norm(r[0].value) == "regularized"
    ctx.check(ok, "R-REGULAR", "every key kept exactly once; list -> list of str, str -> [str], dict -> recursive, scalar -> [str(scalar)]", rg, loops[0] if loops else rg.node,
              "a parameter dropped or left as a bare string (iterated character by character by the expansion) changes the set of combinations")
    # rendering
    bo = repo.func(B, "build_option_for_parameters")
    ctx.touch(bo)
    q = bo.params[0]
    loops = [l for l in bo.node.body if isinstance(l, ast.For) and norm(l.iter) == f"{q}.items()"]
    ok = len(loops) == 1
    if ok:
        pn, pv = [norm(e) for e in loops[0].target.elts]
        n_paths = 0
        for p in stmt_paths(loops[0].body):
            n_paths += 1
            apps = [s for s in p.stmts if isinstance(s, ast.Expr) and isinstance(s.value, ast.Call) and norm(s.value.func) == "options_str.append"]
            inner = [s for s in p.stmts if isinstance(s, ast.For)]
            if p.has_fact(f"isinstance({pv}, dict)", True):
                okp = not apps and len(inner) == 1 and norm(inner[0].iter) == f"{pv}.items()"
                if okp:
                    sp, sv = [norm(e) for e in inner[0].target.elts]
                    okp = [norm(s) for s in inner[0].body] == [f"options_str.append(build_option_string({pn}, f'{{{sp}}}:{{{sv}}}'))"]
                ok = ok and okp
            else:
                ok = ok and not inner and len(apps) == 1 and norm(apps[0].value.args[0]) == f"build_option_string({pn}, {pv})"
        ok = ok and n_paths == 2
    r = [x for x in walk_no_nested(bo.node) if isinstance(x, ast.Return)]
    ok = ok and len(r) == 1 and norm(r[0].value) == "' '.join(options_str)"
    ctx.check(ok, "R-ONCE", "one option per parameter, or one per sub-parameter of a dict value (name sub:value), joined in order", bo, loops[0] if loops else bo.node,
              "each chosen value must be rendered exactly once in the command line")
    bs = repo.func(B, "build_option_string")
    ctx.touch(bs)
    n_, v_ = bs.params[:2]
    ok = False
    for p in stmt_paths(bs.node.body):
        if p.has_fact(f"{v_} is not None", True) and p.exit == "return":
            val = p.exit_stmt.value
            if isinstance(val, ast.JoinedStr):
                exprs = [norm(x.value) for x in val.values if isinstance(x, ast.FormattedValue)]
                ok = exprs == [n_, v_] and norm(val).startswith("f'--{")
    ctx.check(ok, "R-ONCE", "build_option_string renders `--name value` with the value once", bs, bs.node, "")
    ctx.floor("R-ALIGN", 4)


_B = "pydcop/commands/batch.py"
VARIANTS = [
    ("values_sorted_separately", _B, "    param_values = [\n        parameters_configuration(v) if isinstance(v, dict) else v for v in param_values\n    ]\n", "    param_values = [\n        parameters_configuration(v) if isinstance(v, dict) else v for v in param_values\n    ]\n    param_values = sorted(param_values, key=len)\n", "break", "R-ALIGN"),
    ("names_resorted", _B, "    param_combinations = [\n        dict(zip(param_names, values_combination))", "    param_names = sorted(param_names, reverse=True)\n    param_combinations = [\n        dict(zip(param_names, values_combination))", "break", "R-ALIGN"),
    ("values_filtered", _B, "    param_values = [\n        sorted(values) if isinstance(values, list) else values\n        for values in param_values\n    ]", "    param_values = [\n        sorted(values) if isinstance(values, list) else values\n        for values in param_values\n        if values\n    ]", "break", "R-ALIGN"),
    ("nested_not_expanded", _B, "        parameters_configuration(v) if isinstance(v, dict) else v for v in param_values", "        [v] if isinstance(v, dict) else v for v in param_values", "break", "R-NESTED"),
    ("regularize_str_not_wrapped", _B, "        elif isinstance(v, str):\n            regularized[k] = [v]", "        elif isinstance(v, str):\n            regularized[k] = v", "break", "R-REGULAR"),
    ("regularize_drops_none", _B, "        else:\n            regularized[k] = [str(v)]\n\n    return regularized", "        elif v is not None:\n            regularized[k] = [str(v)]\n\n    return regularized", "break", "R-REGULAR"),
    ("option_rendered_twice", _B, "        else:\n            options_str.append(build_option_string(p, v))\n", "        else:\n            options_str.append(build_option_string(p, v))\n        if not isinstance(v, dict):\n            options_str.append(build_option_string(p, v))\n", "break", "R-ONCE"),
    ("sub_option_only_first", _B, "            for sub_p, sub_v in v.items():\n                options_str.append(build_option_string(p, f\"{sub_p}:{sub_v}\"))", "            for sub_p, sub_v in v.items():\n                options_str.append(build_option_string(p, f\"{sub_p}:{sub_v}\"))\n                break", "break", "R-ONCE"),
    ("unsorted_items", _B, "        *sorted(algo_parameters.items(), key=lambda x: x[0])\n", "        *algo_parameters.items()\n", "break", "R-ORDER"),
    ("names_sorted_case_insensitive", _B, "        *sorted(algo_parameters.items(), key=lambda x: x[0])\n", "        *sorted(algo_parameters.items(), key=lambda x: x[0].lower())\n", "break", "R-ORDER"),
    ("n_sorted_by_itemgetter", _B, "        *sorted(algo_parameters.items(), key=lambda x: x[0])\n", "        *sorted(algo_parameters.items(), key=lambda item: item[0])\n", "neutral"),
    ("n_rename_loopvar", _B, "        sorted(values) if isinstance(values, list) else values\n        for values in param_values", "        sorted(vals) if isinstance(vals, list) else vals\n        for vals in param_values", "neutral"),
]
