"""C29 - batch parameter expansion (narrow).

The expansion itself is delegated to itertools.product and its value-level
exactness is NOT decided.  Decided are the structural clauses without which the
stated behaviour cannot hold:

* R-ALIGN    parameter names and value lists are unzipped from one (sorted) item
             sequence and stay position-aligned: every later rebinding of the
             value lists is an element-wise map over them; a combination is
             dict(zip(names, one element of product(*value lists)));
* R-ORDER    the order is independent of the writing order: items sorted by the whole
             parameter name (injective key), every value list sorted;
* R-NESTED   a dict-valued parameter is expanded by the same function (one level
             or more), any other value list is kept as is;
* R-REGULAR  regularize_parameters keeps every key exactly once on every path and
             turns each kind of value into a list of str (list / str / dict /
             scalar), recursing into dicts;
* R-ONCE     build_option_for_parameters renders exactly one option per chosen
             value: one per sub-parameter of a dict value, one otherwise, joined in
             order; build_option_string places the value once.
"""
import ast

from ..model import walk_no_nested, norm, call_name
from ..facts import FuncFacts, facts_at, stmt_paths, count_paths
from ..report import Ctx, AnalysisError

B = "pydcop.commands.batch"


def check(ctx: Ctx):
    repo = ctx.repo
    ctx.decided = ("names/values alignment through the expansion, nested expansion by recursion, every key kept and listified by regularize_parameters, "
                   "exactly one rendered option per chosen (sub-)value.")
    ctx.undecided = ("that the list of combinations is exactly the cartesian product without repetition (delegated to itertools.product, depends on the "
                     "run-time values, e.g. duplicated values in the definition); determinism of the order beyond the alignment.")
    ctx.rule("R-ALIGN", "names and value lists stay position-aligned from the unzip to dict(zip(names, combination))")
    ctx.rule("R-ORDER", "the order of the combinations is a function of the definition's content, not of its writing order: names sorted by the full name, value lists sorted")
    ctx.rule("R-NESTED", "dict-valued parameters are expanded recursively, other value lists kept")
    ctx.rule("R-REGULAR", "regularize_parameters keeps every key once and produces lists of str, recursing into dicts")
    ctx.rule("R-ONCE", "one rendered option per chosen value / sub-value; the value appears once in the option string")
    pc = repo.func(B, "parameters_configuration")
    ctx.touch(pc)
    p0 = pc.params[0]
    top = pc.node.body
    un = [s for s in top if isinstance(s, ast.Assign) and isinstance(s.targets[0], ast.Tuple) and len(s.targets[0].elts) == 2 and isinstance(s.value, ast.Call) and call_name(s.value) == "zip"]
    ok = len(un) == 1
    names = values = None
    if ok:
        names, values = [norm(e) for e in un[0].targets[0].elts]
        a = un[0].value.args
        ok = len(a) == 1 and isinstance(a[0], ast.Starred)
        src = a[0].value if ok else None
        if ok:
            ok = (isinstance(src, ast.Call) and call_name(src) == "sorted" and norm(src.args[0]) == f"{p0}.items()") or norm(src) == f"{p0}.items()"
    ctx.check(ok, "R-ALIGN", "names and value lists come from one unzip of the parameter items", pc, un[0] if un else pc.node,
              "taking names and values from two differently ordered traversals pairs a parameter with another parameter's values")
    if not ok:
        return
    # deterministic order, independent of the order in which the definition was written: items sorted by the parameter name itself
    okd = isinstance(src, ast.Call) and call_name(src) == "sorted" and not any(k.arg == "reverse" and norm(k.value) != "False" for k in src.keywords)
    if okd:
        keyf = next((k.value for k in src.keywords if k.arg == "key"), None)
        okd = keyf is None or (isinstance(keyf, ast.Lambda) and len(keyf.args.args) == 1 and norm(keyf.body) in (f"{keyf.args.args[0].arg}[0]", keyf.args.args[0].arg)) \
            or norm(keyf) in ("operator.itemgetter(0)", "itemgetter(0)")
    ctx.check(okd, "R-ORDER", "parameter items are sorted by their name (the whole name: an injective key)", pc, src,
              "the order of the combinations (hence the job numbering) must not depend on the order in which the parameters were written: a key under which two names tie "
              "(case folding, a prefix, a length) leaves their relative order to the writing order")
    # ---- the value lists flow from the unzip to the product through element-wise maps only (under one name rebound several times, under
    # ---- several names, or nested): one map sorts each list, a later one expands dict-valued parameters
    defs = {}
    for s_ in top:
        if isinstance(s_, ast.Assign) and len(s_.targets) == 1 and isinstance(s_.targets[0], ast.Name):
            defs.setdefault(s_.targets[0].id, []).append(s_)
    combos = [c for c in ast.walk(pc.node) if isinstance(c, ast.ListComp) and any(isinstance(x, ast.Call) and norm(x.func) == "itertools.product" for x in ast.walk(c))]
    okc = len(combos) == 1
    prod_arg = None
    if okc:
        g = combos[0].generators
        okc = len(g) == 1 and isinstance(g[0].iter, ast.Call) and len(g[0].iter.args) == 1 and isinstance(g[0].iter.args[0], ast.Starred) and not g[0].ifs \
            and norm(combos[0].elt) == f"dict(zip({names}, {norm(g[0].target)}))"
        prod_arg = g[0].iter.args[0].value if okc else None
    loop_form = None
    if not combos:
        # the same enumeration written as an accumulation loop
        lf = [l for l in top if isinstance(l, ast.For) and isinstance(l.iter, ast.Call) and norm(l.iter.func) == "itertools.product" and len(l.iter.args) == 1 and isinstance(l.iter.args[0], ast.Starred)]
        if len(lf) == 1 and len(lf[0].body) == 1 and isinstance(lf[0].body[0], ast.Expr) and isinstance(lf[0].body[0].value, ast.Call) and isinstance(lf[0].body[0].value.func, ast.Attribute) \
                and lf[0].body[0].value.func.attr == "append" and [norm(a) for a in lf[0].body[0].value.args] == [f"dict(zip({names}, {norm(lf[0].target)}))"] and not lf[0].orelse:
            acc = norm(lf[0].body[0].value.func.value)
            init = [d for d in defs.get(acc, []) if isinstance(d.value, ast.List) and not d.value.elts and d.lineno < lf[0].lineno]
            if len(init) == 1 and len(defs.get(acc, [])) == 1:
                loop_form = (lf[0], acc)
                okc = True
                prod_arg = lf[0].iter.args[0].value
    ctx.check(okc, "R-ALIGN", "a combination = dict(zip(names, one element of product(*value lists))), for every element of the product", pc, combos[0] if combos else (loop_form[0] if loop_form else pc.node),
              "every combination of one value per parameter must be listed")
    # names are never rebound
    nb = [s_ for s_ in defs.get(names, [])]
    ctx.check(not nb, "R-ALIGN", "the tuple of names is not rebound after the unzip", pc, nb[0] if nb else un[0], "re-ordering the names after the unzip breaks the pairing used by dict(zip(names, combination))")
    steps = []   # (elt, loop variable, node) from the product back to the unzip

    def walk_chain(e, use_site_line, depth=0):
        if depth > 8:
            return False
        if isinstance(e, ast.Name):
            if e.id == values:
                cand = [d for d in defs.get(values, []) if d.lineno < use_site_line]
                if not cand:
                    return True   # the unzip itself
                d = cand[-1]
                return walk_chain(d.value, d.lineno, depth + 1)
            cand = [d for d in defs.get(e.id, []) if d.lineno < use_site_line]
            if len(cand) < 1:
                return False
            return walk_chain(cand[-1].value, cand[-1].lineno, depth + 1)
        if isinstance(e, ast.ListComp) and len(e.generators) == 1 and not e.generators[0].ifs and isinstance(e.generators[0].target, ast.Name):
            steps.append((e.elt, e.generators[0].target.id, e))
            return walk_chain(e.generators[0].iter, use_site_line, depth + 1)
        return False
    okchain = prod_arg is not None and walk_chain(prod_arg, getattr(combos[0], "lineno", 10 ** 9) if combos else (loop_form[0].lineno if loop_form else 10 ** 9))
    ctx.check(bool(okchain), "R-ALIGN", "the value lists reach the product only through element-wise maps of the unzipped tuple (same length, same positions)", pc, prod_arg if prod_arg is not None else pc.node,
              "filtering, sorting or re-ordering the value lists (or the names) after the unzip breaks the pairing used by dict(zip(names, combination))")
    r = [x for x in walk_no_nested(pc.node) if isinstance(x, ast.Return)]
    okr = len(r) == 1 and ((combos and (r[0].value is combos[0] or (isinstance(r[0].value, ast.Name) and any(d.value is combos[0] for d in defs.get(r[0].value.id, []))))) or
                           (loop_form and norm(r[0].value) == loop_form[1]))
    ctx.check(bool(okr), "R-ALIGN", "the list of combinations is returned whole", pc, r[0] if r else pc.node, "")
    # steps are listed from the product backwards: [expansion, sort] in the reference
    sort_steps = [(e, v) for e, v, _ in steps if isinstance(e, ast.IfExp) and norm(e.test) == f"isinstance({v}, list)" and norm(e.body) == f"sorted({v})" and norm(e.orelse) == v]
    exp_steps = [(e, v) for e, v, _ in steps if isinstance(e, ast.IfExp) and norm(e.test) == f"isinstance({v}, dict)" and norm(e.body) == f"parameters_configuration({v})" and norm(e.orelse) == v]
    ctx.check(len(sort_steps) == 1, "R-ORDER", "every value list is sorted (whole values, ascending)", pc, steps[-1][2] if steps else pc.node,
              "the values of one parameter are enumerated in an order that does not depend on the writing order")
    idx = {id(e): i for i, (e, v, _) in enumerate(steps)}
    okn = len(exp_steps) == 1 and len(steps) == 2 and (not sort_steps or idx[id(exp_steps[0][0])] < idx[id(sort_steps[0][0])])
    ctx.check(okn, "R-NESTED", "dict-valued parameters are replaced by the list of their own combinations; other value lists are kept unchanged", pc, steps[0][2] if steps else pc.node,
              "nested sub-parameters must be expanded into one choice per sub-combination (after the per-list sort: a dict cannot be sorted)")
    # regularize
    rg = repo.func(B, "regularize_parameters")
    ctx.touch(rg)
    q = rg.params[0]
    loops = [l for l in rg.node.body if isinstance(l, ast.For) and norm(l.iter) == f"{q}.items()"]
    ok = len(loops) == 1
    if ok:
        k, v = [norm(e) for e in loops[0].target.elts]
        o = count_paths(loops[0].body, lambda s: 1 if isinstance(s, ast.Assign) and norm(s.targets[0]) == f"regularized[{k}]" else 0)
        ok = o.k == {"fall": (1, 1)}
        kinds = {}
        for p in stmt_paths(loops[0].body):
            st = [s for s in p.stmts if isinstance(s, ast.Assign) and norm(s.targets[0]) == f"regularized[{k}]"]
            if not st:
                continue
            val = norm(st[0].value)
            if p.has_fact(f"isinstance({v}, list)", True):
                kinds["list"] = val in (f"[str(i) for i in {v}]", f"list(map(str, {v}))")
            elif p.has_fact(f"isinstance({v}, str)", True):
                kinds["str"] = val == f"[{v}]"
            elif p.has_fact(f"isinstance({v}, dict)", True):
                kinds["dict"] = val == f"regularize_parameters({v})"
            else:
                kinds["other"] = val == f"[str({v})]"
        ok = ok and kinds == {"list": True, "str": True, "dict": True, "other": True}
    r = [x for x in walk_no_nested(rg.node) if isinstance(x, ast.Return)]
    ok = ok and len(r) == 1 and norm(r[0].value) == "regularized"
    ctx.check(ok, "R-REGULAR", "every key kept exactly once; list -> list of str, str -> [str], dict -> recursive, scalar -> [str(scalar)]", rg, loops[0] if loops else rg.node,
              "a parameter dropped or left as a bare string (iterated character by character by the expansion) changes the set of combinations")
    # rendering
    bo = repo.func(B, "build_option_for_parameters")
    ctx.touch(bo)
    q = bo.params[0]
    loops = [l for l in bo.node.body if isinstance(l, ast.For) and norm(l.iter) == f"{q}.items()"]
    ok = len(loops) == 1
    if ok:
        pn, pv = [norm(e) for e in loops[0].target.elts]
        n_paths = 0
        for p in stmt_paths(loops[0].body):
            n_paths += 1
            apps = [s for s in p.stmts if isinstance(s, ast.Expr) and isinstance(s.value, ast.Call) and norm(s.value.func) == "options_str.append"]
            inner = [s for s in p.stmts if isinstance(s, ast.For)]
            if p.has_fact(f"isinstance({pv}, dict)", True):
                okp = not apps and len(inner) == 1 and norm(inner[0].iter) == f"{pv}.items()"
                if okp:
                    sp, sv = [norm(e) for e in inner[0].target.elts]
                    okp = [norm(s) for s in inner[0].body] == [f"options_str.append(build_option_string({pn}, f'{{{sp}}}:{{{sv}}}'))"]
                ok = ok and okp
            else:
                ok = ok and not inner and len(apps) == 1 and norm(apps[0].value.args[0]) == f"build_option_string({pn}, {pv})"
        ok = ok and n_paths == 2
    r = [x for x in walk_no_nested(bo.node) if isinstance(x, ast.Return)]
    ok = ok and len(r) == 1 and norm(r[0].value) == "' '.join(options_str)"
    ctx.check(ok, "R-ONCE", "one option per parameter, or one per sub-parameter of a dict value (name sub:value), joined in order", bo, loops[0] if loops else bo.node,
              "each chosen value must be rendered exactly once in the command line")
    bs = repo.func(B, "build_option_string")
    ctx.touch(bs)
    n_, v_ = bs.params[:2]
    ok = False
    for p in stmt_paths(bs.node.body):
        if p.has_fact(f"{v_} is not None", True) and p.exit == "return":
            val = p.exit_stmt.value
            if isinstance(val, ast.JoinedStr):
                exprs = [norm(x.value) for x in val.values if isinstance(x, ast.FormattedValue)]
                ok = exprs == [n_, v_] and norm(val).startswith("f'--{")
    ctx.check(ok, "R-ONCE", "build_option_string renders `--name value` with the value once", bs, bs.node, "")
    ctx.floor("R-ALIGN", 4)


_B = "pydcop/commands/batch.py"
VARIANTS = [
    ("values_sorted_separately", _B, "    param_values = [\n        parameters_configuration(v) if isinstance(v, dict) else v for v in param_values\n    ]\n", "    param_values = [\n        parameters_configuration(v) if isinstance(v, dict) else v for v in param_values\n    ]\n    param_values = sorted(param_values, key=len)\n", "break", "R-ALIGN"),
    ("names_resorted", _B, "    param_combinations = [\n        dict(zip(param_names, values_combination))", "    param_names = sorted(param_names, reverse=True)\n    param_combinations = [\n        dict(zip(param_names, values_combination))", "break", "R-ALIGN"),
    ("values_filtered", _B, "    param_values = [\n        sorted(values) if isinstance(values, list) else values\n        for values in param_values\n    ]", "    param_values = [\n        sorted(values) if isinstance(values, list) else values\n        for values in param_values\n        if values\n    ]", "break", "R-ALIGN"),
    ("nested_not_expanded", _B, "        parameters_configuration(v) if isinstance(v, dict) else v for v in param_values", "        [v] if isinstance(v, dict) else v for v in param_values", "break", "R-NESTED"),
    ("regularize_str_not_wrapped", _B, "        elif isinstance(v, str):\n            regularized[k] = [v]", "        elif isinstance(v, str):\n            regularized[k] = v", "break", "R-REGULAR"),
    ("regularize_drops_none", _B, "        else:\n            regularized[k] = [str(v)]\n\n    return regularized", "        elif v is not None:\n            regularized[k] = [str(v)]\n\n    return regularized", "break", "R-REGULAR"),
    ("option_rendered_twice", _B, "        else:\n            options_str.append(build_option_string(p, v))\n", "        else:\n            options_str.append(build_option_string(p, v))\n        if not isinstance(v, dict):\n            options_str.append(build_option_string(p, v))\n", "break", "R-ONCE"),
    ("sub_option_only_first", _B, "            for sub_p, sub_v in v.items():\n                options_str.append(build_option_string(p, f\"{sub_p}:{sub_v}\"))", "            for sub_p, sub_v in v.items():\n                options_str.append(build_option_string(p, f\"{sub_p}:{sub_v}\"))\n                break", "break", "R-ONCE"),
    ("unsorted_items", _B, "        *sorted(algo_parameters.items(), key=lambda x: x[0])\n", "        *algo_parameters.items()\n", "break", "R-ORDER"),
    ("names_sorted_case_insensitive", _B, "        *sorted(algo_parameters.items(), key=lambda x: x[0])\n", "        *sorted(algo_parameters.items(), key=lambda x: x[0].lower())\n", "break", "R-ORDER"),
    ("n_sorted_by_itemgetter", _B, "        *sorted(algo_parameters.items(), key=lambda x: x[0])\n", "        *sorted(algo_parameters.items(), key=lambda item: item[0])\n", "neutral"),
    ("n_rename_loopvar", _B, "        sorted(values) if isinstance(values, list) else values\n        for values in param_values", "        sorted(vals) if isinstance(vals, list) else vals\n        for vals in param_values", "neutral"),
]
