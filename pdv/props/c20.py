"""C20 - discovery views converge to the directory for subscribed items.

Decided: protocol tables of the 8 discovery messages (exhaustiveness, field
use, kind agreement of every subscribe/unsubscribe/publish operation on both
sides), directory notification targets, no mutation while iterating, presence-
significant callback tables are never auto-vivified, directory subscriptions
are recorded on every path of the subscribe handlers, remote updates are applied
locally without re-publication, event literals fired = literals consumed.
"""
import ast
import re

from ..model import walk_no_nested, norm, call_name, is_self_attr, is_self_call, FuncInfo
from ..facts import FuncFacts, facts_at, count_paths, calls_hit
from ..report import Ctx, AnalysisError

MOD = "pydcop.infrastructure.discovery"
KINDS = ("agent", "computation", "replica")
MUT = {"remove", "append", "pop", "insert", "clear", "extend", "add", "discard", "update", "popitem"}


def _msg_table(repo):
    """class var name -> (type string, fields)"""
    return {name: (t, fields) for (mod, name), (t, fields, _) in repo.message_types().items() if mod == MOD}


def _handlers_dict(f: FuncInfo):
    for n in walk_no_nested(f.node):
        if isinstance(n, ast.Assign) and any(is_self_attr(t, "_handlers") for t in n.targets) and isinstance(n.value, ast.Dict):
            return {k.value: v.attr for k, v in zip(n.value.keys, n.value.values) if isinstance(k, ast.Constant) and isinstance(v, ast.Attribute)}
    return None


def check(ctx: Ctx):
    repo = ctx.repo
    m = repo.module(MOD)
    ctx.touch(m)
    ctx.decided = ("every discovery message sent has a handler at its destination and handlers read only declared fields; "
                   "subscribe_K/unsubscribe_K/register_K/unregister_K use the message of their own kind with the right flag on "
                   "both sides; the directory notifies the subscriber table of the same kind; subscription is recorded on "
                   "every path of the directory's subscribe handlers; callback loops never mutate what they iterate; "
                   "presence-significant callback tables are only read under a membership test; remote updates are applied "
                   "locally with publish=False; every event literal consumed anywhere is fired by discovery.")
    ctx.undecided = "convergence of the views under all delivery orders and histories; behaviour when the directory is unreachable."
    ctx.rule("R-PROTO.a", "every message type sent to the directory / to a discovery computation has a handler there")
    ctx.rule("R-PROTO.b", "a handler reads only fields declared by the message class of its type")
    ctx.rule("R-PROTO.d", "operations of one kind (agent / computation / replica) use the message, flag, directory call and subscriber table of that kind")
    ctx.rule("R-OBLIGATION", "the directory records a subscription on every path of its subscribe handler (also when the lookup raises)")
    ctx.rule("R-ITERMUT", "a list / dict / set is not structurally modified while it is iterated directly")
    ctx.rule("R-PRESENCE", "callback tables whose key presence means 'subscribed' are only indexed under a membership test (no auto-vivification)")
    ctx.rule("R-ECHO", "updates received from the directory are applied locally with publish=False; the directory mirrors into its own discovery with publish=False")
    ctx.rule("R-KEEP", "a subscription recorded by the directory is dropped only on the subscriber's own request or when the subscriber is removed; "
                       "a local view is forgotten only together with the unsubscription sent to the directory")
    ctx.rule("R-EVENTS", "event literals compared by subscribers are literals that discovery fires")
    ctx.rule("R-CALLBACKS", "callbacks fire only on a change, for every registered callback, and one-shot callbacks are dropped afterwards")

    msgs = _msg_table(repo)
    if len(msgs) < 8:
        raise AnalysisError(f"expected 8 discovery message classes, found {len(msgs)}")
    by_type = {t: (name, fields) for name, (t, fields) in msgs.items()}
    dirc = repo.cls(MOD, "DirectoryComputation")
    disc = repo.cls(MOD, "DiscoveryComputation")
    directory = repo.cls(MOD, "Directory")
    discovery = repo.cls(MOD, "Discovery")
    dir_h = _handlers_dict(repo.func(MOD, "DirectoryComputation.__init__"))
    dis_h = _handlers_dict(repo.func(MOD, "DiscoveryComputation.__init__"))
    if dir_h is None or dis_h is None:
        raise AnalysisError("handler tables of the discovery computations not found")

    # ---- (a) exhaustiveness -------------------------------------------------
    sent_to_dir, sent_to_disc = [], []
    for f in discovery.methods.values():
        for c in walk_no_nested(f.node):
            if isinstance(c, ast.Call) and call_name(c) == "send_to_directory" and c.args:
                a = c.args[0]
                if isinstance(a, ast.Name):
                    nm = a.id
                    for n in walk_no_nested(f.node):
                        if isinstance(n, ast.Assign) and norm(n.targets[0]) == nm:
                            a = n.value
                if isinstance(a, ast.Call) and call_name(a) in msgs:
                    sent_to_dir.append((f, c, a))
                else:
                    ctx.bad("R-PROTO.a", f"{f.qualname}: unknown message sent to the directory", f, c, f"cannot resolve the message `{norm(c.args[0])}`")
    for f in dirc.methods.values():
        for c in walk_no_nested(f.node):
            if isinstance(c, ast.Call) and is_self_attr(c.func, "post_msg") and len(c.args) >= 2 and isinstance(c.args[1], ast.Call) and call_name(c.args[1]) in msgs:
                sent_to_disc.append((f, c, c.args[1]))
    for f, c, a in sent_to_dir:
        t = msgs[call_name(a)][0]
        ctx.check(t in dir_h and dir_h[t] in dirc.methods, "R-PROTO.a", f"{call_name(a)} -> directory handler", f, c,
                  f"message type '{t}' sent to the directory has no handler in DirectoryComputation._handlers")
    for f, c, a in sent_to_disc:
        t = msgs[call_name(a)][0]
        ctx.check(t in dis_h and dis_h[t] in disc.methods, "R-PROTO.a", f"{call_name(a)} -> discovery handler", f, c,
                  f"message type '{t}' sent by the directory has no handler in DiscoveryComputation._handlers")
        ctx.check(len(c.args) >= 3 and norm(c.args[2]) == "MSG_DISCOVERY", "R-PROTO.a", f"{f.name}: discovery priority", f, c,
                  "directory notifications must be posted with MSG_DISCOVERY priority")
    ctx.floor("R-PROTO.a", 20)
    _authority(ctx, repo)
    # dispatch through the table
    for cls in (dirc, disc):
        om = cls.methods.get("on_message")
        ok = om is not None and "self._handlers[msg.type](sender, msg)" in norm(om.node)
        ctx.check(ok, "R-PROTO.a", f"{cls.name}.on_message dispatches by message type", om or cls, (om or cls).node,
                  "on_message must dispatch on msg.type through the handler table")

    # ---- (b) field use ----------------------------------------------------------
    for cls, table in ((dirc, dir_h), (disc, dis_h)):
        for t, hname in table.items():
            h = cls.methods.get(hname)
            if h is None or t not in by_type:
                ctx.bad("R-PROTO.b", f"{cls.name}: handler for '{t}'", cls, cls.node, f"handler '{hname}' or message type '{t}' is not defined")
                continue
            ctx.touch(h)
            mp = h.params[2] if len(h.params) > 2 else "msg"
            fields = set(by_type[t][1])
            used = {x.attr for x in ast.walk(h.node) if isinstance(x, ast.Attribute) and isinstance(x.value, ast.Name) and x.value.id == mp}
            ctx.check(used <= fields | {"type", "size"}, "R-PROTO.b", f"{cls.name}.{hname} reads {sorted(used)}", h, h.node,
                      f"handler of '{t}' reads {sorted(used - fields)} but {by_type[t][0]} declares {sorted(fields)}")

    # ---- (d) kind agreement, discovery side --------------------------------------
    cap = {"agent": "Agent", "computation": "Computation", "replica": "Replica"}
    for k in KINDS:
        for op, flag in (("subscribe", "True"), ("unsubscribe", "False")):
            f = repo.func(MOD, f"Discovery.{op}_{k}")
            ctx.touch(f)
            sends = [(c, a) for ff_, c, a in sent_to_dir if ff_ is f]
            if not sends:
                ctx.bad("R-PROTO.d", f"Discovery.{op}_{k}: sends to the directory", f, f.node, f"{op}_{k} never informs the directory")
            for c, a in sends:
                want = f"Subscribe{cap[k]}Message"
                okk = call_name(a) == want and len(a.args) == 2 and norm(a.args[0]) == f.params[1] and norm(a.args[1]) == flag
                ctx.check(okk, "R-PROTO.d", f"Discovery.{op}_{k} -> {want}(.., {flag})", f, c,
                          f"{op}_{k} must send {want}({f.params[1]}, {flag}); found `{norm(a)}`: the directory would edit the wrong subscription table")
        # publish / unpublish
    pubs = {"register_agent": ("PublishAgentMessage", None), "unregister_agent": ("UnPublishAgentMessage", None),
            "register_computation": ("PublishComputationMessage", None), "unregister_computation": ("UnPublishComputationMessage", None),
            "register_replica": ("PublishReplicaMessage", "True"), "unregister_replica": ("PublishReplicaMessage", "False")}
    for fn, (want, flag) in pubs.items():
        f = repo.func(MOD, f"Discovery.{fn}")
        ctx.touch(f)
        sends = [(c, a) for ff_, c, a in sent_to_dir if ff_ is f and call_name(a).startswith(("Publish", "UnPublish"))]
        ffx = FuncFacts(f.node)
        if not sends:
            ctx.bad("R-PROTO.d", f"Discovery.{fn}: publication", f, f.node, f"{fn} never publishes to the directory")
        for c, a in sends:
            okk = call_name(a) == want and (flag is None or norm(a.args[-1]) == flag) and norm(a.args[0]) == f.params[1]
            ctx.check(okk, "R-PROTO.d", f"Discovery.{fn} -> {want}", f, c, f"{fn} must publish with {want}" + (f"(.., {flag})" if flag else ""))
            facts = {(norm(t), p) for t, p in facts_at(ffx, c)}
            ctx.check(("publish", True) in facts, "R-ECHO", f"Discovery.{fn}: published only when publish=True", f, c,
                      "a local-only update (publish=False) must not be sent to the directory (it would echo forever)")

    # ---- (d) directory side --------------------------------------------------------
    dkind = {"agent": ("subscribe_to_agent", "unsubscribe_from_agent", "_subscription_agents"),
             "computation": ("subscribe_to_computation", "unsubscribe_from_computation", "_subscription_computations"),
             "replica": ("subscribe_to_replicas", "unsubscribe_from_replicas", "_subscription_replicas")}
    for k, (sub, unsub, table) in dkind.items():
        h = repo.func(MOD, f"DirectoryComputation._on_subscribe_{k}")
        ctx.touch(h)
        sp, mp = h.params[1], h.params[2]
        ffh = FuncFacts(h.node)
        for name, pol in ((sub, True), (unsub, False)):
            calls = [c for c in walk_no_nested(h.node) if isinstance(c, ast.Call) and norm(c.func) == f"self.directory.{name}"]
            okc = len(calls) == 1 and [norm(a) for a in calls[0].args] == [sp, f"{mp}.{k}"]
            if okc:
                facts = {(norm(t), p) for t, p in facts_at(ffh, calls[0])}
                okc = (f"{mp}.subscribe", pol) in facts
            ctx.check(okc, "R-PROTO.d", f"_on_subscribe_{k}: {name} when subscribe is {pol}", h, calls[0] if calls else h.node,
                      f"a '{k}' (un)subscription must call directory.{name}(sender, msg.{k}) on the subscribe={pol} branch")
        # obligation: recorded on every path of the subscribe branch
        top = [s for s in h.node.body if isinstance(s, ast.If) and norm(s.test) == f"{mp}.subscribe"]
        if top:
            region = top[0].body
            if k == "agent":
                # the '*' branch subscribes to all agents instead
                inner = [s for s in region if isinstance(s, ast.If) and "'*'" in norm(s.test)]
                if inner:
                    allc = [c for s in inner[0].body for c in ast.walk(s) if isinstance(c, ast.Call) and norm(c.func) == "self.directory.subscribe_all_agents"]
                    ctx.check(len(allc) == 1, "R-PROTO.d", "_on_subscribe_agent: '*' subscribes to all agents", h, inner[0], "the wildcard must subscribe to all agents")
                    region = inner[0].orelse
            o = count_paths(region, calls_hit(lambda c: norm(c.func) == f"self.directory.{sub}"), hit_first_in_try=True)
            okp = all(v[0] >= 1 for kk, v in o.k.items() if kk in ("fall", "return"))
            ctx.check(okp, "R-OBLIGATION", f"_on_subscribe_{k}: subscription recorded on every path", h, top[0],
                      f"directory.{sub} must be reached on every path, including when the lookup of the current value raises ({o.k})")
        # directory methods edit the table of their kind
        for name, meth in ((sub, "add"), (unsub, "remove")):
            df = repo.func(MOD, f"Directory.{name}")
            ctx.touch(df)
            edits = [c for c in walk_no_nested(df.node) if isinstance(c, ast.Call) and isinstance(c.func, ast.Attribute) and c.func.attr in ("add", "remove", "discard")
                     and isinstance(c.func.value, ast.Subscript)]
            oke = len(edits) == 1 and is_self_attr(edits[0].func.value.value, table) and norm(edits[0].func.value.slice) == df.params[2] \
                and [norm(a) for a in edits[0].args] == [df.params[1]] and (edits[0].func.attr == meth or (meth == "remove" and edits[0].func.attr == "discard"))
            ctx.check(oke, "R-PROTO.d", f"Directory.{name} edits {table}", df, edits[0] if edits else df.node,
                      f"{name} must {meth} the subscriber in {table}[{df.params[2]}]")
        # notifications use the subscriber table of the same kind
        for reg, suffix in (("register", "registered"), ("unregister", "unregistered")):
            fname = f"{reg}_{k}"
            df = repo.func(MOD, f"Directory.{fname}")
            ctx.touch(df)
            loops = [n for n in walk_no_nested(df.node) if isinstance(n, ast.For) and any(isinstance(c, ast.Call) and "notify_" in norm(c.func) for c in ast.walk(n))]
            if not loops:
                ctx.bad("R-PROTO.d", f"Directory.{fname} notifies subscribers", df, df.node, f"{fname} no longer notifies the subscribed agents")
            for lp in loops:
                it = norm(lp.iter)
                src_ok = table in it or "_subscription_all_agents" in it or it == "interested_agents"
                if it == "interested_agents":
                    defs = [n for n in walk_no_nested(df.node) if isinstance(n, ast.Assign) and norm(n.targets[0]) == "interested_agents"]
                    src_ok = bool(defs) and table in norm(defs[0].value)
                note = [c for c in ast.walk(lp) if isinstance(c, ast.Call) and "notify_" in norm(c.func)]
                okn = src_ok and all(norm(c.func) == f"self.directory_computation.notify_{k}_{suffix}" and norm(c.args[0]) == norm(lp.target) for c in note)
                ctx.check(okn, "R-PROTO.d", f"Directory.{fname}: notify_{k}_{suffix} to {table}", df, lp,
                          f"{fname} must notify exactly the subscribers of {table} (and of all agents) with notify_{k}_{suffix}")
            # coverage: every subscriber table of the kind is notified (by-name entry; for agents also the all-agents set); sources may be
            # separate loops or a set union, never a choice between them
            srcs = []
            choice = None
            for lp in loops:
                e = lp.iter
                if isinstance(e, ast.Name):
                    d_ = [n for n in walk_no_nested(df.node) if isinstance(n, ast.Assign) and norm(n.targets[0]) == e.id]
                    e = d_[0].value if len(d_) == 1 else e
                stack = [e]
                while stack:
                    x = stack.pop()
                    if isinstance(x, ast.BinOp) and isinstance(x.op, ast.BitOr):
                        stack += [x.left, x.right]
                    elif isinstance(x, ast.Call) and isinstance(x.func, ast.Attribute) and x.func.attr == "union":
                        stack += [x.func.value] + list(x.args)
                    elif isinstance(x, (ast.BoolOp, ast.IfExp)):
                        choice = x
                    else:
                        srcs.append(norm(x))
            need = [f"self.{table}[{df.params[1]}]"] + (["self._subscription_all_agents"] if k == "agent" else [])
            ctx.check(choice is None and all(n_ in srcs for n_ in need), "R-PROTO.d", f"Directory.{fname}: all of {need} are notified", df, (choice if choice is not None else (loops or [df.node])[0]),
                      "subscribers by name and subscribers to all agents are both interested: `a or b` / a conditional picks one set and leaves the other without the update")
            mirror = [c for c in walk_no_nested(df.node) if isinstance(c, ast.Call) and norm(c.func) == f"self.discovery.{fname}"]
            okm = len(mirror) == 1
            if okm and reg == "register":
                okm = {kw.arg: norm(kw.value) for kw in mirror[0].keywords}.get("publish") == "False"
            if okm and fname == "unregister_agent":
                okm = {kw.arg: norm(kw.value) for kw in mirror[0].keywords}.get("publish") == "False"
            ctx.check(okm, "R-ECHO", f"Directory.{fname} mirrors into its own discovery without publishing", df, mirror[0] if mirror else df.node,
                      "the directory must update its local discovery view with publish=False")
    # publish_replica handler
    h = repo.func(MOD, "DirectoryComputation._on_publish_replica")
    ffh = FuncFacts(h.node)
    mp = h.params[2]
    for name, pol in (("register_replica", True), ("unregister_replica", False)):
        calls = [c for c in walk_no_nested(h.node) if isinstance(c, ast.Call) and norm(c.func) == f"self.directory.{name}"]
        ok = len(calls) == 1 and [norm(a) for a in calls[0].args] == [f"{mp}.replica", f"{mp}.agent"] and (f"{mp}.publish", pol) in {(norm(t), p) for t, p in facts_at(ffh, calls[0])}
        ctx.check(ok, "R-PROTO.d", f"_on_publish_replica: {name} when publish is {pol}", h, calls[0] if calls else h.node, "replica (un)publication must be routed by the publish flag")
    # discovery-side handlers apply remote updates locally
    apply = {"_on_agent_added": ("register_agent", None), "_on_agent_removed": ("unregister_agent", ["agent"]),
             "_on_computation_added": ("register_computation", ["computation", "agent", "address"]),
             "_on_computation_removed": ("unregister_computation", ["computation", "agent"]),
             "_on_replica_publish": (None, None)}
    for hn, (target, fields) in apply.items():
        h = disc.methods.get(hn)
        if h is None:
            ctx.bad("R-ECHO", f"DiscoveryComputation.{hn}", disc, disc.node, "handler missing")
            continue
        ctx.touch(h)
        mp = h.params[2]
        calls = [c for c in walk_no_nested(h.node) if isinstance(c, ast.Call) and norm(c.func).startswith("self.discovery.")]
        ctx.check(bool(calls) and all({kw.arg: norm(kw.value) for kw in c.keywords}.get("publish") == "False" for c in calls), "R-ECHO",
                  f"DiscoveryComputation.{hn}: local update only", h, calls[0] if calls else h.node,
                  "an update received from the directory must be applied with publish=False")
        if target and fields:
            okr = len(calls) == 1 and norm(calls[0].func) == f"self.discovery.{target}" and [norm(a) for a in calls[0].args] == [f"{mp}.{x}" for x in fields]
            ctx.check(okr, "R-PROTO.d", f"{hn} -> discovery.{target}({', '.join(fields)})", h, calls[0] if calls else h.node,
                      f"the handler must apply {target} with the message fields {fields} in order")
        if hn == "_on_replica_publish":
            ffh = FuncFacts(h.node)
            for name, pol in (("register_replica", True), ("unregister_replica", False)):
                cs = [c for c in calls if norm(c.func) == f"self.discovery.{name}"]
                ok = len(cs) == 1 and [norm(a) for a in cs[0].args] == [f"{mp}.replica", f"{mp}.agent"] and (f"{mp}.publish", pol) in {(norm(t), p) for t, p in facts_at(ffh, cs[0])}
                ctx.check(ok, "R-PROTO.d", f"_on_replica_publish: {name} when publish is {pol}", h, cs[0] if cs else h.node, "replica updates must be routed by the publish flag")

    # ---- R-ITERMUT over the whole module ------------------------------------------------
    n_loops = 0
    for f in repo.all_functions(m):
        for lp in [n for n in walk_no_nested(f.node) if isinstance(n, ast.For)]:
            it = norm(lp.iter)
            if not (it.startswith("self.") and "(" not in it and not it.endswith("[:]")):
                continue
            n_loops += 1
            bad = [c for c in ast.walk(lp) if isinstance(c, ast.Call) and isinstance(c.func, ast.Attribute) and c.func.attr in MUT and norm(c.func.value) == it]
            bad += [n for n in ast.walk(lp) if isinstance(n, (ast.Assign, ast.Delete)) and any(
                isinstance(t, ast.Subscript) and norm(t.value) == it for t in (n.targets if hasattr(n, "targets") else []))
                and isinstance(lp.iter, ast.Attribute) and False]
            ctx.check(not bad, "R-ITERMUT", f"{f.qualname}: for .. in {it}", f, bad[0] if bad else lp,
                      f"'{it}' is modified while it is being iterated: the element after a removed one is skipped (iterate over a copy)")
    ctx.floor("R-ITERMUT", 8)

    # ---- R-PRESENCE ------------------------------------------------------------------------
    tables = ("_agent_cbs", "_computation_cbs", "_replicas_cbs")
    n_idx = 0
    for f in discovery.methods.values():
        ff = FuncFacts(f.node)
        for s in ast.walk(f.node):
            if isinstance(s, ast.Subscript) and any(is_self_attr(s.value, t) for t in tables):
                tbl = s.value.attr
                key = norm(s.slice)
                n_idx += 1
                facts = {(norm(t), p) for t, p in facts_at(ff, s)}
                guarded = (f"{key} in self.{tbl}", True) in facts
                appended = f.name.startswith("subscribe_") and _is_append_receiver(f.node, s)
                ctx.check(guarded or appended, "R-PRESENCE", f"{f.qualname}: self.{tbl}[{key}]", f, ff.stmt(s) or s,
                          f"self.{tbl} is a defaultdict whose key presence means 'already subscribed on the directory': indexing it outside a "
                          f"`{key} in self.{tbl}` test creates the key and later subscriptions are never sent")
    ctx.floor("R-PRESENCE", 15)

    # ---- callbacks fire on change, all of them, one-shots dropped ------------------------------
    for k, tbl, evt in (("agent", "_agent_cbs", "agent_added"), ("computation", "_computation_cbs", "computation_added"), ("replica", "_replicas_cbs", "replica_added")):
        f = repo.func(MOD, f"Discovery.register_{k}")
        ctx.touch(f)
        key = f.params[1]
        gate = [s for s in f.node.body if isinstance(s, ast.If) and norm(s.test) == "not is_change" and len(s.body) == 1 and isinstance(s.body[0], ast.Return)]
        loops = [n for n in walk_no_nested(f.node) if isinstance(n, ast.For) and norm(n.iter) in (f"self.{tbl}[{key}]", f"self.{tbl}[{key}][:]", f"list(self.{tbl}[{key}])")]
        okc = len(gate) == 1 and len(loops) == 1 and gate[0].lineno < loops[0].lineno
        if okc:
            calls = [c for c in ast.walk(loops[0]) if isinstance(c, ast.Call) and norm(c.func) == norm(loops[0].target.elts[0]) ] if isinstance(loops[0].target, ast.Tuple) else []
            okc = len(calls) == 1 and norm(calls[0].args[0]) == repr(evt) and norm(calls[0].args[1]) == key
        ctx.check(okc, "R-CALLBACKS", f"register_{k}: every callback fired with '{evt}' only on a change", f, loops[0] if loops else f.node,
                  f"register_{k} must return early when nothing changed and otherwise call every registered callback with ('{evt}', {key}, ..)")
        filt = [n for n in walk_no_nested(f.node) if isinstance(n, ast.Assign) and isinstance(n.targets[0], ast.Subscript)
                and norm(n.targets[0].value) == f"self.{tbl}[{key}]" and isinstance(n.value, ast.ListComp)]
        okf = len(filt) == 1 and len(filt[0].value.generators[0].ifs) == 1 and norm(filt[0].value.generators[0].ifs[0]).startswith("not ") and \
            norm(filt[0].value.generators[0].iter) == f"self.{tbl}[{key}]" and (not loops or filt[0].lineno > loops[0].end_lineno)
        ctx.check(okf, "R-CALLBACKS", f"register_{k}: one-shot callbacks dropped after firing", f, filt[0] if filt else f.node,
                  "after firing, exactly the one-shot callbacks must be removed (in place) from the table")
        # is_change computed before the view is updated
        ic = [n for n in walk_no_nested(f.node) if isinstance(n, ast.Assign) and norm(n.targets[0]) == "is_change"]
        data = {"agent": "_agents_data", "computation": "_computations_data", "replica": "_replicas_data"}[k]
        upd = [n for n in walk_no_nested(f.node) if (isinstance(n, ast.Assign) and isinstance(n.targets[0], ast.Subscript) and is_self_attr(n.targets[0].value, data))
               or (isinstance(n, ast.Expr) and isinstance(n.value, ast.Call) and norm(n.value.func) == f"self.{data}[{key}].add")]
        ctx.check(len(ic) == 1 and len(upd) >= 1 and ic[0].lineno < upd[0].lineno and data in norm(ic[0].value), "R-CALLBACKS",
                  f"register_{k}: change detected against the previous view, then the view is updated", f, ic[0] if ic else f.node,
                  "is_change must be computed from the old entry before the local view is overwritten")
    for k, tbl, evt in (("agent", "_agent_cbs", "agent_removed"), ("computation", "_computation_cbs", "computation_removed"), ("replica", "_replicas_cbs", "replica_removed")):
        f = repo.func(MOD, f"Discovery.unregister_{k}")
        key = f.params[1]
        loops = [n for n in walk_no_nested(f.node) if isinstance(n, ast.For) and norm(n.iter) in (f"self.{tbl}[{key}]", f"self.{tbl}[{key}][:]", f"list(self.{tbl}[{key}])")]
        okc = len(loops) == 1
        if okc:
            tgt = loops[0].target.elts[0] if isinstance(loops[0].target, ast.Tuple) else loops[0].target
            calls = [c for c in ast.walk(loops[0]) if isinstance(c, ast.Call) and norm(c.func) == norm(tgt)]
            okc = len(calls) == 1 and norm(calls[0].args[0]) == repr(evt) and norm(calls[0].args[1]) == key
        ctx.check(okc, "R-CALLBACKS", f"unregister_{k}: every callback fired with '{evt}'", f, loops[0] if loops else f.node,
                  f"unregister_{k} must call every registered callback with ('{evt}', {key}, ..)")

    # ---- event literals ----------------------------------------------------------------------------
    fired = set()
    for f in discovery.methods.values():
        for c in walk_no_nested(f.node):
            if isinstance(c, ast.Call) and c.args and isinstance(c.args[0], ast.Constant) and isinstance(c.args[0].value, str) \
                    and re.fullmatch(r"(agent|computation|replica)_(added|removed)", c.args[0].value):
                fired.add(c.args[0].value)
    want = {f"{k}_{e}" for k in KINDS for e in ("added", "removed")}
    ctx.check(fired == want, "R-EVENTS", "discovery fires the six event kinds", discovery, discovery.node, f"events fired: {sorted(fired)}, expected {sorted(want)}")
    for mname, mod in repo.modules.items():
        for f in repo.all_functions(mod):
            for cmp_ in ast.walk(f.node):
                if isinstance(cmp_, ast.Compare) and len(cmp_.ops) == 1 and isinstance(cmp_.ops[0], ast.Eq) and isinstance(cmp_.comparators[0], ast.Constant) \
                        and isinstance(cmp_.comparators[0].value, str) and isinstance(cmp_.left, ast.Name) and cmp_.left.id in ("evt", "event") \
                        and cmp_.left.id in f.params:
                    lit = cmp_.comparators[0].value
                    ctx.check(lit in fired, "R-EVENTS", f"{f.fq}: consumes '{lit}'", f, cmp_, f"event '{lit}' is compared here but discovery never fires it")
    ctx.floor("R-EVENTS", 8)
    _keep(ctx, repo)


_SHRINK = {"pop", "remove", "discard", "clear", "popitem", "difference_update", "intersection_update", "symmetric_difference_update", "__delitem__"}


def _keep(ctx, repo):
    """R-KEEP.  (1) Directory: the three by-name subscription tables and the all-agents set only lose an entry in
    unsubscribe_from_K (the subscriber parameter, from the entry of the named target) or in unregister_agent (the removed
    agent's own discovery name); nothing else pops / deletes / clears / rebinds them.  (2) Discovery.unsubscribe_K: local
    data of kind K is dropped only in a block that also sends SubscribeKMessage(.., False)."""
    dcls = repo.cls(MOD, "Directory")
    tables = {"_subscription_agents", "_subscription_computations", "_subscription_replicas", "_subscription_all_agents"}

    def table_of(e, aliases):
        """table name when expression e denotes a table, an entry of a table, or a local alias of an entry"""
        if isinstance(e, ast.Subscript):
            e = e.value
        if isinstance(e, ast.Attribute) and isinstance(e.value, ast.Name) and e.value.id == "self" and e.attr in tables:
            return e.attr
        if isinstance(e, ast.Name) and e.id in aliases:
            return aliases[e.id]
        return None
    unsub = {"unsubscribe_from_agent": "_subscription_agents", "unsubscribe_from_computation": "_subscription_computations",
             "unsubscribe_from_replicas": "_subscription_replicas"}
    n = 0
    for mname, f in dcls.methods.items():
        if mname == "__init__":
            continue
        aliases = {}
        for x in ast.walk(f.node):
            if isinstance(x, ast.For) and isinstance(x.iter, ast.Call) and isinstance(x.iter.func, ast.Attribute) and x.iter.func.attr in ("items", "values") \
                    and table_of(x.iter.func.value, {}):
                tgt = x.target.elts[-1] if isinstance(x.target, ast.Tuple) else x.target
                if isinstance(tgt, ast.Name):
                    aliases[tgt.id] = table_of(x.iter.func.value, {})
            if isinstance(x, ast.Assign) and isinstance(x.targets[0], ast.Name) and table_of(x.value, {}) and isinstance(x.value, (ast.Subscript, ast.Attribute)):
                aliases[x.targets[0].id] = table_of(x.value, {})
        sites = []
        for x in ast.walk(f.node):
            if isinstance(x, ast.Call) and isinstance(x.func, ast.Attribute) and x.func.attr in _SHRINK and table_of(x.func.value, aliases):
                sites.append((x, table_of(x.func.value, aliases), x.func.attr, x.args[0] if x.args else None, x.func.value))
            elif isinstance(x, ast.Delete):
                for t in x.targets:
                    if table_of(t, aliases):
                        sites.append((x, table_of(t, aliases), "del", None, t))
            elif isinstance(x, (ast.Assign, ast.AugAssign)):
                for t in (x.targets if isinstance(x, ast.Assign) else [x.target]):
                    if isinstance(t, ast.Attribute) and table_of(t, {}):
                        sites.append((x, table_of(t, {}), "rebind", None, t))
                    elif isinstance(t, ast.Subscript) and table_of(t, {}) and not (isinstance(x, ast.Assign) and isinstance(x.value, ast.Name) and x.value.id in aliases):
                        sites.append((x, table_of(t, {}), "entry rebind", None, t))
        for node, tab, op, arg, recv in sites:
            n += 1
            ctx.touch(f)
            if mname in unsub:
                ok = op == "remove" and tab == unsub[mname] and arg is not None and norm(arg) == f.params[1] and isinstance(recv, ast.Subscript) and norm(recv.slice) == f.params[2]
                why = f"{mname} may only remove its subscriber `{f.params[1]}` from the entry of `{f.params[2]}` in {unsub[mname]}"
            elif mname == "unregister_agent":
                d = {a.targets[0].id: norm(a.value) for a in ast.walk(f.node) if isinstance(a, ast.Assign) and isinstance(a.targets[0], ast.Name)}
                ok = op in ("remove", "discard") and arg is not None and isinstance(arg, ast.Name) and d.get(arg.id) == f"'_discovery_' + {f.params[1]}"
                why = ("unregister_agent may only drop the removed agent's own subscriptions ('_discovery_' + agent); the subscriptions of others *to* this agent must survive, "
                       "or a later re-registration is never notified to them")
            else:
                ok, why = False, "only unsubscribe_from_* and unregister_agent may shrink a subscription table"
            ctx.check(ok, "R-KEEP", f"Directory.{mname}: {op} on {tab}", f, node, why)
    ctx.floor("R-KEEP", 6)
    # un-registration: the "unknown, nothing to do" exits test the very table the function goes on to shrink
    for k in KINDS:
        f = repo.func(MOD, f"Discovery.unregister_{k}")
        shr = set()
        for x in ast.walk(f.node):
            if isinstance(x, ast.Call) and isinstance(x.func, ast.Attribute) and x.func.attr in _SHRINK:
                r = x.func.value
                while isinstance(r, ast.Subscript):
                    r = r.value
                if isinstance(r, ast.Attribute) and is_self_attr(r, r.attr) and r.attr.endswith("_data"):
                    shr.add(r.attr)
            elif isinstance(x, ast.Delete):
                for t in x.targets:
                    r = t
                    while isinstance(r, ast.Subscript):
                        r = r.value
                    if isinstance(r, ast.Attribute) and is_self_attr(r, r.attr) and r.attr.endswith("_data"):
                        shr.add(r.attr)
        def _shrinks(stmts):
            return any(isinstance(x, ast.Call) and isinstance(x.func, ast.Attribute) and x.func.attr in _SHRINK for s_ in stmts for x in ast.walk(s_)) or any(isinstance(x, ast.Delete) for s_ in stmts for x in ast.walk(s_))
        for st in ast.walk(f.node):
            # the "unknown: nothing to do" exits, written as guard clauses or as the `if` side of an if/else whose else does the work
            if isinstance(st, ast.If) and isinstance(st.test, ast.Compare) and isinstance(st.test.ops[0], ast.NotIn) and not _shrinks(st.body) \
                    and (any(isinstance(y, ast.Return) for y in st.body) or _shrinks(st.orelse)):
                tab = st.test.comparators[0]
                while isinstance(tab, ast.Subscript):
                    tab = tab.value
                if isinstance(tab, ast.Attribute) and is_self_attr(tab, tab.attr) and tab.attr.endswith("_data"):
                    ctx.check(tab.attr in shr, "R-KEEP", f"Discovery.unregister_{k}: `{norm(st.test)}` guards the table that is shrunk ({sorted(shr)})", f, st,
                              f"the early exit tests `{tab.attr}` but the entry is removed from {sorted(shr)}: when the two tables disagree (e.g. the computation was forgotten "
                              "locally during a repair while its replica entry is still there) the un-registration is skipped and the directory keeps a holder that holds nothing")
    cap = {"agent": "Agent", "computation": "Computation", "replica": "Replica"}
    data = {"agent": "_agents_data", "computation": "_computations_data", "replica": "_replicas_data"}
    for k in KINDS:
        f = repo.func(MOD, f"Discovery.unsubscribe_{k}")
        ff = FuncFacts(f.node)
        sends = [c for c in ast.walk(f.node) if isinstance(c, ast.Call) and call_name(c) == f"Subscribe{cap[k]}Message" and norm(c.args[-1]) == "False"]
        sfacts = [{(norm(t), p_) for t, p_ in facts_at(ff, c)} for c in sends]
        for x in ast.walk(f.node):
            drop = None
            if isinstance(x, ast.Call) and isinstance(x.func, ast.Attribute) and x.func.attr in _SHRINK:
                r = x.func.value.value if isinstance(x.func.value, ast.Subscript) else x.func.value
                if isinstance(r, ast.Attribute) and r.attr in data.values() and is_self_attr(r, r.attr):
                    drop = x
            elif isinstance(x, ast.Delete) and any(isinstance(t, ast.Subscript) and isinstance(t.value, ast.Attribute) and t.value.attr in data.values() for t in x.targets):
                drop = x
            if drop is None:
                continue
            fs = {(norm(t), p_) for t, p_ in facts_at(ff, drop)}
            ctx.check(any(fs == sf for sf in sfacts), "R-KEEP", f"Discovery.unsubscribe_{k}: local view dropped only when unsubscribing on the directory", f, drop,
                      "the local view is wiped although this agent stays subscribed (callbacks remain, nothing is sent to the directory): the directory never re-sends what was dropped")


def _is_append_receiver(func_node, sub):
    for c in ast.walk(func_node):
        if isinstance(c, ast.Call) and isinstance(c.func, ast.Attribute) and c.func.attr == "append" and c.func.value is sub:
            return True
    return False


def _authority(ctx, repo):
    """The address of an agent in a local view is what the directory last said about *that agent* (register_agent / the agent notifications).
    A registration of something else that merely mentions an address (a computation hosted on the agent, a replica) may add an agent that is not
    known yet, never overwrite a known one: such messages can be older than the last agent update, or carry a third party's outdated address."""
    ctx.rule("R-AUTHORITY", "only agent registrations overwrite a known agent's address: other registrations add the agent only when it is unknown")
    n = 0
    for cn in ("Discovery", "Directory"):
        cls = repo.cls(MOD, cn)
        for m in cls.methods.values():
            # use_directory: the caller states where the directory agent itself lives - an agent registration, by design
            if m.name in ("register_agent", "unregister_agent", "__init__", "use_directory"):
                continue
            ff = FuncFacts(m.node)
            for c in ast.walk(m.node):
                wr = None
                if isinstance(c, ast.Call) and is_self_call(c, "register_agent") and cn == "Discovery":
                    wr = c
                elif isinstance(c, ast.Subscript) and isinstance(c.ctx, ast.Store) and is_self_attr(c.value, "_agents_data"):
                    wr = c
                if wr is None:
                    continue
                n += 1
                who = norm(wr.args[0]) if isinstance(wr, ast.Call) and wr.args else norm(getattr(wr, "slice", wr))
                fs = {(norm(a), b) for a, b in facts_at(ff, wr)}
                ok = (f"{who} not in self._agents_data", True) in fs or (f"{who} in self._agents_data", False) in fs
                ctx.check(ok, "R-AUTHORITY", f"{cn}.{m.name}: the agent view is only completed, not overwritten", m, wr,
                          f"`{norm(wr)[:70]}` must be guarded by `{who} not in self._agents_data`: otherwise a late or third-party registration replaces the agent's current address "
                          "and the view disagrees with the directory for good")
    if n < 1:
        ctx.defer("R-AUTHORITY: no indirect write to the agent view found (1 confirmed by reading: Discovery.register_computation)")


_D = "pydcop/infrastructure/discovery.py"
VARIANTS = [
    ("computation_registration_overwrites_agent_address", _D, "            if agent not in self._agents_data:\n                self.register_agent(agent, address, publish=False)", "            self.register_agent(agent, address, publish=False)", "break", "R-AUTHORITY"),
    ("unregister_replica_guarded_by_computation_table", _D, "        if replica not in self._replicas_data:\n            self.logger.info('Attempting to unregister an unknown '", "        if replica not in self._computations_data:\n            self.logger.info('Attempting to unregister an unknown '", "break", "R-KEEP"),
    ("register_agent_notifies_one_set_or_the_other", _D, "        for interested in self._subscription_agents[agent]:\n            self.directory_computation.notify_agent_registered(\n                interested, agent, address)\n        for interested in self._subscription_all_agents:\n",
     "        interested_agents = self._subscription_agents[agent] or \\\n            self._subscription_all_agents\n        for interested in interested_agents:\n", "break", "R-PROTO.d"),
    ("n_register_agent_notifies_union", _D, "        for interested in self._subscription_agents[agent]:\n            self.directory_computation.notify_agent_registered(\n                interested, agent, address)\n        for interested in self._subscription_all_agents:\n",
     "        interested_agents = self._subscription_agents[agent] | \\\n            self._subscription_all_agents\n        for interested in interested_agents:\n", "neutral"),
    ("dir_unregister_pops_subscribers", _D, "        interested_agents = self._subscription_agents[agent] | \\\n", "        interested_agents = self._subscription_agents.pop(agent, set()) | \\\n", "break", "R-KEEP"),
    ("dir_unsubscribe_clears_entry", _D, "            self._subscription_computations[computation].remove(subscriber)", "            self._subscription_computations[computation].clear()", "break", "R-KEEP"),
    ("partial_unsubscribe_wipes_view", _D, "                        SubscribeReplicaMessage(replica, False))\n                    # remove all knowledge of current replicas as we are not\n                    #  subscribed any more\n                    self._replicas_data.pop(replica, None)\n",
     "                        SubscribeReplicaMessage(replica, False))\n                self._replicas_data.pop(replica, None)\n", "break", "R-KEEP"),
    ("unsub_replica_wrong_kind", _D, "                    self.discovery_computation.send_to_directory(\n                        SubscribeReplicaMessage(replica, False))\n                    # remove all knowledge",
     "                    self.discovery_computation.send_to_directory(\n                        SubscribeComputationMessage(replica, False))\n                    # remove all knowledge", "break", "R-PROTO.d"),
    ("unregister_agent_itermut", _D, "                for cb, oneshot in self._agent_cbs[agent][:]:\n", "                for cb, oneshot in self._agent_cbs[agent]:\n", "break", "R-ITERMUT"),
    ("unsub_flag_true", _D, "                    self.discovery_computation.send_to_directory(\n                        SubscribeAgentMessage(agent, False))\n            elif cb is not None:", "                    self.discovery_computation.send_to_directory(\n                        SubscribeAgentMessage(agent, True))\n            elif cb is not None:", "break", "R-PROTO.d"),
    ("autovivify_register", _D, "        if computation in self._computation_cbs:\n            for cb, oneshot in self._computation_cbs[computation]:\n                self.logger.debug('fire computation_added", "        if self._computation_cbs[computation]:\n            for cb, oneshot in self._computation_cbs[computation]:\n                self.logger.debug('fire computation_added", "break", "R-PRESENCE"),
    ("dir_subscribe_after_lookup", _D, "            self.directory.subscribe_to_replicas(sender, msg.replica)\n            try:\n                for agt in self.directory.discovery.replica_agents(msg.replica):\n                    self.notify_replica_registered(\n                        sender, msg.replica, agt)\n",
     "            try:\n                for agt in self.directory.discovery.replica_agents(msg.replica):\n                    self.notify_replica_registered(\n                        sender, msg.replica, agt)\n                self.directory.subscribe_to_replicas(sender, msg.replica)\n", "break", "R-OBLIGATION"),
    ("dir_comp_subscribe_after_lookup", _D, "                self.directory.subscribe_to_computation(sender, msg.computation)\n                agt = self.directory.computation_agent(msg.computation)\n", "                agt = self.directory.computation_agent(msg.computation)\n                self.directory.subscribe_to_computation(sender, msg.computation)\n", "break", "R-OBLIGATION"),
    ("dir_wrong_table", _D, "        self._subscription_replicas[replica].add(subscriber)", "        self._subscription_computations[replica].add(subscriber)", "break", "R-PROTO.d"),
    ("dir_notify_wrong_table", _D, "        for interested in self._subscription_replicas[replica]:\n            self.directory_computation.notify_replica_registered(", "        for interested in self._subscription_computations[replica]:\n            self.directory_computation.notify_replica_registered(", "break", "R-PROTO.d"),
    ("dir_notify_wrong_kind", _D, "        for interested in self._subscription_replicas[replica]:\n            self.directory_computation.notify_replica_unregistered(", "        for interested in self._subscription_replicas[replica]:\n            self.directory_computation.notify_replica_registered(", "break", "R-PROTO.d"),
    ("handler_dropped", _D, "            'publish_replica': self._on_replica_publish,\n", "", "break", "R-PROTO.a"),
    ("handler_reads_undeclared", _D, "        self.directory.unregister_computation(msg.computation, msg.agent)", "        self.directory.unregister_computation(msg.computation, msg.agents)", "break", "R-PROTO.b"),
    ("local_apply_republishes", _D, "        self.discovery.register_computation(msg.computation, msg.agent,\n                                            msg.address, publish=False)", "        self.discovery.register_computation(msg.computation, msg.agent,\n                                            msg.address)", "break", "R-ECHO"),
    ("publish_unconditional", _D, "        if publish:\n            self.logger.info('Publishing replica %s hosted on %s',\n                             replica, agent)\n            self.discovery_computation.send_to_directory(\n                PublishReplicaMessage(replica, agent, True))",
     "        if True:\n            self.logger.info('Publishing replica %s hosted on %s',\n                             replica, agent)\n            self.discovery_computation.send_to_directory(\n                PublishReplicaMessage(replica, agent, True))", "break", "R-ECHO"),
    ("replica_flag_inverted", _D, "                PublishReplicaMessage(replica, agent, False))\n        else:\n            self.logger.info('un-register local replica", "                PublishReplicaMessage(replica, agent, True))\n        else:\n            self.logger.info('un-register local replica", "break", "R-PROTO.d"),
    ("oneshot_not_dropped", _D, "            self._replicas_cbs[replica][:] = \\\n                [(cb, oneshot)\n                 for cb, oneshot in self._replicas_cbs[replica]\n                 if not oneshot]\n", "", "break", "R-CALLBACKS"),
    ("fire_without_change_gate", _D, "        if not is_change:\n            return\n        if replica in self._replicas_cbs:", "        if replica in self._replicas_cbs:", "break", "R-CALLBACKS"),
    ("event_literal_typo", _D, "                cb('replica_removed', replica, agent)", "                cb('replica_remove', replica, agent)", "break"),
    ("change_after_update", _D, "        is_change = agent not in self._replicas_data[replica]\n\n        self._replicas_data[replica].add(agent)\n", "        self._replicas_data[replica].add(agent)\n        is_change = agent not in self._replicas_data[replica]\n", "break", "R-CALLBACKS"),
    ("n_copy_iter", _D, "            for cb, oneshot in self._computation_cbs[computation]:\n                self.logger.debug('fire computation_added", "            for cb, oneshot in list(self._computation_cbs[computation]):\n                self.logger.debug('fire computation_added", "neutral"),
]
